import JellyModel.WireDecode
import JellyModel.Decode
import JellyModel.SerGeneric
/-!
# `pyjelly/parse/ioutils.py` and the parse entry points of `integrations/generic/parse.py`

Byte sources are modelled by the bytes they eventually deliver plus what the 3-byte header probe
sees (`Source.header`). After the probe every read goes through `BufferedReader.read(n)`, which
returns `n` bytes unless the source is exhausted — independent of how the transport chunks them.
-/
namespace Jelly

/-- `delimited_jelly_hint`. -/
def delimitedHint (h : Bytes) : Bool :=
  match h with
  | b0 :: b1 :: b2 :: _ => b0 != 0x0A || (b1 == 0x0A && b2 != 0x0A)
  | _ => false

inductive SourceKind
  /-- `BytesIO`, `BufferedReader` over a file, `gzip`: `read(3)` + `seek` back. -/
  | seekable
  /-- Raw non-seekable source with a read schedule: the i-th `read(k)` returns at most `sched[i]`
      (at least one) of the bytes that are left; once the schedule is used up a read returns all it
      was asked for. The header is collected by `read(3 - len(header))` until three bytes are there
      or the source is exhausted, and then put back in front (`_PushbackReader`). -/
  | rawNonSeekable (sched : List Nat)
deriving Repr, DecidableEq, Inhabited

/-- `while len(header) < 3 and (chunk := inp.read(3 - len(header))): header += chunk` -/
def readHeaderLoop : List Nat → Bytes → Bytes → Bytes
  | [], hdr, rest => hdr ++ rest.take (3 - hdr.length)
  | n :: sched, hdr, rest =>
    if 3 ≤ hdr.length then hdr
    else
      let chunk := rest.take (min (max n 1) (3 - hdr.length))
      if chunk.isEmpty then hdr else readHeaderLoop sched (hdr ++ chunk) (rest.drop chunk.length)

def SourceKind.header (k : SourceKind) (b : Bytes) : Bytes :=
  match k with
  | .seekable => b.take 3
  | .rawNonSeekable sched => readHeaderLoop sched [] b

/-- Python's stream varint reader (`_DecodeVarint` on a file object): `none` = clean EOF. -/
def readStreamVarint : Nat → Nat → Nat → Bytes → Except PyErr (Option (Nat × Bytes))
  | _, shift, _, [] => if shift == 0 then .ok none else .error .valueError
  | 0, _, _, _ :: _ => .error .decodeError
  | fuel + 1, shift, acc, b :: rest =>
    let acc' := acc + (b.toNat % 128) * 2 ^ shift
    if b.toNat < 128 then .ok (some (acc' % 2 ^ 64, rest))
    else if shift + 7 ≥ 64 then .error .decodeError
    else readStreamVarint fuel (shift + 7) acc' rest

inductive LP
  | eof
  | frame (f : Frame) (rest : Bytes)
  | err (e : PyErr)
deriving Repr, Inhabited

/-- `parse_length_prefixed(RdfStreamFrame, inp)`. -/
def parseLengthPrefixed (b : Bytes) : LP :=
  match readStreamVarint 10 0 0 b with
  | .error e => .err e
  | .ok none => .eof
  | .ok (some (size, rest)) =>
    if size == 0 then .frame {} rest
    else
      -- `_ChunkedReader.read(size)`: at most MAX_READ_SIZE is asked for at a time, until `size` bytes are there or the
      -- input ends; nothing depends on how large the declared size is

      let data := rest.take size
      match decFrame data with
      | .error e => .err e
      | .ok f => if data.length != size then .err .valueError else .frame f (rest.drop size)

/-- Result of the framing/options stage. `pending` are the frames already parsed (skipped empty
    frames and the first non-empty one), `rest` the bytes not yet looked at. -/
structure Opened where
  opts : ParserOptions
  pending : List Frame
  rest : Bytes
deriving Repr, Inhabited

/-- The first-non-empty-frame search of the delimited branch. -/
def firstNonEmpty : Nat → Bytes → List Frame → Except PyErr (List Frame × Frame × Bytes)
  | 0, _, _ => .error .conformance
  | fuel + 1, b, skipped =>
    match parseLengthPrefixed b with
    | .eof => .error .conformance
    | .err e => .error e
    | .frame f rest =>
      if f.rows.isEmpty then firstNonEmpty fuel rest (skipped ++ [f])
      else .ok (skipped, f, rest)

/-- `get_options_and_frames`. -/
def getOptionsAndFrames (kind : SourceKind) (b : Bytes) : Except PyErr Opened :=
  if delimitedHint (kind.header b) then
    match firstNonEmpty (b.length + 1) b [] with
    | .error e => .error e
    | .ok (skipped, first, rest) =>
      match optionsFromFrame first true with
      | .error e => .error e
      | .ok opts => .ok { opts, pending := skipped ++ [first], rest }
  else
    match decFrame b with
    | .error e => .error e
    | .ok f =>
      if f.rows.isEmpty then .error .conformance
      else
        match optionsFromFrame f false with
        | .error e => .error e
        | .ok opts => .ok { opts, pending := [f], rest := [] }

/-- Lazily parsed remaining frames of a delimited stream (`frame_iterator`), eagerly listed up to
    the first failure. -/
def restFrames : Nat → Bytes → List Frame → List Frame × Option PyErr
  | 0, _, acc => (acc, none)
  | fuel + 1, b, acc =>
    match parseLengthPrefixed b with
    | .eof => (acc, none)
    | .err e => (acc, some e)
    | .frame f rest => restFrames fuel rest (acc ++ [f])

/-- All frames the frame iterator delivers, and the error that ends it (if any). -/
def Opened.frames (o : Opened) : List Frame × Option PyErr :=
  if o.opts.delimited then
    let (fs, e) := restFrames (o.rest.length + 1) o.rest []
    (o.pending ++ fs, e)
  else (o.pending, none)

/-- Adapter selection by physical type (both flat and grouped). -/
def adapterFor (physical : Nat) : Except PyErr AdapterKind :=
  if physical == 1 then .ok .triples
  else if physical == 2 then .ok .quads
  else if physical == 3 then .ok .graphs
  else if validPhysical physical then .error .notImplemented
  else .error .valueError

/-- Decode a list of frames with one decoder, frame by frame: per-frame events. Stops at the first
    failing row; the events of that frame delivered before the failure are returned separately. -/
def decodeFrames (quoted : Bool) (d : DecState) : List Frame → List (List Event) →
    List (List Event) × List Event × Option PyErr
  | [], acc => (acc, [], none)
  | f :: fs, acc =>
    match d.decodeRows quoted f.rows [] with
    | (_, evs, some e) => (acc, evs, some e)
    | (d', evs, none) => decodeFrames quoted d' fs (acc ++ [evs])

/-- Outcome of a flat parse: events yielded in order, then normal end or an exception. -/
structure FlatResult where
  events : List Event
  err : Option PyErr
deriving Repr, DecidableEq, Inhabited

/-- The logical-type gates. -/
def strictFlatOk (logical : Nat) : Bool := logicalFlat logical
def strictGroupedOk (logical : Nat) : Bool := logical != 0 && !logicalFlat logical

/-- Shared core of the flat and grouped parsers. Returns complete per-frame event lists, the
    events of the frame that failed, and the error. -/
def parseCore (quoted : Bool) (kind : SourceKind) (b : Bytes) (gate : Nat → Bool) :
    List (List Event) × List Event × Option PyErr :=
  match getOptionsAndFrames kind b with
  | .error e => ([], [], some e)
  | .ok opened =>
    if !gate opened.opts.logical then ([], [], some .conformance)
    else
      match adapterFor opened.opts.physical with
      | .error e => ([], [], some e)
      | .ok adapter =>
        match DecState.new opened.opts adapter with
        | .error e => ([], [], some e)
        | .ok d =>
          let (frames, ferr) := opened.frames
          match decodeFrames quoted d frames [] with
          | (done, partialEvs, some e) => (done, partialEvs, some e)
          | (done, _, none) => (done, [], ferr)

/-- `parse_jelly_flat` (generic: quoted triples supported). -/
def parseFlat (kind : SourceKind) (b : Bytes) (strict : Bool := false) (quoted : Bool := true) : FlatResult :=
  let (done, part, err) := parseCore quoted kind b (fun l => !strict || strictFlatOk l)
  { events := done.flatten ++ part, err }

/-- Build the sink of one frame: `Prefix` → `bind`, statement → `add`. -/
def sinkOfEvents (evs : List Event) : Sink :=
  evs.foldl (fun (s : Sink) ev =>
    match ev with
    | .stmt ts => { s with store := s.store ++ [ts] }
    | .ns name iri => { s with namespaces := bindNs s.namespaces name iri }) {}

structure GroupedResult where
  sinks : List Sink
  err : Option PyErr
deriving Repr, DecidableEq, Inhabited

/-- `parse_jelly_grouped`: one sink per frame; a frame that fails yields no sink. -/
def parseGrouped (kind : SourceKind) (b : Bytes) (strict : Bool := false) (quoted : Bool := true) : GroupedResult :=
  let (done, _, err) := parseCore quoted kind b (fun l => !strict || strictGroupedOk l)
  { sinks := done.map sinkOfEvents, err }

/-- `parse_jelly_to_graph`: everything in one sink, or the exception. -/
def parseToGraph (kind : SourceKind) (b : Bytes) (quoted : Bool := true) : Except PyErr Sink :=
  let r := parseFlat kind b false quoted
  match r.err with
  | some e => .error e
  | none => .ok (sinkOfEvents r.events)

end Jelly

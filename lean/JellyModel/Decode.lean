import JellyModel.Lookup
import JellyModel.Stream
/-!
# `pyjelly/parse/decode.py` with the generic adapters of `integrations/generic/parse.py`

The decoder works on the protobuf object model (`Row`), not on bytes.
-/
namespace Jelly

structure ParserOptions where
  physical : Nat
  logical : Nat
  maxNames : Nat
  maxPrefixes : Nat
  maxDatatypes : Nat
  streamName : String
  generalized : Bool
  rdfStar : Bool
  /-- `StreamParameters.version` after `__post_init__`: 2 iff namespace declarations. -/
  version : Nat
  delimited : Bool
  namespaceDeclarations : Bool
deriving DecidableEq, Repr, Inhabited

/-- `EnumTypeWrapper.Name(n)` raises ValueError for an undeclared number. -/
def physicalName? (n : Nat) : Except PyErr Unit := if validPhysical n then .ok () else .error .valueError
def logicalName? (n : Nat) : Except PyErr Unit := if validLogical n then .ok () else .error .valueError

/-- `validate_type_compatibility` including the error path that formats enum names. -/
def validateTypes (physical logical : Nat) : Except PyErr Unit :=
  if physical == 0 || logical == 0 then .ok ()
  else if (physical == 1) != (logical == 3 || logical == 13 || logical == 1) then
    match physicalName? physical with
    | .error e => .error e
    | .ok () =>
      match logicalName? logical with
      | .error e => .error e
      | .ok () => .error .jassertion
  else .ok ()

/-- `options_from_frame`: reads `rows[0].options` whatever member of the oneof is set. -/
def optionsFromFrame (f : Frame) (delimited : Bool) : Except PyErr ParserOptions :=
  match f.rows with
  | [] => .error .indexError
  | r :: _ =>
    let o : Options := match r with | .options o => o | _ => {}
    let nd := o.version ≥ 2
    match validateTypes o.physicalType o.logicalType with
    | .error e => .error e
    | .ok () =>
      if o.maxNames < MIN_NAME_LOOKUP_SIZE then .error .conformance
      else .ok {
        physical := o.physicalType, logical := o.logicalType
        maxNames := o.maxNames, maxPrefixes := o.maxPrefixes, maxDatatypes := o.maxDatatypes
        streamName := o.streamName, generalized := o.generalized, rdfStar := o.rdfStar
        version := if nd then 2 else 1
        delimited, namespaceDeclarations := nd }

inductive AdapterKind
  | triples | quads | graphs
deriving DecidableEq, Repr, Inhabited

structure DecState where
  opts : ParserOptions
  adapter : AdapterKind
  names : LookupDec
  prefixes : LookupDec
  datatypes : LookupDec
  rep : Repeated := {}
  /-- graphs adapter: `_graph_id` -/
  graphId : Option Term := none
deriving Repr, DecidableEq, Inhabited

/-- `Decoder.__init__`. -/
def DecState.new (opts : ParserOptions) (adapter : AdapterKind) : Except PyErr DecState := do
  let names ← LookupDec.new opts.maxNames
  let prefixes ← LookupDec.new opts.maxPrefixes
  let datatypes ← LookupDec.new opts.maxDatatypes
  return { opts, adapter, names, prefixes, datatypes }

/-- `validate_stream_options` (plain `assert`s). -/
def DecState.validateOptions (d : DecState) (o : Options) : Except PyErr Unit :=
  if d.opts.physical == o.physicalType && d.opts.logical == o.logicalType
      && d.opts.streamName == o.streamName && d.opts.version ≥ o.version
      && d.opts.maxPrefixes == o.maxPrefixes && d.opts.maxDatatypes == o.maxDatatypes
      && d.opts.maxNames == o.maxNames then .ok ()
  else .error .assertionError

/-- `decode_iri`: the name is resolved first, then the prefix. -/
def DecState.decodeIri (d : DecState) (p n : Nat) : Except PyErr (DecState × String) :=
  match d.names.nameTerm n with
  | (_, .error e) => .error e
  | (names', .ok name) =>
    match d.prefixes.prefixTerm p with
    | (_, .error e) => .error e
    | (prefixes', .ok pfx) => .ok ({ d with names := names', prefixes := prefixes' }, pfx ++ name)

/-- `decode_literal` (after the fix: a datatype reference is resolved whenever present). -/
def DecState.decodeLiteral (d : DecState) (lex : String) (k : WLitKind) : Except PyErr (DecState × Term) :=
  match k with
  | .plain => .ok (d, .lit lex none none)
  | .lang l => if l != "" then .ok (d, .lit lex (some l) none) else .ok (d, .lit lex none none)
  | .dt id =>
    match d.datatypes.datatypeTerm id with
    | (_, .error e) => .error e
    | (dts', .ok dt) => .ok ({ d with datatypes := dts' }, .lit lex none (some dt))

mutual
  /-- `decode_term`. `quoted` = the adapter implements `quoted_triple`. -/
  def DecState.decodeTerm (quoted : Bool) (d : DecState) : WTerm → Except PyErr (DecState × Term)
    | .iri p n =>
      match d.decodeIri p n with
      | .error e => .error e
      | .ok (d', s) => .ok (d', .iri s)
    | .bnode b => .ok (d, .bnode b)
    | .literal lex k => d.decodeLiteral lex k
    | .defaultGraph => .ok (d, .defaultGraph)
    | .triple s p o =>
      match DecState.decodeQuotedSlot quoted d s with
      | .error e => .error e
      | .ok (d1, ts) =>
        match DecState.decodeQuotedSlot quoted d1 p with
        | .error e => .error e
        | .ok (d2, tp) =>
          match DecState.decodeQuotedSlot quoted d2 o with
          | .error e => .error e
          | .ok (d3, to) => if quoted then .ok (d3, .quoted ts tp to) else .error .notImplemented
  /-- One position of `decode_quoted_triple`: an unset oneof raises ValueError. -/
  def DecState.decodeQuotedSlot (quoted : Bool) (d : DecState) : Option WTerm → Except PyErr (DecState × Term)
    | none => .error .valueError
    | some t => DecState.decodeTerm quoted d t
end

/-- One position of `decode_statement`. -/
def DecState.decodeSlot (quoted : Bool) (d : DecState) (prev : Option Term) (w : Option WTerm) :
    Except PyErr (DecState × Term) :=
  match w with
  | some t => d.decodeTerm quoted t
  | none =>
    match prev with
    | some t => .ok (d, t)
    | none => .error .keyError

/-- `decode_statement` over subject, predicate, object (and graph for quads). -/
def DecState.decodeSpo (quoted : Bool) (d : DecState) (s p o : Option WTerm) :
    Except PyErr (DecState × Term × Term × Term) :=
  match d.decodeSlot quoted d.rep.s s with
  | .error e => .error e
  | .ok (d1, ts) =>
    let d1 := { d1 with rep := { d1.rep with s := some ts } }
    match d1.decodeSlot quoted d1.rep.p p with
    | .error e => .error e
    | .ok (d2, tp) =>
      let d2 := { d2 with rep := { d2.rep with p := some tp } }
      match d2.decodeSlot quoted d2.rep.o o with
      | .error e => .error e
      | .ok (d3, to) => .ok ({ d3 with rep := { d3.rep with o := some to } }, ts, tp, to)

/-- `decode_row` + the filter of `iter_rows`: the new state and the event delivered, if any. -/
def DecState.decodeRow (quoted : Bool) (d : DecState) : Row → Except PyErr (DecState × Option Event)
  | .empty => .error .typeError
  | .options o =>
    match d.validateOptions o with
    | .error e => .error e
    | .ok () => .ok (d, none)
  | .prefixEntry id v =>
    match d.prefixes.assignEntry id v with
    | .error e => .error e
    | .ok t => .ok ({ d with prefixes := t }, none)
  | .nameEntry id v =>
    match d.names.assignEntry id v with
    | .error e => .error e
    | .ok t => .ok ({ d with names := t }, none)
  | .dtEntry id v =>
    match d.datatypes.assignEntry id v with
    | .error e => .error e
    | .ok t => .ok ({ d with datatypes := t }, none)
  | .triple s p o =>
    match d.decodeSpo quoted s p o with
    | .error e => .error e
    | .ok (d', ts, tp, to) =>
      match d.adapter with
      | .triples => .ok (d', some (.stmt [ts, tp, to]))
      | .quads => .error .notImplemented
      | .graphs =>
        match d'.graphId with
        | none => .error .conformance
        | some g => .ok (d', some (.stmt [ts, tp, to, g]))
  | .quad s p o g =>
    match d.decodeSpo quoted s p o with
    | .error e => .error e
    | .ok (d', ts, tp, to) =>
      match d'.decodeSlot quoted d'.rep.g g with
      | .error e => .error e
      | .ok (d'', tg) =>
        let d'' := { d'' with rep := { d''.rep with g := some tg } }
        match d.adapter with
        | .quads => .ok (d'', some (.stmt [ts, tp, to, tg]))
        | _ => .error .notImplemented
  | .graphStart g =>
    match g with
    | none => .error .typeError
    | some t =>
      match d.decodeTerm quoted t with
      | .error e => .error e
      | .ok (d', tg) =>
        match d.adapter with
        | .graphs => .ok ({ d' with graphId := some tg }, none)
        | _ => .error .notImplemented
  | .graphEnd =>
    match d.adapter with
    | .graphs => .ok ({ d with graphId := none }, none)
    | _ => .error .notImplemented
  | .namespace name iri =>
    let (p, n) := iri.getD (0, 0)
    match d.decodeIri p n with
    | .error e => .error e
    | .ok (d', s) => .ok (d', some (.ns name (.iri s)))

/-- Decode rows until the first failure: events delivered so far, final state, error. -/
def DecState.decodeRows (quoted : Bool) (d : DecState) : List Row → List Event → DecState × List Event × Option PyErr
  | [], acc => (d, acc, none)
  | r :: rs, acc =>
    match d.decodeRow quoted r with
    | .error e => (d, acc, some e)
    | .ok (d', ev) => DecState.decodeRows quoted d' rs (acc ++ ev.toList)

end Jelly

import JellyModel.SerRdflib
import JellyModel.Wire
/-!
# File-level entry points

* `pyjelly/integrations/rdflib/serialize.py`: `guess_options`, `guess_stream`, the dispatch of
  `stream_frames` on the stream class, `RDFLibJellySerializer.serialize` (the rdflib plugin behind
  `Graph.serialize(format="jelly", options=, stream=)`), `flat_stream_to_frames/_file`,
  `grouped_stream_to_frames/_file`;
* `pyjelly/integrations/generic/serialize.py`: `flat_stream_to_file`, `grouped_stream_to_file`;
* `pyjelly/integrations/generic/generic_sink.py`: `GenericStatementSink.serialize`.

An rdflib store is represented by what the harness observes of it: its kind, its bound namespaces and
its iteration orders (`ds.graphs()` with identifiers, `ds.quads()`); the model does not predict
rdflib's hashing.
-/
namespace Jelly

/-- What is observed of an rdflib `Graph` / `Dataset`. For a `Graph`, `graphs` has one entry. -/
structure RStore where
  isDataset : Bool
  ns : List (String × String)
  graphs : List (Term × List (List Term))
  quads : List (List Term)
deriving Repr, Inhabited

/-- rdflib `guess_options(sink)`: flat logical type by store kind; no RDF-star, no generalized statements. -/
def guessOptionsR (isDataset : Bool) : SerOptions :=
  { logicalType := if isDataset then 2 else 1, params := { generalized := false, rdfStar := false } }

/-- rdflib `guess_stream(options, sink)`: `QuadStream` for a Dataset unless the base logical type is
    GRAPHS, else `TripleStream`; built with `for_rdflib(options=options)`. -/
def guessStreamR (o : SerOptions) (isDataset : Bool) : Except PyErr Stream :=
  Stream.new (if (o.logicalType % 10 != 3) && isDataset then .quad else .triple) o

/-- `stream_frames(stream, store)`: singledispatch on the stream class. -/
def streamFramesR (s : Stream) (st : RStore) : Run :=
  match s.cls with
  | .triple => triplesStreamFramesR s true st.ns (st.graphs.map (·.2))
  | .quad => quadsStreamFramesR s true st.ns st.quads
  | .graph => graphsStreamFramesR s true st.ns st.graphs

/-- The bytes written for the frames of a run, each frame written as soon as it is produced. -/
def Run.bytes (delimited : Bool) (r : Run) : Bytes :=
  r.frames.flatMap fun f => if delimited then writeDelimited f else writeSingle f

/-- `RDFLibJellySerializer.serialize(out, stream=, options=)`: options guessed when absent, stream
    guessed when absent, framing chosen from the STREAM's options. Returns the bytes written (also
    when an exception ends the run) and the exception. -/
def pluginSerialize (st : RStore) (opts : Option SerOptions) (stream : Option Stream) : Bytes × Option PyErr :=
  let o := opts.getD (guessOptionsR st.isDataset)
  let sE : Except PyErr Stream := match stream with
    | some s => .ok s
    | none => guessStreamR o st.isDataset
  match sE with
  | .error e => ([], some e)
  | .ok s =>
    let r := streamFramesR s st
    (r.bytes s.opts.params.delimited, r.err)

/-- rdflib `flat_stream_to_frames(statements, options)`: nothing for an empty input; the store kind is
    guessed from the arity of the first statement. The generator is not a Graph: no declarations. -/
def flatStreamToFramesR (stmts : List (List Term)) (opts : Option SerOptions) : Run :=
  match stmts with
  | [] => { stream := default }
  | first :: _ =>
    let isDataset := first.length == 4
    let o := opts.getD (guessOptionsR isDataset)
    match guessStreamR o isDataset with
    | .error e => { stream := default, err := some e }
    | .ok s =>
      match s.cls with
      | .triple => triplesStreamFramesR s false [] [stmts]
      | .quad => quadsStreamFramesR s false [] stmts
      | .graph => { stream := s, err := some .typeError }

/-- rdflib / generic `flat_stream_to_file`: every frame written with `write_delimited`, whatever the options say. -/
def flatStreamToFileR (stmts : List (List Term)) (opts : Option SerOptions) : Bytes × Option PyErr :=
  let r := flatStreamToFramesR stmts opts
  (r.bytes true, r.err)

/-- rdflib `grouped_stream_to_frames(stores, options)`: one stream, guessed from the first store. -/
def groupedStreamToFramesR.go (s : Stream) (acc : List Frame) : List RStore → List Frame × Stream × Option PyErr
  | [] => (acc, s, none)
  | st :: rest =>
    let r := streamFramesR s st
    match r.err with
    | some e => (acc ++ r.frames, r.stream, some e)
    | none => groupedStreamToFramesR.go r.stream (acc ++ r.frames) rest

def groupedStreamToFramesR (stores : List RStore) (opts : Option SerOptions) : List Frame × Option PyErr :=
  match stores with
  | [] => ([], none)
  | first :: _ =>
    let o := opts.getD (guessOptionsR first.isDataset)
    match guessStreamR o first.isDataset with
    | .error e => ([], some e)
    | .ok s =>
      let (fs, _, e) := groupedStreamToFramesR.go s [] stores
      (fs, e)

def groupedStreamToFileR (stores : List RStore) (opts : Option SerOptions) : Bytes × Option PyErr :=
  let (fs, e) := groupedStreamToFramesR stores opts
  (fs.flatMap writeDelimited, e)

/-- generic `flat_stream_to_file` / `grouped_stream_to_file`: always `write_delimited`. -/
def flatStreamToFile (stmts : List (List Term)) (opts : Option SerOptions) : Bytes × Option PyErr :=
  let (fs, _, e) := flatStreamToFrames stmts opts
  (fs.flatMap writeDelimited, e)

def groupedStreamToFile (sinks : List Sink) (opts : Option SerOptions) : Bytes × Option PyErr :=
  let (fs, _, e) := groupedStreamToFrames sinks opts
  (fs.flatMap writeDelimited, e)

end Jelly

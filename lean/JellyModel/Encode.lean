import JellyModel.Lookup
/-!
# `pyjelly/serialize/encode.py` and the generic term encoder

Every function returns the encoder state reached *when the exception escapes* together with
the result, because the Python code mutates the lookups before raising (property C20).
-/
namespace Jelly

/-- Index of the last occurrence of `c`, if any. -/
def lastIndexOf (c : Char) : List Char → Option Nat
  | [] => none
  | x :: xs =>
    match lastIndexOf c xs with
    | some i => some (i + 1)
    | none => if x == c then some 0 else none

/-- `split_iri`: last `#`, else last `/`, else no prefix. The separator stays with the prefix. -/
def splitIriChars (cs : List Char) : List Char × List Char :=
  match lastIndexOf '#' cs with
  | some i => (cs.take (i + 1), cs.drop (i + 1))
  | none =>
    match lastIndexOf '/' cs with
    | some i => (cs.take (i + 1), cs.drop (i + 1))
    | none => ([], cs)

def splitIri (s : String) : String × String :=
  let r := splitIriChars s.toList
  (String.ofList r.1, String.ofList r.2)

structure TermEnc where
  names : LookupEnc
  prefixes : LookupEnc
  datatypes : LookupEnc
  /-- `TermEncoder.row_open`: a row was started (`start_row`) and not finished (`end_row`). It stays
      set when the row is abandoned by an exception. -/
  rowOpen : Bool := false
deriving Repr, DecidableEq, Inhabited

def TermEnc.new (maxNames maxPrefixes maxDatatypes : Nat) : TermEnc :=
  { names := .new maxNames, prefixes := .new maxPrefixes, datatypes := .new maxDatatypes }

/-- `TermEncoder.start_row`: the terms of a new row are about to be encoded; entries used by the
    previous row may be evicted again. -/
def LookupEnc.startRow (e : LookupEnc) : LookupEnc := { e with lookup := { e.lookup with pinned := some [] } }

def TermEnc.startRow (te : TermEnc) : TermEnc :=
  { names := te.names.startRow, prefixes := te.prefixes.startRow, datatypes := te.datatypes.startRow, rowOpen := true }

/-- `bool(lookup.pinned)`: tracked and not empty. -/
def LookupEnc.hasPins (e : LookupEnc) : Bool :=
  match e.lookup.pinned with
  | some (_ :: _) => true
  | _ => false

/-- The previous row was abandoned after it had used the lookup tables: entries may have been
    assigned whose rows were never sent. -/
def TermEnc.broken (te : TermEnc) : Bool :=
  te.rowOpen && (te.names.hasPins || te.prefixes.hasPins || te.datatypes.hasPins)

/-- `TermEncoder.start_row()`: refuses (`JellyConformanceError`) on a broken encoder. -/
def TermEnc.beginRow (te : TermEnc) : Except PyErr TermEnc :=
  if te.broken then .error .conformance else .ok te.startRow

/-- The encoder state with the row-local bookkeeping (`pinned`) forgotten: what the NEXT row sees,
    since every row starts with `startRow`. -/
def LookupEnc.unpin (e : LookupEnc) : LookupEnc := { e with lookup := { e.lookup with pinned := none } }

def TermEnc.unpin (te : TermEnc) : TermEnc :=
  { te with names := te.names.unpin, prefixes := te.prefixes.unpin, datatypes := te.datatypes.unpin }

/-- `TermEncoder.end_row()`: the row is complete; nothing is tracked between rows. -/
def TermEnc.endRow (te : TermEnc) : TermEnc :=
  { names := te.names.unpin, prefixes := te.prefixes.unpin, datatypes := te.datatypes.unpin, rowOpen := false }

/-- Result of a step that may raise after having changed the state. -/
abbrev Res (σ α : Type) := σ × Except PyErr α

/-- `encode_iri_indices`: rows, prefix id, name id. -/
def TermEnc.iriIndices (te : TermEnc) (iri : String) : Res TermEnc (List Row × Nat × Nat) :=
  let (pfx, nm0) := splitIri iri
  let usePrefix := te.prefixes.lookup.maxSize != 0
  let nm := if usePrefix then nm0 else iri
  -- prefix entry
  match (if usePrefix then te.prefixes.entryIndex pfx else .ok (te.prefixes, none)) with
  | .error e => (te, .error e)
  | .ok (pe, pEntry) =>
    let te1 := { te with prefixes := pe }
    match te1.names.entryIndex nm with
    | .error e => (te1, .error e)
    | .ok (ne, nEntry) =>
      let te2 := { te1 with names := ne }
      let rows :=
        (match pEntry with | some id => [Row.prefixEntry id pfx] | none => []) ++
        (match nEntry with | some id => [Row.nameEntry id nm] | none => [])
      match te2.prefixes.prefixTermIndex pfx with
      | .error e => (te2, .error e)
      | .ok (pe', pIdx) =>
        let te3 := { te2 with prefixes := pe' }
        match te3.names.nameTermIndex nm with
        | .error e => (te3, .error e)
        | .ok (ne', nIdx) => ({ te3 with names := ne' }, .ok (rows, pIdx, nIdx))

def strTruthy (o : Option String) : Bool :=
  match o with
  | some s => s != ""
  | none => false

/-- `encode_literal`: rows and the literal kind that ends up in the message. -/
def TermEnc.literal (te : TermEnc) (lang dt : Option String) : Res TermEnc (List Row × WLitKind) :=
  let langKind : WLitKind := match lang with
    | some l => if l != "" then .lang l else .plain
    | none => .plain
  match dt with
  | some d =>
    if d != "" && d != XSD_STRING then
      if te.datatypes.lookup.maxSize == 0 then (te, .error .conformance)
      else
        match te.datatypes.entryIndex d with
        | .error e => (te, .error e)
        | .ok (de, dEntry) =>
          let te1 := { te with datatypes := de }
          let rows := match dEntry with | some id => [Row.dtEntry id d] | none => []
          match te1.datatypes.datatypeTermIndex d with
          | .error e => (te1, .error e)
          | .ok (de', id) =>
            -- `if datatype_id:` — the datatype member is assigned last and wins the oneof
            ({ te1 with datatypes := de' }, .ok (rows, if id != 0 then .dt id else langKind))
    else (te, .ok ([], langKind))
  | none => (te, .ok ([], langKind))

/-- `GenericSinkTermEncoder.encode_spo` (recursive through quoted triples). -/
def TermEnc.spo (te : TermEnc) : Term → Res TermEnc (List Row × WTerm)
  | .iri s =>
    match te.iriIndices s with
    | (te', .error e) => (te', .error e)
    | (te', .ok (rows, p, n)) => (te', .ok (rows, .iri p n))
  | .lit lex lang dt =>
    match te.literal lang dt with
    | (te', .error e) => (te', .error e)
    | (te', .ok (rows, k)) => (te', .ok (rows, .literal lex k))
  | .bnode b => (te, .ok ([], .bnode b))
  | .quoted s p o =>
    match te.spo s with
    | (te1, .error e) => (te1, .error e)
    | (te1, .ok (r1, ws)) =>
      match te1.spo p with
      | (te2, .error e) => (te2, .error e)
      | (te2, .ok (r2, wp)) =>
        match te2.spo o with
        | (te3, .error e) => (te3, .error e)
        | (te3, .ok (r3, wo)) => (te3, .ok (r1 ++ r2 ++ r3, .triple (some ws) (some wp) (some wo)))
  | .defaultGraph => (te, .error .notImplemented)
  | .unsupported => (te, .error .notImplemented)

/-- `GenericSinkTermEncoder.encode_graph`. -/
def TermEnc.graph (te : TermEnc) : Term → Res TermEnc (List Row × WTerm)
  | .defaultGraph => (te, .ok ([], .defaultGraph))
  | .iri s =>
    match te.iriIndices s with
    | (te', .error e) => (te', .error e)
    | (te', .ok (rows, p, n)) => (te', .ok (rows, .iri p n))
  | .lit lex lang dt =>
    match te.literal lang dt with
    | (te', .error e) => (te', .error e)
    | (te', .ok (rows, k)) => (te', .ok (rows, .literal lex k))
  | .bnode b => (te, .ok ([], .bnode b))
  | .quoted _ _ _ => (te, .error .notImplemented)
  | .unsupported => (te, .error .notImplemented)

/-- The four `repeated_terms` slots. -/
structure Repeated where
  s : Option Term := none
  p : Option Term := none
  o : Option Term := none
  g : Option Term := none
deriving Repr, DecidableEq, Inhabited

/-- Encoder-side mutable state shared by all statements of a stream. -/
structure EncState where
  te : TermEnc
  rep : Repeated := {}
deriving Repr, DecidableEq, Inhabited

def EncState.unpin (st : EncState) : EncState := { st with te := st.te.unpin }

/-- The encoder state as the next row would find it if nothing is wrong: no pins, no open row. -/
def EncState.idle (st : EncState) : EncState := { st with te := st.te.endRow }

/-- One slot of `encode_spo`/`encode_quad`: compare with the repeated term, encode on a
    difference, then remember the term. `exc` is what `next(terms)` raises on a short tuple. -/
def encSlot (enc : TermEnc → Term → Res TermEnc (List Row × WTerm))
    (te : TermEnc) (prev : Option Term) (t : Term) :
    TermEnc × Option Term × Except PyErr (List Row × Option WTerm) :=
  if prev == some t then (te, prev, .ok ([], none))
  else
    match enc te t with
    | (te', .error e) => (te', prev, .error e)
    | (te', .ok (rows, w)) => (te', some t, .ok (rows, some w))

/-- The body of `encode_triple` after `start_row()`: `encode_spo` and the row (`exc` = StopIteration
    flavour of a short tuple). The repeated terms are updated slot by slot. -/
def encodeTripleBody (exc : PyErr) (st : EncState) (terms : List Term) : Res EncState (List Row) :=
  match terms with
  | [] => (st, .error exc)
  | s :: rest =>
    match encSlot TermEnc.spo st.te st.rep.s s with
    | (te1, _, .error e) => ({ st with te := te1 }, .error e)
    | (te1, rs, .ok (r1, ws)) =>
      let st1 : EncState := { te := te1, rep := { st.rep with s := rs } }
      match rest with
      | [] => (st1, .error exc)
      | p :: rest =>
        match encSlot TermEnc.spo st1.te st1.rep.p p with
        | (te2, _, .error e) => ({ st1 with te := te2 }, .error e)
        | (te2, rp, .ok (r2, wp)) =>
          let st2 : EncState := { te := te2, rep := { st1.rep with p := rp } }
          match rest with
          | [] => (st2, .error exc)
          | o :: _ =>
            match encSlot TermEnc.spo st2.te st2.rep.o o with
            | (te3, _, .error e) => ({ st2 with te := te3 }, .error e)
            | (te3, ro, .ok (r3, wo)) =>
              ({ te := te3, rep := { st2.rep with o := ro } },
               .ok (r1 ++ r2 ++ r3 ++ [Row.triple ws wp wo]))

/-- `encode_triple`: `start_row()` (which refuses on a broken encoder, leaving everything as it
    was); if a term cannot be encoded the repeated terms are put back (`repeated_terms[:] = previous`)
    and the row stays open; otherwise `end_row()`. -/
def encodeTriple (exc : PyErr) (st0 : EncState) (terms : List Term) : Res EncState (List Row) :=
  match st0.te.beginRow with
  | .error e => (st0, .error e)
  | .ok te =>
    match encodeTripleBody exc { st0 with te := te } terms with
    | (st', .error e) => ({ st' with rep := st0.rep }, .error e)
    | (st', .ok rows) => ({ st' with te := st'.te.endRow }, .ok rows)

/-- The body of `encode_quad` after `start_row()`. -/
def encodeQuadBody (exc : PyErr) (st : EncState) (terms : List Term) : Res EncState (List Row) :=
  match terms with
  | [] => (st, .error exc)
  | s :: rest =>
    match encSlot TermEnc.spo st.te st.rep.s s with
    | (te1, _, .error e) => ({ st with te := te1 }, .error e)
    | (te1, rs, .ok (r1, ws)) =>
      let st1 : EncState := { te := te1, rep := { st.rep with s := rs } }
      match rest with
      | [] => (st1, .error exc)
      | p :: rest =>
        match encSlot TermEnc.spo st1.te st1.rep.p p with
        | (te2, _, .error e) => ({ st1 with te := te2 }, .error e)
        | (te2, rp, .ok (r2, wp)) =>
          let st2 : EncState := { te := te2, rep := { st1.rep with p := rp } }
          match rest with
          | [] => (st2, .error exc)
          | o :: rest =>
            match encSlot TermEnc.spo st2.te st2.rep.o o with
            | (te3, _, .error e) => ({ st2 with te := te3 }, .error e)
            | (te3, ro, .ok (r3, wo)) =>
              let st3 : EncState := { te := te3, rep := { st2.rep with o := ro } }
              match rest with
              | [] => (st3, .error exc)
              | g :: _ =>
                match encSlot TermEnc.graph st3.te st3.rep.g g with
                | (te4, _, .error e) => ({ st3 with te := te4 }, .error e)
                | (te4, rg, .ok (r4, wg)) =>
                  ({ te := te4, rep := { st3.rep with g := rg } },
                   .ok (r1 ++ r2 ++ r3 ++ r4 ++ [Row.quad ws wp wo wg]))

/-- `encode_quad`. -/
def encodeQuad (exc : PyErr) (st0 : EncState) (terms : List Term) : Res EncState (List Row) :=
  match st0.te.beginRow with
  | .error e => (st0, .error e)
  | .ok te =>
    match encodeQuadBody exc { st0 with te := te } terms with
    | (st', .error e) => ({ st' with rep := st0.rep }, .error e)
    | (st', .ok rows) => ({ st' with te := st'.te.endRow }, .ok rows)

/-- `encode_namespace_declaration`: `start_row()`, the IRI, `end_row()`. -/
def encodeNamespace (te : TermEnc) (name iri : String) : Res TermEnc (List Row) :=
  match te.beginRow with
  | .error e => (te, .error e)
  | .ok te0 =>
    match te0.iriIndices iri with
    | (te', .error e) => (te', .error e)
    | (te', .ok (rows, p, n)) => (te'.endRow, .ok (rows ++ [Row.namespace name (some (p, n))]))

end Jelly

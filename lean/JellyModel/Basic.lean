/-!
# Basic vocabulary of the pyjelly model

* `PyErr`   – the Python exception classes the modelled code can raise
* `Term`    – API-level RDF terms (generic integration objects)
* `WTerm`, `Row`, `Frame` – the protobuf object model (what `rdf_pb2` messages hold)
* `Event`   – what a parser delivers (statements and namespace declarations)

Nothing here imports anything outside core Lean, so the driver links as a `lean_exe`.
-/
namespace Jelly

abbrev Bytes := List UInt8

/-- Exception classes (class name only is compared with the implementation). -/
inductive PyErr
  | conformance      -- JellyConformanceError
  | jassertion       -- JellyAssertionError (subclass of AssertionError)
  | notImplemented   -- NotImplementedError
  | typeError
  | indexError
  | keyError
  | valueError
  | assertionError   -- plain `assert`
  | decodeError      -- google.protobuf.message.DecodeError
  | runtimeError     -- StopIteration escaping a generator (PEP 479)
  | stopIteration    -- StopIteration escaping a plain call
  | attributeError
  | overflowError    -- int too large for a C ssize_t (read(n) with n ≥ 2^63)
  | outOfModel       -- the model declines to predict (counted, never a pass)
deriving DecidableEq, Repr, Inhabited

def PyErr.name : PyErr → String
  | .conformance => "JellyConformanceError"
  | .jassertion => "JellyAssertionError"
  | .notImplemented => "NotImplementedError"
  | .typeError => "TypeError"
  | .indexError => "IndexError"
  | .keyError => "KeyError"
  | .valueError => "ValueError"
  | .assertionError => "AssertionError"
  | .decodeError => "DecodeError"
  | .runtimeError => "RuntimeError"
  | .stopIteration => "StopIteration"
  | .attributeError => "AttributeError"
  | .overflowError => "OverflowError"
  | .outOfModel => "OutOfModel"

/-- API-level terms. `unsupported` stands for any object the term encoder has no case for
    (an `int`, `None`, …); `defaultGraph` is the `DefaultGraph` singleton. -/
inductive Term
  | iri (s : String)
  | bnode (s : String)
  | lit (lex : String) (lang : Option String) (dt : Option String)
  | quoted (s p o : Term)
  | defaultGraph
  | unsupported
deriving DecidableEq, Repr, Inhabited

def XSD_STRING : String := "http://www.w3.org/2001/XMLSchema#string"

/-- Literal kind as held by the `literalKind` oneof of `RdfLiteral`. -/
inductive WLitKind
  | plain
  | lang (l : String)
  | dt (id : Nat)
deriving DecidableEq, Repr, Inhabited

/-- A term as held in a protobuf statement message. -/
inductive WTerm
  | iri (prefixId nameId : Nat)
  | bnode (s : String)
  | literal (lex : String) (kind : WLitKind)
  | triple (s p o : Option WTerm)
  | defaultGraph
deriving Repr, Inhabited

structure Options where
  streamName : String := ""
  physicalType : Nat := 0
  generalized : Bool := false
  rdfStar : Bool := false
  maxNames : Nat := 0
  maxPrefixes : Nat := 0
  maxDatatypes : Nat := 0
  logicalType : Nat := 0
  version : Nat := 0
deriving DecidableEq, Repr, Inhabited

/-- One `RdfStreamRow`. `empty` = no member of the `row` oneof is set (parse side only). -/
inductive Row
  | options (o : Options)
  | triple (s p o : Option WTerm)
  | quad (s p o g : Option WTerm)
  | graphStart (g : Option WTerm)
  | graphEnd
  | namespace (name : String) (iri : Option (Nat × Nat))
  | nameEntry (id : Nat) (v : String)
  | prefixEntry (id : Nat) (v : String)
  | dtEntry (id : Nat) (v : String)
  | empty
deriving Repr, Inhabited

structure Frame where
  rows : List Row := []
  metadata : List (String × Bytes) := []
deriving Repr, Inhabited

/-- What a parser delivers. A statement is the list of its 3 or 4 terms. -/
inductive Event
  | stmt (terms : List Term)
  | ns (name : String) (iri : Term)
deriving DecidableEq, Repr, Inhabited

/-! ### Decidable equality for the nested wire terms (not derivable automatically) -/

mutual
  def WTerm.beq : WTerm → WTerm → Bool
    | .iri a b, .iri c d => a == c && b == d
    | .bnode a, .bnode b => a == b
    | .literal a k, .literal b l => a == b && k == l
    | .triple a b c, .triple d e f => WTerm.beqOpt a d && WTerm.beqOpt b e && WTerm.beqOpt c f
    | .defaultGraph, .defaultGraph => true
    | _, _ => false
  def WTerm.beqOpt : Option WTerm → Option WTerm → Bool
    | none, none => true
    | some a, some b => WTerm.beq a b
    | _, _ => false
end

instance : BEq WTerm := ⟨WTerm.beq⟩

/-- Enum helpers: the declared values of the two stream-type enums. -/
def validPhysical (n : Nat) : Bool := n ≤ 3
def validLogical (n : Nat) : Bool := n ≤ 4 || n == 13 || n == 14 || n == 114

end Jelly

import JellyModel.Parse
import JellyModel.Spec
/-!
# Canonical text encoding of terms, statements, events and bytes for the driver line protocol

Strings travel hex-encoded (UTF-8), so NUL, spaces and non-ASCII are safe. Tags are upper-case
letters, hex digits lower-case.
-/
namespace Jelly
namespace Text

def hexDigit (n : Nat) : Char := if n < 10 then Char.ofNat (48 + n) else Char.ofNat (87 + n)

def hexOfBytes (b : Bytes) : String :=
  String.ofList (b.flatMap fun x => [hexDigit (x.toNat / 16), hexDigit (x.toNat % 16)])

def hexOfString (s : String) : String := hexOfBytes (utf8 s)

def hexVal? (c : Char) : Option Nat :=
  if '0' ≤ c && c ≤ '9' then some (c.toNat - 48)
  else if 'a' ≤ c && c ≤ 'f' then some (c.toNat - 87)
  else none

/-- Take the longest hex prefix (even number of digits) off a char list. -/
def takeHex : List Char → Bytes → Bytes × List Char
  | a :: b :: rest, acc =>
    match hexVal? a, hexVal? b with
    | some x, some y => takeHex rest (acc ++ [(x * 16 + y).toUInt8])
    | _, _ => (acc, a :: b :: rest)
  | rest, acc => (acc, rest)

def bytesOfHex (s : String) : Bytes := (takeHex s.toList []).1

def strOfBytes (b : Bytes) : String :=
  match String.fromUTF8? (ByteArray.mk b.toArray) with
  | some s => s
  | none => "�"

def takeStr (cs : List Char) : String × List Char :=
  let (b, rest) := takeHex cs []
  (strOfBytes b, rest)

/-- `-` = None, `h<hex>` = a string. -/
def takeOpt : List Char → Option (Option String × List Char)
  | '-' :: rest => some (none, rest)
  | 'h' :: rest => let (s, r) := takeStr rest; some (some s, r)
  | _ => none

/-- Recursive-descent term parser with explicit fuel. -/
def takeTerm : Nat → List Char → Option (Term × List Char)
  | 0, _ => none
  | fuel + 1, cs =>
    match cs with
    | 'I' :: rest => let (s, r) := takeStr rest; some (.iri s, r)
    | 'B' :: rest => let (s, r) := takeStr rest; some (.bnode s, r)
    | 'D' :: rest => some (.defaultGraph, rest)
    | 'U' :: rest => some (.unsupported, rest)
    | 'L' :: rest =>
      let (lex, r1) := takeStr rest
      match r1 with
      | ':' :: r2 =>
        match takeOpt r2 with
        | some (lang, ':' :: r3) =>
          match takeOpt r3 with
          | some (dt, r4) => some (.lit lex lang dt, r4)
          | none => none
        | _ => none
      | _ => none
    | 'T' :: '(' :: rest =>
      match takeTerm fuel rest with
      | some (s, ';' :: r1) =>
        match takeTerm fuel r1 with
        | some (p, ';' :: r2) =>
          match takeTerm fuel r2 with
          | some (o, ')' :: r3) => some (.quoted s p o, r3)
          | _ => none
        | _ => none
      | _ => none
    | _ => none

def parseTerm (s : String) : Option Term :=
  match takeTerm 64 s.toList with
  | some (t, []) => some t
  | _ => none

/-- Terms separated by `,`. The empty string is the empty tuple. -/
def takeStmt : Nat → List Char → List Term → Option (List Term × List Char)
  | 0, _, _ => none
  | fuel + 1, cs, acc =>
    match takeTerm 64 cs with
    | none => if acc.isEmpty then some ([], cs) else none
    | some (t, ',' :: rest) => takeStmt fuel rest (acc ++ [t])
    | some (t, rest) => some (acc ++ [t], rest)

/-- Statements separated by `/`. `_` stands for the empty list of statements. -/
def parseStmts (s : String) : Option (List (List Term)) :=
  if s == "_" then some [] else
  let parts := s.splitOn "/"
  parts.mapM fun p =>
    match takeStmt 16 p.toList [] with
    | some (t, []) => some t
    | _ => none

def optStr : Option String → String
  | none => "-"
  | some s => "h" ++ hexOfString s

def termText : Term → String
  | .iri s => "I" ++ hexOfString s
  | .bnode s => "B" ++ hexOfString s
  | .lit lex lang dt => "L" ++ hexOfString lex ++ ":" ++ optStr lang ++ ":" ++ optStr dt
  | .quoted s p o => "T(" ++ termText s ++ ";" ++ termText p ++ ";" ++ termText o ++ ")"
  | .defaultGraph => "D"
  | .unsupported => "U"

def stmtText (ts : List Term) : String := ",".intercalate (ts.map termText)

def eventText : Event → String
  | .stmt ts => "S" ++ stmtText ts
  | .ns name iri => "N" ++ hexOfString name ++ "=" ++ termText iri

def eventsText (evs : List Event) : String :=
  if evs.isEmpty then "_" else " ".intercalate (evs.map eventText)

def errText (e : Option PyErr) : String :=
  match e with
  | none => "end"
  | some e => "!" ++ e.name

def sinkText (s : Sink) : String :=
  "{" ++ "/".intercalate (s.namespaces.map fun (p, t) => hexOfString p ++ "=" ++ termText t) ++ "|" ++
    "/".intercalate (s.store.map stmtText) ++ "}"

/-! ### key=value option strings (`k=v;k=v`) -/

def kvs (s : String) : List (String × String) :=
  (s.splitOn ";").filterMap fun p =>
    match p.splitOn "=" with
    | [k, v] => some (k, v)
    | _ => none

def kvGet (m : List (String × String)) (k : String) : Option String := (m.find? (·.1 == k)).map (·.2)
def kvNat (m : List (String × String)) (k : String) (d : Nat) : Nat := ((kvGet m k).bind String.toNat?).getD d
def kvBool (m : List (String × String)) (k : String) (d : Bool) : Bool :=
  match kvGet m k with
  | some "1" => true
  | some "0" => false
  | _ => d

def flowKind? : String → Option FlowKind
  | "manual" => some .manual | "bounded" => some .bounded | "flatTriples" => some .flatTriples
  | "flatQuads" => some .flatQuads | "graphs" => some .graphs | "datasets" => some .datasets
  | _ => none

/-- `flow=<kind>:<logical>:<frameSize>` or absent. -/
def parseFlowSpec (s : String) : Option FlowSpec :=
  match s.splitOn ":" with
  | [k, lt, fs] =>
    match flowKind? k, lt.toNat?, fs.toNat? with
    | some kind, some l, some f => some { kind, logical := l, frameSize := f }
    | _, _, _ => none
  | _ => none

def parseSerOptions (s : String) : SerOptions :=
  let m := kvs s
  { flow := (kvGet m "flow").bind parseFlowSpec
    frameSize := kvNat m "fs" DEFAULT_FRAME_SIZE
    logicalType := kvNat m "lt" 0
    params := {
      generalized := kvBool m "gen" false
      rdfStar := kvBool m "star" false
      delimited := kvBool m "delim" true
      namespaceDeclarations := kvBool m "ns" false
      streamName := match kvGet m "name" with | some h => strOfBytes (bytesOfHex h) | none => "" }
    preset := {
      maxNames := kvNat m "pn" 4000
      maxPrefixes := kvNat m "pp" 150
      maxDatatypes := kvNat m "pd" 32 } }

def streamClass? : String → Option StreamClass
  | "T" => some .triple | "Q" => some .quad | "G" => some .graph | _ => none

/-- A sink: `id~ns~stmts` with ns = `hexname=term/...` or `_`. -/
def parseSink (s : String) : Option Sink :=
  match s.splitOn "~" with
  | [idt, ns, st] => do
    let ident ← parseTerm idt
    let stmts ← parseStmts st
    let nss ← if ns == "_" then some [] else
      (ns.splitOn "/").mapM fun b =>
        match b.splitOn "=" with
        | [k, v] => (parseTerm v).map fun t => (strOfBytes (bytesOfHex k), t)
        | _ => none
    -- `bind` semantics: later bindings of the same prefix replace earlier ones in place
    let nss' := nss.foldl (fun acc (k, v) => bindNs acc k v) []
    some { store := stmts, namespaces := nss', identifier := ident }
  | _ => none

end Text
end Jelly

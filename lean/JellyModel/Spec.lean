import JellyModel.Lookup
import JellyModel.Encode
/-!
# The Jelly format rules as a strict reference decoder

Written from the rule comments of `spec/rdf.proto` (Jelly 1.1.1) — cited as [proto: …] — and,
where the proto is silent, from the property statements (cited as [prop]). Shares no code with
the model of pyjelly's decoder (`Decode.lean`) apart from the table record type.

`Spec.step` either rejects a row with the class of rule it breaks or returns the event it denotes.
`Spec.audit` counts, for C19, the places where a row is bigger than the rules require.
-/
namespace Jelly
namespace Spec

inductive Violation
  | noOptionsFirst          -- [prop C03/C16] the options row comes first
  | optionsChanged          -- [prop C03] it only repeats unchanged
  | badPhysicalType         -- [proto: PHYSICAL_STREAM_TYPE_UNSPECIFIED – invalid]
  | badTypePair             -- [prop C13] physical/logical pairs the specification forbids
  | nameTableTooSmall       -- [proto: max_name_table_size required, must be >= 8]
  | versionZero             -- [proto: version required]
  | versionTooNew           -- [prop C13/C16] versions newer than supported
  | entryIdOutOfRange       -- [proto: 1-based identifier] within the declared table size
  | nameRefOutOfRange | nameRefUnfilled
  | prefixRefOutOfRange | prefixRefUnfilled
  | datatypeRefZero         -- [proto: the value of 0 is invalid]
  | datatypeRefOutOfRange | datatypeRefUnfilled
  | repeatedWithoutPrevious -- [proto: In the first triple of the stream, all terms must be set]
  | repeatedInQuoted        -- [proto: All terms must also be set in quoted triples]
  | rowKindForbidden        -- [prop C03] row kinds match the physical type
  | tripleOutsideGraph      -- [prop C16]
  | graphStartWithoutTerm   -- [proto: setting the graph oneof to some value is always required]
  | graphEndWithoutStart
  | emptyRow
  | namespaceInV1           -- [prop C03] namespace rows appear only in version-2 streams
  | emptyLangtag
  | misplacedTerm
deriving DecidableEq, Repr, Inhabited

def Violation.name (v : Violation) : String := (reprStr v).replace "Jelly.Spec.Violation." ""

structure State where
  opts : Option Options := none
  names : LookupDec := { size := 0, data := [] }
  prefixes : LookupDec := { size := 0, data := [] }
  datatypes : LookupDec := { size := 0, data := [] }
  rep : Repeated := {}
  graph : Option Term := none
deriving Repr, DecidableEq, Inhabited

def typePairAllowed (physical logical : Nat) : Bool :=
  logical == 0 ||
  (validLogical logical &&
    ((physical == 1) == (logical == 1 || logical == 3 || logical == 13)))

def checkOptions (o : Options) : Except Violation Unit :=
  if !(1 ≤ o.physicalType && o.physicalType ≤ 3) then .error .badPhysicalType
  else if !typePairAllowed o.physicalType o.logicalType then .error .badTypePair
  else if o.maxNames < 8 then .error .nameTableTooSmall
  else if o.version == 0 then .error .versionZero
  else if o.version > 2 then .error .versionTooNew
  else .ok ()

def mkTable (n : Nat) : LookupDec := { size := n, data := List.replicate n none }

/-- Entry row: id 0 = previous id + 1 (1 at the start); the id must name a slot of the table. -/
def assign (t : LookupDec) (id : Nat) (v : String) : Except Violation LookupDec :=
  let i := if id == 0 then t.lastAssigned + 1 else id
  if 1 ≤ i && i ≤ t.size then .ok { t with data := t.data.set (i - 1) (some v), lastAssigned := i }
  else .error .entryIdOutOfRange

def slot (t : LookupDec) (i : Nat) : Option (Option String) := if 1 ≤ i && i ≤ t.size then t.data[i - 1]? else none

/-- name_id 0 = previous name id + 1 (1 in the first IRI). -/
def resolveName (t : LookupDec) (id : Nat) : Except Violation (LookupDec × String) :=
  let i := if id == 0 then t.lastReused + 1 else id
  match slot t i with
  | none => .error .nameRefOutOfRange
  | some none => .error .nameRefUnfilled
  | some (some s) => .ok ({ t with lastReused := i }, s)

/-- prefix_id 0 = same as in the previous IRI; with no previous prefix id: the empty prefix. -/
def resolvePrefix (t : LookupDec) (id : Nat) : Except Violation (LookupDec × String) :=
  let i := if id == 0 then t.lastReused else id
  if i == 0 then .ok (t, "")
  else
    match slot t i with
    | none => .error .prefixRefOutOfRange
    | some none => .error .prefixRefUnfilled
    | some (some s) => .ok ({ t with lastReused := i }, s)

def resolveDatatype (t : LookupDec) (id : Nat) : Except Violation (LookupDec × String) :=
  if id == 0 then .error .datatypeRefZero
  else
    match slot t id with
    | none => .error .datatypeRefOutOfRange
    | some none => .error .datatypeRefUnfilled
    | some (some s) => .ok ({ t with lastReused := id }, s)

def resolveIri (st : State) (p n : Nat) : Except Violation (State × String) := do
  let (pt, pfx) ← resolvePrefix st.prefixes p
  let (nt, nm) ← resolveName st.names n
  return ({ st with prefixes := pt, names := nt }, pfx ++ nm)

mutual
  /-- `inGraphPos`: the term sits in a graph position (default graph allowed, quoted triple not). -/
  def resolveTerm (inGraphPos : Bool) (st : State) : WTerm → Except Violation (State × Term)
    | .iri p n => do let (st', s) ← resolveIri st p n; return (st', .iri s)
    | .bnode b => .ok (st, .bnode b)
    | .literal lex .plain => .ok (st, .lit lex none none)
    | .literal lex (.lang l) => if l == "" then .error .emptyLangtag else .ok (st, .lit lex (some l) none)
    | .literal lex (.dt id) => do
        let (dt', d) ← resolveDatatype st.datatypes id
        return ({ st with datatypes := dt' }, .lit lex none (some d))
    | .defaultGraph => if inGraphPos then .ok (st, .defaultGraph) else .error .misplacedTerm
    | .triple s p o =>
      if inGraphPos then .error .misplacedTerm
      else
        match resolveQuotedSlot st s with
        | .error e => .error e
        | .ok (s1, ts) =>
          match resolveQuotedSlot s1 p with
          | .error e => .error e
          | .ok (s2, tp) =>
            match resolveQuotedSlot s2 o with
            | .error e => .error e
            | .ok (s3, to) => .ok (s3, .quoted ts tp to)
  def resolveQuotedSlot (st : State) : Option WTerm → Except Violation (State × Term)
    | none => .error .repeatedInQuoted
    | some t => resolveTerm false st t
end

def resolveSlot (inGraphPos : Bool) (st : State) (prev : Option Term) : Option WTerm → Except Violation (State × Term)
  | some t => resolveTerm inGraphPos st t
  | none =>
    match prev with
    | some t => .ok (st, t)
    | none => .error .repeatedWithoutPrevious

def resolveSpo (st : State) (s p o : Option WTerm) : Except Violation (State × Term × Term × Term) := do
  let (s1, ts) ← resolveSlot false st st.rep.s s
  let s1 := { s1 with rep := { s1.rep with s := some ts } }
  let (s2, tp) ← resolveSlot false s1 s1.rep.p p
  let s2 := { s2 with rep := { s2.rep with p := some tp } }
  let (s3, to) ← resolveSlot false s2 s2.rep.o o
  return ({ s3 with rep := { s3.rep with o := some to } }, ts, tp, to)

/-- One row of the stream. -/
def step (st : State) (r : Row) : Except Violation (State × Option Event) :=
  match st.opts with
  | none =>
    match r with
    | .options o => do
        checkOptions o
        return ({ st with opts := some o, names := mkTable o.maxNames,
                          prefixes := mkTable o.maxPrefixes, datatypes := mkTable o.maxDatatypes }, none)
    | _ => .error .noOptionsFirst
  | some o =>
    match r with
    | .empty => .error .emptyRow
    | .options o' => if o' == o then .ok (st, none) else .error .optionsChanged
    | .nameEntry id v => do let t ← assign st.names id v; return ({ st with names := t }, none)
    | .prefixEntry id v => do let t ← assign st.prefixes id v; return ({ st with prefixes := t }, none)
    | .dtEntry id v => do let t ← assign st.datatypes id v; return ({ st with datatypes := t }, none)
    | .triple s p ob =>
      if o.physicalType == 1 then do
        let (st', ts, tp, to) ← resolveSpo st s p ob
        return (st', some (.stmt [ts, tp, to]))
      else if o.physicalType == 3 then
        match st.graph with
        | none => .error .tripleOutsideGraph
        | some g => do
          let (st', ts, tp, to) ← resolveSpo st s p ob
          return (st', some (.stmt [ts, tp, to, g]))
      else .error .rowKindForbidden
    | .quad s p ob g =>
      if o.physicalType == 2 then do
        let (s1, ts, tp, to) ← resolveSpo st s p ob
        let (s2, tg) ← resolveSlot true s1 s1.rep.g g
        return ({ s2 with rep := { s2.rep with g := some tg } }, some (.stmt [ts, tp, to, tg]))
      else .error .rowKindForbidden
    | .graphStart g =>
      if o.physicalType == 3 then
        match g with
        | none => .error .graphStartWithoutTerm
        | some t => do
          let (st', tg) ← resolveTerm true st t
          return ({ st' with graph := some tg }, none)
      else .error .rowKindForbidden
    | .graphEnd =>
      if o.physicalType == 3 then
        match st.graph with
        | none => .error .graphEndWithoutStart
        | some _ => .ok ({ st with graph := none }, none)
      else .error .rowKindForbidden
    | .namespace name iri =>
      if o.version < 2 then .error .namespaceInV1
      else do
        let (p, n) := iri.getD (0, 0)
        let (st', s) ← resolveIri st p n
        return (st', some (.ns name (.iri s)))

/-- Run the rules over a row sequence: events of the valid prefix, and where it stops being valid. -/
def run (st : State) : List Row → List Event → Nat → State × List Event × Option (Nat × Violation)
  | [], acc, _ => (st, acc, none)
  | r :: rs, acc, i =>
    match step st r with
    | .error v => (st, acc, some (i, v))
    | .ok (st', ev) => run st' rs (acc ++ ev.toList) (i + 1)

def runRows (rows : List Row) : State × List Event × Option (Nat × Violation) := run {} rows [] 0

/-- The row sequence is valid and denotes `evs`. -/
def denotes (rows : List Row) (evs : List Event) : Prop :=
  ∃ st, runRows rows = (st, evs, none)

/-! ## Compression audit (C19) -/

structure Audit where
  redundantEntry : Nat := 0
  missedRepeat : Nat := 0
  missedZero : Nat := 0
  splitGraph : Nat := 0
deriving Repr, DecidableEq, Inhabited

def resident (t : LookupDec) (v : String) : Bool := t.data.any (· == some v)

def entryAudit (t : LookupDec) (id : Nat) (v : String) (a : Audit) : Audit :=
  let a := if resident t v then { a with redundantEntry := a.redundantEntry + 1 } else a
  if id != 0 && id == t.lastAssigned + 1 then { a with missedZero := a.missedZero + 1 } else a

mutual
  /-- Explicit ids where the zero form was available, walking the term in decoding order.
      Returns the (names.lastReused, prefixes.lastReused) after the term. -/
  def termZeroAudit (ln lp : Nat) (cnt : Nat) : WTerm → Nat × Nat × Nat
    | .iri p n =>
      let c1 := if p != 0 && p == lp then cnt + 1 else cnt
      let c2 := if n != 0 && n == ln + 1 then c1 + 1 else c1
      (if n == 0 then ln + 1 else n, if p == 0 then lp else p, c2)
    | .triple s p o =>
      let (ln1, lp1, c1) := optZeroAudit ln lp cnt s
      let (ln2, lp2, c2) := optZeroAudit ln1 lp1 c1 p
      optZeroAudit ln2 lp2 c2 o
    | _ => (ln, lp, cnt)
  def optZeroAudit (ln lp : Nat) (cnt : Nat) : Option WTerm → Nat × Nat × Nat
    | none => (ln, lp, cnt)
    | some t => termZeroAudit ln lp cnt t
end

def slotsZeroAudit (st : State) (ts : List (Option WTerm)) : Nat :=
  (ts.foldl (fun (acc : Nat × Nat × Nat) t => optZeroAudit acc.1 acc.2.1 acc.2.2 t)
    (st.names.lastReused, st.prefixes.lastReused, 0)).2.2

/-- A present top-level term that resolves to the term already in `rep` (missed elision). The
    comparison is made on the resolved terms by the caller, which passes the per-slot flags. -/
def countTrue (l : List Bool) : Nat := (l.filter id).length

/-- Audit one row against the state *before* the row (`st`) and *after* it (`st'`), given the
    repeated terms before and the terms it resolved to. -/
def auditRow (st st' : State) (r : Row) (a : Audit) : Audit :=
  match r with
  | .nameEntry id v => entryAudit st.names id v a
  | .prefixEntry id v => entryAudit st.prefixes id v a
  | .dtEntry id v => entryAudit st.datatypes id v a
  | .triple s p o =>
    let mr := countTrue [s.isSome && st.rep.s == st'.rep.s, p.isSome && st.rep.p == st'.rep.p,
                         o.isSome && st.rep.o == st'.rep.o]
    { a with missedRepeat := a.missedRepeat + mr, missedZero := a.missedZero + slotsZeroAudit st [s, p, o] }
  | .quad s p o g =>
    let mr := countTrue [s.isSome && st.rep.s == st'.rep.s, p.isSome && st.rep.p == st'.rep.p,
                         o.isSome && st.rep.o == st'.rep.o, g.isSome && st.rep.g == st'.rep.g]
    { a with missedRepeat := a.missedRepeat + mr, missedZero := a.missedZero + slotsZeroAudit st [s, p, o, g] }
  | .graphStart g => { a with missedZero := a.missedZero + slotsZeroAudit st [g] }
  | .namespace _ iri =>
    let (p, n) := iri.getD (0, 0)
    { a with missedZero := a.missedZero + slotsZeroAudit st [some (.iri p n)] }
  | _ => a

/-- Run with audit; `lastGraph` tracks the name of the graph closed most recently, to count a
    graph that was split in two consecutive start/end brackets. -/
def runAudit (st : State) (lastClosed : Option Term) (a : Audit) :
    List Row → Audit
  | [] => a
  | r :: rs =>
    match step st r with
    | .error _ => a
    | .ok (st', _) =>
      let a1 := auditRow st st' r a
      let a2 := match r with
        | .graphStart _ => if st'.graph.isSome && st'.graph == lastClosed then { a1 with splitGraph := a1.splitGraph + 1 } else a1
        | _ => a1
      let lc := match r with
        | .graphEnd => st.graph
        | .graphStart _ => none
        | .triple .. => none
        | _ => lastClosed
      runAudit st' lc a2 rs

def audit (rows : List Row) : Audit := runAudit {} none {} rows

end Spec
end Jelly

import JellyModel.Encode
import JellyModel.Parse
import JellyModel.PyPrelude
/-!
# Python fragment prelude, part 2: `bytes` indexing and `str.rpartition` (for the translated module-level functions)
-/
namespace Jelly.Py

/-- `b[i]` on `bytes` (non-negative `i`): the byte, or IndexError -/
def bytesGet (b : Bytes) (i : Nat) : Except PyErr UInt8 :=
  match b[i]? with
  | some x => .ok x
  | none => .error .indexError

/-- `s.rpartition(sep)` for a one-character separator: (head, sep, tail) around the LAST occurrence of `sep`, and
    `("", "", s)` when there is none. Separators of another length are outside the translated fragment. -/
def rpartition (s sep : String) : String × String × String :=
  match sep.toList with
  | [c] =>
    match lastIndexOf c s.toList with
    | some i => (String.ofList (s.toList.take i), sep, String.ofList (s.toList.drop (i + 1)))
    | none => ("", "", s)
  | _ => ("", "", s)

end Jelly.Py

import JellyModel.Stream
/-!
# `pyjelly/integrations/generic/serialize.py` and `generic_sink.py` (writer part)

Generators are modelled by their complete run: the list of frames yielded, the stream state at
the end, and the exception (if any) that ended the run. Frames yielded before an exception have
already been handed to the caller (and written) — they are kept.
-/
namespace Jelly

/-- `GenericStatementSink`: ordered statements, ordered unique-key namespace bindings, identifier. -/
structure Sink where
  store : List (List Term) := []
  namespaces : List (String × Term) := []
  identifier : Term := .defaultGraph
deriving Repr, DecidableEq, Inhabited

/-- `dict.update({prefix: namespace})`: replaces in place or appends. -/
def bindNs (ns : List (String × Term)) (p : String) (iri : Term) : List (String × Term) :=
  if ns.any (·.1 == p) then ns.map (fun e => if e.1 == p then (p, iri) else e) else ns ++ [(p, iri)]

def Sink.isTriplesSink (s : Sink) : Bool :=
  match s.store with
  | t :: _ => t.length == 3
  | [] => false

/-- Input of `stream_frames`: a sink or a plain generator of statements. -/
inductive SerData
  | sink (s : Sink)
  | gen (stmts : List (List Term))
deriving Repr, Inhabited

def SerData.stmts : SerData → List (List Term)
  | .sink s => s.store
  | .gen l => l

structure Run where
  stream : Stream
  frames : List Frame := []
  err : Option PyErr := none
deriving Repr, Inhabited

/-- `namespace_declarations(store, stream)`: `namespace._iri` of each binding. A binding whose
    value is not an `IRI` object has no `_iri` attribute. -/
def nsDeclarations (s : Stream) : List (String × Term) → Res Stream Unit
  | [] => (s, .ok ())
  | (p, .iri i) :: rest =>
    match s.namespaceDeclaration p i with
    | (s', .error e) => (s', .error e)
    | (s', .ok ()) => nsDeclarations s' rest
  | _ :: _ => (s, .error .attributeError)

def Run.push (r : Run) (s : Stream) (f : Option Frame) : Run :=
  { r with stream := s, frames := r.frames ++ f.toList }

/-- The statement loop shared by the triples and quads variants. -/
def stmtLoop (step : Stream → List Term → Res Stream (Option Frame)) (r : Run) : List (List Term) → Run
  | [] => r
  | t :: ts =>
    match step r.stream t with
    | (s', .error e) => { r with stream := s', err := some e }
    | (s', .ok fr) => stmtLoop step (r.push s' fr) ts

/-- The common prologue: `stream.enroll()` + namespace declarations for a sink input. -/
def prologue (s : Stream) (data : SerData) : Res Stream Unit :=
  let s1 := s.enroll
  match data with
  | .sink sk => if s1.opts.params.namespaceDeclarations then nsDeclarations s1 sk.namespaces else (s1, .ok ())
  | .gen _ => (s1, .ok ())

/-- The common epilogue after the fix: flush whatever is left. `which` selects
    `frame_from_graph` (triples variant, inside the graph loop) or `frame_from_dataset`. -/
def epilogue (r : Run) (fromDataset : Bool) : Run :=
  let (f1, fr1) := if fromDataset then r.stream.flow.frameFromDataset else r.stream.flow.frameFromGraph
  let r1 := r.push { r.stream with flow := f1 } fr1
  let (f2, fr2) := r1.stream.flow.toStreamFrame
  r1.push { r1.stream with flow := f2 } fr2

/-- `triples_stream_frames`. Inside a generator a `StopIteration` becomes `RuntimeError`. -/
def triplesStreamFrames (s : Stream) (data : SerData) : Run :=
  match prologue s data with
  | (s1, .error e) => { stream := s1, err := some e }
  | (s1, .ok ()) =>
    let r := stmtLoop (Stream.triple .runtimeError) { stream := s1 } data.stmts
    if r.err.isSome then r else epilogue r false

/-- `quads_stream_frames`. -/
def quadsStreamFrames (s : Stream) (data : SerData) : Run :=
  match prologue s data with
  | (s1, .error e) => { stream := s1, err := some e }
  | (s1, .ok ()) =>
    let r := stmtLoop (Stream.quad .runtimeError) { stream := s1 } data.stmts
    if r.err.isSome then r else epilogue r true

/-- `statement.g` of `split_to_graphs`: only a `Quad` namedtuple has it. -/
def stmtGraph? (t : List Term) : Option Term :=
  match t with
  | [_, _, _, g] => some g
  | _ => none

/-- The graph loop of `graphs_stream_frames`, following the laziness of `split_to_graphs`:
    a graph is encoded as soon as the next graph name (or the end) is seen; a statement without
    `.g` raises `AttributeError` after the graphs completed before it were encoded. -/
def graphsLoop (r : Run) (cur : Option (Term × List (List Term))) : List (List Term) → Run
  | [] =>
    match cur with
    | none => r
    | some (g, ts) =>
      let (s', frs, err) := r.stream.graph .runtimeError g ts
      { stream := s', frames := r.frames ++ frs, err := err }
  | st :: rest =>
    match stmtGraph? st with
    | none => { r with err := some .attributeError }
    | some g =>
      match cur with
      | none => graphsLoop r (some (g, [st.take 3])) rest
      | some (cg, acc) =>
        if cg == g then graphsLoop r (some (cg, acc ++ [st.take 3])) rest
        else
          let (s', frs, err) := r.stream.graph .runtimeError cg acc
          let r' : Run := { stream := s', frames := r.frames ++ frs, err := err }
          if err.isSome then r' else graphsLoop r' (some (g, [st.take 3])) rest

/-- `graphs_stream_frames`. -/
def graphsStreamFrames (s : Stream) (data : SerData) : Run :=
  match prologue s data with
  | (s1, .error e) => { stream := s1, err := some e }
  | (s1, .ok ()) =>
    let r := graphsLoop { stream := s1 } none data.stmts
    if r.err.isSome then r else epilogue r true

/-- `stream_frames` single dispatch on the stream class (GraphStream is a TripleStream subclass
    but has its own registration). -/
def streamFrames (s : Stream) (data : SerData) : Run :=
  match s.cls with
  | .triple => triplesStreamFrames s data
  | .quad => quadsStreamFrames s data
  | .graph => graphsStreamFrames s data

/-- `guess_options`. -/
def guessOptions (sink : Sink) : SerOptions :=
  { logicalType := if sink.isTriplesSink then 1 else 2,
    params := { generalized := true, rdfStar := true } }

/-- `guess_stream`. -/
def guessStream (o : SerOptions) (sink : Sink) : Except PyErr Stream :=
  if o.logicalType % 10 != 3 && !sink.isTriplesSink then Stream.new .quad o else Stream.new .triple o

/-- `grouped_stream_to_frames` over a list of sinks. `if not stream` — a stream object is
    always truthy. Returns frames, the final stream (if one was created) and the error. -/
def groupedStreamToFrames (sinks : List Sink) (opts : Option SerOptions) :
    List Frame × Option Stream × Option PyErr :=
  let rec go (stream : Option Stream) (opts : Option SerOptions) (acc : List Frame) :
      List Sink → List Frame × Option Stream × Option PyErr
    | [] => (acc, stream, none)
    | sk :: rest =>
      let o := match opts with | some o => o | none => guessOptions sk
      let st : Except PyErr Stream := match stream with
        | some s => .ok s
        | none => guessStream o sk
      match st with
      | .error e => (acc, none, some e)
      | .ok s =>
        let r := streamFrames s (.sink sk)
        match r.err with
        | some e => (acc ++ r.frames, some r.stream, some e)
        | none => go (some r.stream) (some o) (acc ++ r.frames) rest
  go none opts [] sinks

/-- `flat_stream_to_frames`. -/
def flatStreamToFrames (stmts : List (List Term)) (opts : Option SerOptions) :
    List Frame × Option Stream × Option PyErr :=
  match stmts with
  | [] => ([], none, none)
  | first :: _ =>
    let sink : Sink := { store := [first] }
    let o := match opts with | some o => o | none => guessOptions sink
    match guessStream o sink with
    | .error e => ([], none, some e)
    | .ok s =>
      let r := streamFrames s (.gen stmts)
      (r.frames, some r.stream, r.err)

end Jelly

import JellyModel.Lookup
/-!
# Joint run of one writer table and one reader table over a key history (property C05)

For each key: `encode_entry_index` (the entry, if any, is ingested by the reader), then the
rule's `encode_*_term_index`, whose result the reader resolves with `decode_*_term_index`.
As in `TermEncoder`, the entry step is skipped for a disabled (size 0) table.
-/
namespace Jelly

inductive Rule
  | name | prefix | datatype
deriving DecidableEq, Repr, Inhabited

def Rule.encTerm : Rule → LookupEnc → String → Except PyErr (LookupEnc × Nat)
  | .name => LookupEnc.nameTermIndex
  | .prefix => LookupEnc.prefixTermIndex
  | .datatype => LookupEnc.datatypeTermIndex

def Rule.decTerm : Rule → LookupDec → Nat → LookupDec × Except PyErr String
  | .name => LookupDec.nameTerm
  | .prefix => LookupDec.prefixTerm
  | .datatype => LookupDec.datatypeTerm

structure JointOut where
  /-- id put on the wire in an entry row, if an entry was sent -/
  entry : Option Nat
  /-- index put on the wire in the term -/
  idx : Nat
  /-- what the reader resolved -/
  resolved : String
deriving DecidableEq, Repr, Inhabited

/-- Failure of a joint step, with what had been observed before it. -/
structure JointFail where
  entry : Option Nat
  idx : Option Nat
  err : PyErr
deriving DecidableEq, Repr, Inhabited

def jointStep (rule : Rule) (st : LookupEnc × LookupDec) (k : String) :
    Except JointFail ((LookupEnc × LookupDec) × JointOut) :=
  let (enc, dec) := st
  let entryStep : Except JointFail (LookupEnc × LookupDec × Option Nat) :=
    if enc.lookup.maxSize == 0 then .ok (enc, dec, none)
    else
      match enc.entryIndex k with
      | .error e => .error ⟨none, none, e⟩
      | .ok (enc', none) => .ok (enc', dec, none)
      | .ok (enc', some id) =>
        match dec.assignEntry id k with
        | .error e => .error ⟨some id, none, e⟩
        | .ok dec' => .ok (enc', dec', some id)
  match entryStep with
  | .error f => .error f
  | .ok (enc1, dec1, entry) =>
    match rule.encTerm enc1 k with
    | .error e => .error ⟨entry, none, e⟩
    | .ok (enc2, idx) =>
      match rule.decTerm dec1 idx with
      | (_, .error e) => .error ⟨entry, some idx, e⟩
      | (dec2, .ok s) => .ok ((enc2, dec2), ⟨entry, idx, s⟩)

/-- Run a whole history; stops at the first failure, keeping the outputs so far. -/
def jointRun (rule : Rule) : LookupEnc × LookupDec → List String → List JointOut →
    (LookupEnc × LookupDec) × List JointOut × Option JointFail
  | st, [], acc => (st, acc, none)
  | st, k :: ks, acc =>
    match jointStep rule st k with
    | .error f => (st, acc, some f)
    | .ok (st', o) => jointRun rule st' ks (acc ++ [o])

def jointInit (size : Nat) : Except PyErr (LookupEnc × LookupDec) :=
  match LookupDec.new size with
  | .error e => .error e
  | .ok d => .ok (LookupEnc.new size, d)

end Jelly

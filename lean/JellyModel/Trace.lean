import JellyModel.SerGeneric
/-!
# Generator pipelines as event traces (property C11, write side)

`pull i pending` : the serializer asks its input iterator for statement `i` (1-based) while
                   `pending` rows sit in the flow;
`yield rows`     : a frame of `rows` rows is handed to the caller.

The trace functions replay exactly the loops of `SerGeneric.lean`; `*_frames` lemmas in the proofs
show their projection onto frames equals the untraced functions.
-/
namespace Jelly

inductive TraceEv
  | pull (i : Nat) (pending : Nat)
  | yield (rows : Nat)
deriving DecidableEq, Repr, Inhabited

def yieldOf (f : Option Frame) : List TraceEv :=
  match f with
  | some fr => [.yield fr.rows.length]
  | none => []

/-- Trace of the statement loop of `triples_stream_frames` / `quads_stream_frames` fed by a
    generator. The last `pull` is the one answered with end-of-input. -/
def stmtLoopTrace (step : Stream → List Term → Res Stream (Option Frame)) (s : Stream) (i : Nat) :
    List (List Term) → List TraceEv × Stream × Option PyErr
  | [] => ([.pull i s.flow.rows.length], s, none)
  | t :: ts =>
    match step s t with
    | (s', .error e) => ([.pull i s.flow.rows.length], s', some e)
    | (s', .ok fr) =>
      let (tr, s'', e) := stmtLoopTrace step s' (i + 1) ts
      (.pull i s.flow.rows.length :: yieldOf fr ++ tr, s'', e)

def epilogueTrace (s : Stream) (fromDataset : Bool) : List TraceEv × Stream :=
  let r := epilogue { stream := s } fromDataset
  (r.frames.map fun f => .yield f.rows.length, r.stream)

/-- Full trace of `stream_frames(stream, generator)` for TripleStream / QuadStream. -/
def flatTrace (s : Stream) (stmts : List (List Term)) : List TraceEv × Stream × Option PyErr :=
  let s1 := s.enroll
  let step := if s.cls == .quad then Stream.quad .runtimeError else Stream.triple .runtimeError
  match stmtLoopTrace step s1 1 stmts with
  | (tr, s2, some e) => (tr, s2, some e)
  | (tr, s2, none) =>
    let (tr2, s3) := epilogueTrace s2 (s.cls == .quad)
    (tr ++ tr2, s3, none)

/-- Trace of the graph loop of `graphs_stream_frames` fed by a quad generator: `split_to_graphs`
    pulls a whole run of equal graph names (plus the statement that ends it) before the run is
    encoded. -/
def graphsLoopTrace (s : Stream) (i : Nat) (cur : Option (Term × List (List Term))) :
    List (List Term) → List TraceEv × Stream × Option PyErr
  | [] =>
    let p := TraceEv.pull i s.flow.rows.length
    match cur with
    | none => ([p], s, none)
    | some (g, ts) =>
      let (s', frs, err) := s.graph .runtimeError g ts
      (p :: frs.map (fun f => .yield f.rows.length), s', err)
  | st :: rest =>
    let p := TraceEv.pull i s.flow.rows.length
    match stmtGraph? st with
    | none => ([p], s, some .attributeError)
    | some g =>
      match cur with
      | none =>
        let (tr, s', e) := graphsLoopTrace s (i + 1) (some (g, [st.take 3])) rest
        (p :: tr, s', e)
      | some (cg, acc) =>
        if cg == g then
          let (tr, s', e) := graphsLoopTrace s (i + 1) (some (cg, acc ++ [st.take 3])) rest
          (p :: tr, s', e)
        else
          let (s1, frs, err) := s.graph .runtimeError cg acc
          let ys := frs.map (fun f => TraceEv.yield f.rows.length)
          match err with
          | some e => (p :: ys, s1, some e)
          | none =>
            let (tr, s', e) := graphsLoopTrace s1 (i + 1) (some (g, [st.take 3])) rest
            (p :: ys ++ tr, s', e)

def graphsTrace (s : Stream) (stmts : List (List Term)) : List TraceEv × Stream × Option PyErr :=
  let s1 := s.enroll
  match graphsLoopTrace s1 1 none stmts with
  | (tr, s2, some e) => (tr, s2, some e)
  | (tr, s2, none) =>
    let (tr2, s3) := epilogueTrace s2 true
    (tr ++ tr2, s3, none)

def streamTrace (s : Stream) (stmts : List (List Term)) : List TraceEv × Stream × Option PyErr :=
  match s.cls with
  | .graph => graphsTrace s stmts
  | _ => flatTrace s stmts

end Jelly

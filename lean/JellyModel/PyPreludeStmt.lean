import JellyModel.PyPrelude
import JellyModel.Encode
/-!
# Prelude for the TRANSLATED statement level of the writer (`harness/gen_translate_stmt.py`)

* `PStmt`: an `RdfTriple` / `RdfQuad` message being filled in — four optional wire terms (a slot left `none` is a repeated term).
* `pyNext exc`: `next(it)` on an iterator over a list; an exhausted iterator raises `exc`.
-/
namespace Jelly.Py

structure PStmt where
  s : Option WTerm := none
  p : Option WTerm := none
  o : Option WTerm := none
  g : Option WTerm := none
deriving Repr, Inhabited

def pyNext (exc : PyErr) (it : List α) : Except PyErr (α × List α) :=
  match it with
  | [] => .error exc
  | x :: r => .ok (x, r)

end Jelly.Py

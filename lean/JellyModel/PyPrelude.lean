import JellyModel.Lookup
/-!
# Python fragment prelude for the TRANSLATED lookup code

`harness/gen_translate.py` turns the classes of `pyjelly/serialize/lookup.py` and `pyjelly/parse/lookup.py`
into Lean definitions (`JellyGenerated/LookupGen.lean`) on every run, statement by statement, in the monad
below; `JellyProofs/Translated.lean` proves each generated method equal to the hand-written model's
function. This file is the meaning given to the Python constructs the translator accepts.

* `M σ α = ExceptT PyErr (StateM σ) α`: a method of an object whose attributes are `σ`; an exception
  leaves the attributes as they were when it was raised (Python semantics).
* `OrderedDict[str, int]` is an oldest-first association list, `set[str] | None` an optional list,
  `deque[str | None]` (fixed `maxlen`) a list of options.
* Python `int` is `Nat` INSIDE the fragment: a subtraction that would go negative raises `outOfModel`
  (`natSub`); the refinement theorems show which callers never reach that.
-/
namespace Jelly.Py

abbrev M (σ α : Type) := ExceptT PyErr (StateM σ) α

/-- run a method on attributes `s`: the outcome and the attributes afterwards (also after a raise) -/
def M.exec (m : M σ α) (s : σ) : Except PyErr α × σ := (ExceptT.run m).run s

class Truthy (α : Type) where
  truthy : α → Bool
instance : Truthy Nat := ⟨(· != 0)⟩
instance : Truthy String := ⟨(· != "")⟩
instance : Truthy Bool := ⟨id⟩
export Truthy (truthy)

/-- `a or b` as a value (`b` evaluated only when `a` is falsy — both operands are pure here) -/
def pyOr [Truthy α] (a b : α) : α := if truthy a then a else b

def liftE (e : Except PyErr α) : M σ α :=
  match e with
  | .ok a => pure a
  | .error err => throw err

/-- call a method of a sub-object held in an attribute (`self.lookup.insert(key)`) -/
def zoom (getF : σ → τ) (setF : σ → τ → σ) (m : M τ α) : M σ α :=
  ExceptT.mk (fun s => let r := M.exec m (getF s); (r.1, setF s r.2))

/-- a constructor: run `__init__` on blank attributes -/
def construct [Inhabited σ] (init : M σ Unit) : Except PyErr σ :=
  match M.exec init default with
  | (.ok _, s) => .ok s
  | (.error e, _) => .error e

def pyAssert (c : Bool) : M σ Unit := if c then pure () else throw .assertionError

/-! ### `OrderedDict[str, int]` -/
abbrev OD := List (String × Nat)
def odContains (d : OD) (k : String) : Bool := (d.find? (·.1 == k)).isSome
def odGet (d : OD) (k : String) : Except PyErr Nat :=
  match d.find? (·.1 == k) with
  | some e => .ok e.2
  | none => .error .keyError
def odMoveToEnd (d : OD) (k : String) : Except PyErr OD :=
  match d.find? (·.1 == k) with
  | none => .error .keyError
  | some e => .ok (d.erase e ++ [e])
/-- `popitem(last=False)` -/
def odPopFirst (d : OD) : Except PyErr ((String × Nat) × OD) :=
  match d with
  | [] => .error .keyError
  | e :: r => .ok (e, r)
/-- `d[k] = v`: in place when present, appended when new -/
def odSet (d : OD) (k : String) (v : Nat) : OD :=
  if odContains d k then d.map (fun e => if e.1 == k then (k, v) else e) else d ++ [(k, v)]
/-- `next(iter(d))` -/
def odFirstKey (d : OD) : Except PyErr String :=
  match d with
  | [] => .error .stopIteration
  | e :: _ => .ok e.1

/-! ### `set[str] | None` -/
def setAdd (s : Option (List String)) (k : String) : Except PyErr (Option (List String)) :=
  match s with
  | none => .error .attributeError
  | some ps => .ok (some (k :: ps))
def setContains (s : Option (List String)) (k : String) : Except PyErr Bool :=
  match s with
  | none => .error .typeError
  | some ps => .ok (ps.contains k)

/-- truthiness of a `set[str] | None`: tracked and not empty -/
def setTruthy (s : Option (List String)) : Bool :=
  match s with
  | some (_ :: _) => true
  | _ => false

/-! ### `deque[str | None]` with `maxlen` -/
def dqNew (xs : List (Option String)) (maxlen : Nat) : List (Option String) := xs.drop (xs.length - maxlen)
def dqGet (d : List (Option String)) (i : Nat) : Except PyErr (Option String) :=
  match d[i]? with
  | none => .error .indexError
  | some v => .ok v
def dqSet (d : List (Option String)) (i : Nat) (v : Option String) : Except PyErr (List (Option String)) :=
  if i < d.length then .ok (d.set i v) else .error .indexError

/-- `a - b` on Python ints, inside the fragment only when the result is not negative -/
def natSub (a b : Nat) : Except PyErr Nat := if b ≤ a then .ok (a - b) else .error .outOfModel

/-- a value known (by the preceding `is None` test) not to be `None` -/
def optGet (o : Option α) : Except PyErr α :=
  match o with
  | some a => .ok a
  | none => .error .outOfModel

/-! ### an `RdfLiteral` protobuf message being filled in (`langtag` and `datatype` are members of one oneof) -/
structure PLit where
  lex : String := ""
  langtag : Option String := none
  datatype : Option Nat := none
deriving Repr, DecidableEq, Inhabited

def PLit.setLang (l : PLit) (v : String) : PLit := { l with langtag := some v, datatype := none }
def PLit.setDt (l : PLit) (v : Nat) : PLit := { l with datatype := some v, langtag := none }
/-- which member of the oneof ends up set -/
def PLit.kind (l : PLit) : WLitKind :=
  match l.datatype with
  | some d => .dt d
  | none => match l.langtag with
    | some t => .lang t
    | none => .plain

/-- truthiness of a `str | None` / `int | None` -/
def optStrTruthy (o : Option String) : Bool := match o with | some s => s != "" | none => false
def optNatTruthy (o : Option Nat) : Bool := match o with | some n => n != 0 | none => false

end Jelly.Py

import JellyModel.Wire
/-!
# Protobuf wire format — parsing (`ParseFromString` as implemented by upb)

Any field order, unknown fields skipped, scalars last-wins, sub-messages merged, oneof members
replace each other, strings must be valid UTF-8, nesting limited to `depthLimit`. Every failure
is a `DecodeError`. All functions are total (explicit fuel), which is what C17 needs.
-/
namespace Jelly

inductive WireVal
  | varint (n : Nat)
  | fixed64
  | len (b : Bytes)
  | fixed32
deriving Repr, Inhabited

abbrev Field := Nat × WireVal

/-- Read a varint of at most 10 bytes; value, rest. -/
def readVarintAux : Nat → Nat → Nat → Bytes → Option (Nat × Bytes)
  | 0, _, _, _ => none
  | _ + 1, _, _, [] => none
  | fuel + 1, shift, acc, b :: rest =>
    let acc' := acc + (b.toNat % 128) * 2 ^ shift
    if b.toNat < 128 then some (acc', rest) else readVarintAux fuel (shift + 7) acc' rest

def readVarint (b : Bytes) : Option (Nat × Bytes) :=
  match readVarintAux 10 0 0 b with
  | some (v, rest) => some (v % 2 ^ 64, rest)
  | none => none

def u32 (n : Nat) : Nat := n % 2 ^ 32

/-- Skip a group (wire type 3) up to its matching end tag. `stack` holds the field numbers of the
    groups currently open (innermost first); an end tag must carry the number of the innermost one. -/
def skipGroup : Nat → List Nat → Bytes → Option Bytes
  | 0, _, _ => none
  | fuel + 1, stack, b =>
    match readVarint b with
    | none => none
    | some (t, rest) =>
      let wt := t % 8
      if t / 8 == 0 || t ≥ 2 ^ 32 then none
      else if wt == 0 then
        match readVarint rest with
        | some (_, r) => skipGroup fuel stack r
        | none => none
      else if wt == 1 then if rest.length < 8 then none else skipGroup fuel stack (rest.drop 8)
      else if wt == 2 then
        match readVarint rest with
        | some (n, r) => if r.length < n then none else skipGroup fuel stack (r.drop n)
        | none => none
      else if wt == 3 then skipGroup fuel (t / 8 :: stack) rest
      else if wt == 4 then
        match stack with
        | [] => none
        | top :: more =>
          if top != t / 8 then none
          else if more.isEmpty then some rest else skipGroup fuel more rest
      else if wt == 5 then if rest.length < 4 then none else skipGroup fuel stack (rest.drop 4)
      else none

/-- Split a message body into its top-level fields. -/
def splitFields : Nat → Bytes → Option (List Field)
  | 0, _ => none
  | _ + 1, [] => some []
  | fuel + 1, b =>
    match readVarint b with
    | none => none
    | some (t, rest) =>
      let fnum := t / 8
      let wt := t % 8
      if fnum == 0 || t ≥ 2 ^ 32 then none
      else if wt == 0 then
        match readVarint rest with
        | some (v, r) => (splitFields fuel r).map ((fnum, .varint v) :: ·)
        | none => none
      else if wt == 1 then
        if rest.length < 8 then none else (splitFields fuel (rest.drop 8)).map ((fnum, .fixed64) :: ·)
      else if wt == 2 then
        match readVarint rest with
        | some (n, r) =>
          if r.length < n then none
          else (splitFields fuel (r.drop n)).map ((fnum, .len (r.take n)) :: ·)
        | none => none
      else if wt == 3 then
        match skipGroup (rest.length + 1) [fnum] rest with
        | some r => if r.length < rest.length then splitFields fuel r else none
        | none => none
      else if wt == 5 then
        if rest.length < 4 then none else (splitFields fuel (rest.drop 4)).map ((fnum, .fixed32) :: ·)
      else none

def fieldsOf (b : Bytes) : Except PyErr (List Field) :=
  match splitFields (b.length + 1) b with
  | some fs => .ok fs
  | none => .error .decodeError

def decStr (b : Bytes) : Except PyErr String :=
  match String.fromUTF8? (ByteArray.mk b.toArray) with
  | some s => .ok s
  | none => .error .decodeError

def depthLimit : Nat := 100

/-! ### Leaf messages -/

def decIriInto (init : Nat × Nat) (b : Bytes) : Except PyErr (Nat × Nat) := do
  let fs ← fieldsOf b
  return fs.foldl (fun (acc : Nat × Nat) f =>
    match f with
    | (1, .varint v) => (u32 v, acc.2)
    | (2, .varint v) => (acc.1, u32 v)
    | _ => acc) init

def decLiteralInto (init : String × WLitKind) (b : Bytes) : Except PyErr (String × WLitKind) := do
  let fs ← fieldsOf b
  fs.foldlM (fun (acc : String × WLitKind) f =>
    match f with
    | (1, .len p) => do let s ← decStr p; pure (s, acc.2)
    | (2, .len p) => do let s ← decStr p; pure (acc.1, .lang s)
    | (3, .varint v) => pure (acc.1, .dt (u32 v))
    | _ => pure acc) init

def decEntryInto (init : Nat × String) (b : Bytes) : Except PyErr (Nat × String) := do
  let fs ← fieldsOf b
  fs.foldlM (fun (acc : Nat × String) f =>
    match f with
    | (1, .varint v) => pure (u32 v, acc.2)
    | (2, .len p) => do let s ← decStr p; pure (acc.1, s)
    | _ => pure acc) init

/-- Enum fields are int32 on the wire; values ≥ 2³¹ would be negative Python ints — outside
    what the model tracks, reported as `outOfModel` by the caller. -/
def decOptionsInto (init : Options) (b : Bytes) : Except PyErr Options := do
  let fs ← fieldsOf b
  fs.foldlM (fun (o : Options) f =>
    match f with
    | (1, .len p) => do let s ← decStr p; pure { o with streamName := s }
    | (2, .varint v) => pure { o with physicalType := u32 v }
    | (3, .varint v) => pure { o with generalized := v != 0 }
    | (4, .varint v) => pure { o with rdfStar := v != 0 }
    | (9, .varint v) => pure { o with maxNames := u32 v }
    | (10, .varint v) => pure { o with maxPrefixes := u32 v }
    | (11, .varint v) => pure { o with maxDatatypes := u32 v }
    | (14, .varint v) => pure { o with logicalType := u32 v }
    | (15, .varint v) => pure { o with version := u32 v }
    | _ => pure o) init

/-! ### Statements (recursive through quoted triples; `depth` is the remaining nesting budget) -/

structure StmtMsg where
  s : Option WTerm := none
  p : Option WTerm := none
  o : Option WTerm := none
  g : Option WTerm := none
deriving Repr, Inhabited

def iriInit : Option WTerm → Nat × Nat
  | some (.iri p n) => (p, n)
  | _ => (0, 0)

def litInit : Option WTerm → String × WLitKind
  | some (.literal l k) => (l, k)
  | _ => ("", .plain)

/-- Decode one s/p/o oneof member `k` (0 iri, 1 bnode, 2 literal, 3 triple) on top of `cur`.
    `rec` parses a nested `RdfTriple` body into an existing (s,p,o). -/
def decSpoMember (rec : StmtMsg → Bytes → Except PyErr StmtMsg) (cur : Option WTerm) (k : Nat)
    (v : WireVal) : Except PyErr (Option (Option WTerm)) :=
  match k, v with
  | 0, .len p => do let (a, b) ← decIriInto (iriInit cur) p; pure (some (some (.iri a b)))
  | 1, .len p => do let s ← decStr p; pure (some (some (.bnode s)))
  | 2, .len p => do let (l, kd) ← decLiteralInto (litInit cur) p; pure (some (some (.literal l kd)))
  | 3, .len p => do
      let init : StmtMsg := match cur with
        | some (.triple s p o) => { s, p, o }
        | _ => {}
      let m ← rec init p
      pure (some (some (.triple m.s m.p m.o)))
  | _, _ => pure none

/-- Body of `RdfTriple` (fields 1–12) or `RdfQuad` (fields 1–16, `quad = true`). -/
def decStmtInto : Nat → Bool → StmtMsg → Bytes → Except PyErr StmtMsg
  | 0, _, _, _ => .error .decodeError
  | depth + 1, quad, init, b => do
    let fs ← fieldsOf b
    fs.foldlM (fun (m : StmtMsg) f => do
      let (n, v) := f
      if 1 ≤ n && n ≤ 4 then
        match ← decSpoMember (decStmtInto depth false) m.s (n - 1) v with
        | some t => pure { m with s := t }
        | none => pure m
      else if 5 ≤ n && n ≤ 8 then
        match ← decSpoMember (decStmtInto depth false) m.p (n - 5) v with
        | some t => pure { m with p := t }
        | none => pure m
      else if 9 ≤ n && n ≤ 12 then
        match ← decSpoMember (decStmtInto depth false) m.o (n - 9) v with
        | some t => pure { m with o := t }
        | none => pure m
      else if quad then
        match n, v with
        | 13, .len p => do let (a, b) ← decIriInto (iriInit m.g) p; pure { m with g := some (.iri a b) }
        | 14, .len p => do let s ← decStr p; pure { m with g := some (.bnode s) }
        | 15, .len p => do let _ ← fieldsOf p; pure { m with g := some .defaultGraph }
        | 16, .len p => do let (l, k) ← decLiteralInto (litInit m.g) p; pure { m with g := some (.literal l k) }
        | _, _ => pure m
      else pure m) init

def decGraphStartInto (init : Option WTerm) (b : Bytes) : Except PyErr (Option WTerm) := do
  let fs ← fieldsOf b
  fs.foldlM (fun (g : Option WTerm) f =>
    match f with
    | (1, .len p) => do let (a, b) ← decIriInto (iriInit g) p; pure (some (.iri a b))
    | (2, .len p) => do let s ← decStr p; pure (some (.bnode s))
    | (3, .len p) => do let _ ← fieldsOf p; pure (some .defaultGraph)
    | (4, .len p) => do let (l, k) ← decLiteralInto (litInit g) p; pure (some (.literal l k))
    | _ => pure g) init

def decNamespaceInto (init : String × Option (Nat × Nat)) (b : Bytes) :
    Except PyErr (String × Option (Nat × Nat)) := do
  let fs ← fieldsOf b
  fs.foldlM (fun (acc : String × Option (Nat × Nat)) f =>
    match f with
    | (1, .len p) => do let s ← decStr p; pure (s, acc.2)
    | (2, .len p) => do let v ← decIriInto (acc.2.getD (0, 0)) p; pure (acc.1, some v)
    | _ => pure acc) init

/-- `RdfStreamRow`: nesting budget `depth` for the row body. -/
def decRow (depth : Nat) (b : Bytes) : Except PyErr Row := do
  let fs ← fieldsOf b
  fs.foldlM (fun (r : Row) f =>
    match f with
    | (1, .len p) => do
        let init := match r with | .options o => o | _ => {}
        pure (.options (← decOptionsInto init p))
    | (2, .len p) => do
        let init : StmtMsg := match r with | .triple s p o => { s, p, o } | _ => {}
        let m ← decStmtInto depth false init p
        pure (.triple m.s m.p m.o)
    | (3, .len p) => do
        let init : StmtMsg := match r with | .quad s p o g => { s, p, o, g } | _ => {}
        let m ← decStmtInto depth true init p
        pure (.quad m.s m.p m.o m.g)
    | (4, .len p) => do
        let init := match r with | .graphStart g => g | _ => none
        pure (.graphStart (← decGraphStartInto init p))
    | (5, .len p) => do let _ ← fieldsOf p; pure .graphEnd
    | (6, .len p) => do
        let init := match r with | .namespace n i => (n, i) | _ => ("", none)
        let (n, i) ← decNamespaceInto init p
        pure (.namespace n i)
    | (9, .len p) => do
        let init := match r with | .nameEntry i v => (i, v) | _ => (0, "")
        let (i, v) ← decEntryInto init p
        pure (.nameEntry i v)
    | (10, .len p) => do
        let init := match r with | .prefixEntry i v => (i, v) | _ => (0, "")
        let (i, v) ← decEntryInto init p
        pure (.prefixEntry i v)
    | (11, .len p) => do
        let init := match r with | .dtEntry i v => (i, v) | _ => (0, "")
        let (i, v) ← decEntryInto init p
        pure (.dtEntry i v)
    | _ => pure r) Row.empty

def decMetaEntry (b : Bytes) : Except PyErr (String × Bytes) := do
  let fs ← fieldsOf b
  fs.foldlM (fun (acc : String × Bytes) f =>
    match f with
    | (1, .len p) => do let s ← decStr p; pure (s, acc.2)
    | (2, .len p) => pure (acc.1, p)
    | _ => pure acc) ("", [])

def setMeta (m : List (String × Bytes)) (k : String) (v : Bytes) : List (String × Bytes) :=
  if m.any (·.1 == k) then m.map (fun e => if e.1 == k then (k, v) else e) else m ++ [(k, v)]

/-- `RdfStreamFrame.ParseFromString`: merge `b` into `init` (concatenated frames merge). -/
def decFrameInto (init : Frame) (b : Bytes) : Except PyErr Frame := do
  let fs ← fieldsOf b
  fs.foldlM (fun (fr : Frame) f =>
    match f with
    | (1, .len p) => do let r ← decRow (depthLimit - 1) p; pure { fr with rows := fr.rows ++ [r] }
    | (15, .len p) => do let (k, v) ← decMetaEntry p; pure { fr with metadata := setMeta fr.metadata k v }
    | _ => pure fr) init

def decFrame (b : Bytes) : Except PyErr Frame := decFrameInto {} b

end Jelly

import JellyModel.Encode
/-!
# `pyjelly/serialize/flows.py`, `pyjelly/serialize/streams.py`, `pyjelly/options.py` (writer part)
-/
namespace Jelly

def DEFAULT_FRAME_SIZE : Nat := 250
def MIN_NAME_LOOKUP_SIZE : Nat := 8

inductive FlowKind
  | manual | bounded | flatTriples | flatQuads | graphs | datasets
deriving DecidableEq, Repr, Inhabited

def FlowKind.classLogical : FlowKind → Nat
  | .manual => 0 | .bounded => 0 | .flatTriples => 1 | .flatQuads => 2 | .graphs => 3 | .datasets => 4

def FlowKind.isBounded : FlowKind → Bool
  | .bounded | .flatTriples | .flatQuads => true
  | _ => false

structure Flow where
  kind : FlowKind
  logicalType : Nat
  frameSize : Nat
  rows : List Row := []
deriving Repr, Inhabited

/-- Flow constructor: `logical_type or cls.logical_type`, `frame_size or DEFAULT_FRAME_SIZE`. -/
def Flow.mk' (kind : FlowKind) (logical : Nat) (frameSize : Nat) : Flow :=
  { kind, logicalType := if logical != 0 then logical else kind.classLogical,
    frameSize := if frameSize != 0 then frameSize else DEFAULT_FRAME_SIZE }

def Flow.toStreamFrame (f : Flow) : Flow × Option Frame :=
  if f.rows.isEmpty then (f, none) else ({ f with rows := [] }, some { rows := f.rows })

def Flow.frameFromBounds (f : Flow) : Flow × Option Frame :=
  if f.kind.isBounded && f.rows.length ≥ f.frameSize then f.toStreamFrame else (f, none)

def Flow.frameFromGraph (f : Flow) : Flow × Option Frame :=
  if f.kind == .graphs then f.toStreamFrame else (f, none)

def Flow.frameFromDataset (f : Flow) : Flow × Option Frame :=
  if f.kind == .datasets then f.toStreamFrame else (f, none)

/-- `flow_for_type` on a declared logical type (`% 10` picks the base type). -/
def flowForType (logical : Nat) : Except PyErr FlowKind :=
  match logical % 10 with
  | 1 => .ok .flatTriples
  | 2 => .ok .flatQuads
  | 3 => .ok .graphs
  | 4 => .ok .datasets
  | 0 => .error .notImplemented     -- UNSPECIFIED has a name but no flow
  | _ => .error .valueError         -- `LogicalStreamType.Name` of a value that is not declared

inductive StreamClass
  | triple | quad | graph
deriving DecidableEq, Repr, Inhabited

def StreamClass.physical : StreamClass → Nat
  | .triple => 1 | .quad => 2 | .graph => 3

def StreamClass.defaultFlow : StreamClass → FlowKind
  | .triple => .flatTriples | .quad => .flatQuads | .graph => .flatQuads

/-- `StreamParameters` after `__post_init__` (version is overwritten). -/
structure Params where
  generalized : Bool := false
  rdfStar : Bool := false
  delimited : Bool := true
  namespaceDeclarations : Bool := false
  streamName : String := ""
deriving DecidableEq, Repr, Inhabited

def Params.version (p : Params) : Nat := if p.namespaceDeclarations then 2 else 1

structure Preset where
  maxNames : Nat := 4000
  maxPrefixes : Nat := 150
  maxDatatypes : Nat := 32
deriving DecidableEq, Repr, Inhabited

/-- `LookupPreset.__post_init__`. -/
def Preset.valid (p : Preset) : Bool := p.maxNames ≥ MIN_NAME_LOOKUP_SIZE

/-- `validate_type_compatibility` on declared enum values. -/
def typesCompatible (physical logical : Nat) : Bool :=
  if physical == 0 || logical == 0 then true
  else (physical == 1) == (logical == 3 || logical == 13 || logical == 1)

def logicalFlat (logical : Nat) : Bool := logical == 1 || logical == 2

/-- An explicitly passed flow object: its class, the `logical_type=` and `frame_size=` it was built with. -/
structure FlowSpec where
  kind : FlowKind
  logical : Nat := 0
  frameSize : Nat := 0
deriving DecidableEq, Repr, Inhabited

structure SerOptions where
  flow : Option FlowSpec := none
  frameSize : Nat := DEFAULT_FRAME_SIZE
  logicalType : Nat := 0
  params : Params := {}
  preset : Preset := {}
deriving DecidableEq, Repr, Inhabited

structure Stream where
  cls : StreamClass
  opts : SerOptions
  enc : EncState
  flow : Flow
  enrolled : Bool := false
  logicalType : Nat
deriving Repr, Inhabited

/-- `Stream.infer_flow`. -/
def inferFlow (cls : StreamClass) (o : SerOptions) : Except PyErr Flow :=
  if o.params.delimited then
    match (if o.logicalType != 0 then flowForType o.logicalType else .ok cls.defaultFlow) with
    | .error e => .error e
    | .ok kind =>
      if kind.isBounded then .ok (Flow.mk' kind o.logicalType o.frameSize)
      else .ok (Flow.mk' kind o.logicalType 0)
  else .ok (Flow.mk' .manual o.logicalType 0)

/-- `Stream.__init__` with a `GenericSinkTermEncoder(lookup_preset=options.lookup_preset)`.
    The preset itself was validated when it was constructed (`LookupPreset.__post_init__`). -/
def Stream.new (cls : StreamClass) (o : SerOptions) : Except PyErr Stream :=
  if !o.preset.valid then .error .conformance
  else
    let flowE : Except PyErr Flow := match o.flow with
      | some fs => .ok (Flow.mk' fs.kind fs.logical fs.frameSize)
      | none => inferFlow cls o
    match flowE with
    | .error e => .error e
    | .ok flow =>
      if !typesCompatible cls.physical flow.logicalType then .error .jassertion
      else .ok {
        cls, opts := o, flow, logicalType := flow.logicalType,
        enc := { te := TermEnc.new o.preset.maxNames o.preset.maxPrefixes o.preset.maxDatatypes } }

def Stream.optionsRow (s : Stream) : Row :=
  .options {
    streamName := s.opts.params.streamName
    physicalType := s.cls.physical
    generalized := s.opts.params.generalized
    rdfStar := s.opts.params.rdfStar
    maxNames := s.opts.preset.maxNames
    maxPrefixes := s.opts.preset.maxPrefixes
    maxDatatypes := s.opts.preset.maxDatatypes
    logicalType := s.logicalType
    version := s.opts.params.version }

def Stream.pushRows (s : Stream) (rows : List Row) : Stream :=
  { s with flow := { s.flow with rows := s.flow.rows ++ rows } }

/-- `Stream.enroll`. -/
def Stream.enroll (s : Stream) : Stream :=
  if s.enrolled then s else { s.pushRows [s.optionsRow] with enrolled := true }

/-- `Stream.namespace_declaration`. -/
def Stream.namespaceDeclaration (s : Stream) (name iri : String) : Res Stream Unit :=
  match encodeNamespace s.enc.te name iri with
  | (te', .error e) => ({ s with enc := { s.enc with te := te' } }, .error e)
  | (te', .ok rows) => (({ s with enc := { s.enc with te := te' } } : Stream).pushRows rows, .ok ())

/-- `TripleStream.triple` (also `GraphStream.triple`). -/
def Stream.triple (exc : PyErr) (s : Stream) (terms : List Term) : Res Stream (Option Frame) :=
  match encodeTriple exc s.enc terms with
  | (enc', .error e) => ({ s with enc := enc' }, .error e)
  | (enc', .ok rows) =>
    let s1 := ({ s with enc := enc' } : Stream).pushRows rows
    let (flow', fr) := s1.flow.frameFromBounds
    ({ s1 with flow := flow' }, .ok fr)

/-- `QuadStream.quad`. -/
def Stream.quad (exc : PyErr) (s : Stream) (terms : List Term) : Res Stream (Option Frame) :=
  match encodeQuad exc s.enc terms with
  | (enc', .error e) => ({ s with enc := enc' }, .error e)
  | (enc', .ok rows) =>
    let s1 := ({ s with enc := enc' } : Stream).pushRows rows
    let (flow', fr) := s1.flow.frameFromBounds
    ({ s1 with flow := flow' }, .ok fr)

/-- The triple loop of `GraphStream.graph`: frames yielded so far are kept on failure. -/
def Stream.graphTriples (exc : PyErr) (s : Stream) : List (List Term) → List Frame → Stream × List Frame × Option PyErr
  | [], acc => (s, acc, none)
  | t :: ts, acc =>
    match s.triple exc t with
    | (s', .error e) => (s', acc, some e)
    | (s', .ok fr) => Stream.graphTriples exc s' ts (acc ++ fr.toList)

/-- `GraphStream.graph` consumed to exhaustion (frames yielded before an exception are kept). -/
def Stream.graph (exc : PyErr) (s : Stream) (graphId : Term) (triples : List (List Term)) :
    Stream × List Frame × Option PyErr :=
  match s.enc.te.beginRow with
  | .error e => (s, [], some e)
  | .ok te0 =>
  match te0.graph graphId with
  | (te', .error e) => ({ s with enc := { s.enc with te := te' } }, [], some e)
  | (te', .ok (rows, w)) =>
    let s1 := ({ s with enc := { s.enc with te := te'.endRow } } : Stream).pushRows (rows ++ [Row.graphStart (some w)])
    match Stream.graphTriples exc s1 triples [] with
    | (s2, frames, some e) => (s2, frames, some e)
    | (s2, frames, none) =>
      let s3 := s2.pushRows [Row.graphEnd]
      let (flow', fr) := s3.flow.frameFromBounds
      ({ s3 with flow := flow' }, frames ++ fr.toList, none)

end Jelly

import JellyModel.Encode
import JellyModel.Stream
/-!
# Well-formedness and sizing predicates used as hypotheses of the round-trip theorems

They are executable and exercised through the driver (`fits`), so the harness generators and the
theorems talk about the same inputs.
-/
namespace Jelly

/-- A term as it may appear in subject / predicate / object position of an input statement:
    a language tag, if present, is non-empty and excludes a datatype; a datatype, if present, is
    non-empty; no default-graph marker and no foreign object. -/
def Term.WF : Term → Bool
  | .iri _ => true
  | .bnode _ => true
  | .lit _ lang dt =>
    (match lang with | some l => l != "" && dt.isNone | none => true) &&
    (match dt with | some d => d != "" | none => true)
  | .quoted s p o => s.WF && p.WF && o.WF
  | .defaultGraph => false
  | .unsupported => false

/-- A term in graph position. -/
def Term.WFGraph : Term → Bool
  | .defaultGraph => true
  | .quoted _ _ _ => false
  | .unsupported => false
  | t => t.WF

/-- `xsd:string`-typed literal ≡ plain literal (the identification the properties make). -/
def Term.norm : Term → Term
  | .lit lex lang dt => .lit lex lang (match dt with | some d => if d == XSD_STRING then none else some d | none => none)
  | .quoted s p o => .quoted s.norm p.norm o.norm
  | t => t

/-- All IRIs of a term in encoding order (nested quoted triples included). -/
def Term.iris : Term → List String
  | .iri s => [s]
  | .quoted s p o => s.iris ++ p.iris ++ o.iris
  | _ => []

/-- Datatypes that need a datatype-table entry. -/
def Term.dts : Term → List String
  | .lit _ _ (some d) => if d != "" && d != XSD_STRING then [d] else []
  | .quoted s p o => s.dts ++ p.dts ++ o.dts
  | _ => []

/-- C01's sizing hypothesis for one statement: each enabled table can hold the distinct entries the
    statement needs; typed literals only with an enabled datatype table. -/
def stmtFits (p : Preset) (terms : List Term) : Bool :=
  let iris := terms.flatMap Term.iris
  let dts := terms.flatMap Term.dts
  (if p.maxPrefixes == 0 then iris.eraseDups.length ≤ p.maxNames
   else (iris.map fun i => (splitIri i).1).eraseDups.length ≤ p.maxPrefixes &&
        (iris.map fun i => (splitIri i).2).eraseDups.length ≤ p.maxNames) &&
  (dts.isEmpty || (p.maxDatatypes != 0 && dts.eraseDups.length ≤ p.maxDatatypes))

def tripleWF (t : List Term) : Bool :=
  match t with
  | [s, p, o] => s.WF && p.WF && o.WF
  | _ => false

def quadWF (t : List Term) : Bool :=
  match t with
  | [s, p, o, g] => s.WF && p.WF && o.WF && g.WFGraph
  | _ => false

end Jelly

import JellyModel.PyPreludeStmt
import JellyModel.Decode
/-!
# Prelude for the TRANSLATED statement level of the reader (`harness/gen_translate_dstmt.py`)

* `SlotName`: the four oneof names of a triple / quad message.
* `pstmtGet`: `WhichOneof(k)` + `getattr`: the wire term of slot `k`, if one is set.
* `repGet` / `repSet`: the dict `repeated_terms` keyed by the slot name (a missing key raises KeyError).
-/
namespace Jelly.Py

inductive SlotName
  | subject | predicate | object | graph
deriving Repr, DecidableEq, Inhabited

def pstmtGet (m : PStmt) : SlotName → Option WTerm
  | .subject => m.s
  | .predicate => m.p
  | .object => m.o
  | .graph => m.g

def repGet (r : Repeated) (k : SlotName) : Except PyErr Term :=
  match (match k with | .subject => r.s | .predicate => r.p | .object => r.o | .graph => r.g) with
  | some t => .ok t
  | none => .error .keyError

def repSet (r : Repeated) (k : SlotName) (t : Term) : Repeated :=
  match k with
  | .subject => { r with s := some t }
  | .predicate => { r with p := some t }
  | .object => { r with o := some t }
  | .graph => { r with g := some t }

end Jelly.Py

import JellyModel.Basic
/-!
# Protobuf wire format of the Jelly messages — serialization

Canonical proto3 encoding as produced by upb (`SerializeToString`): fields in field-number order,
default-valued scalars outside a oneof omitted, members of a oneof always present once assigned.
-/
namespace Jelly

/-- Base-128 varint. -/
def varint (n : Nat) : Bytes :=
  if h : n < 128 then [n.toUInt8] else (n % 128 + 128).toUInt8 :: varint (n / 128)
termination_by n
decreasing_by omega

def tag (field wireType : Nat) : Bytes := varint (field * 8 + wireType)

def lenDelim (field : Nat) (payload : Bytes) : Bytes :=
  tag field 2 ++ varint payload.length ++ payload

def utf8 (s : String) : Bytes := s.toUTF8.toList

/-- A scalar outside a oneof: omitted when it has its default value. -/
def uintField (field n : Nat) : Bytes := if n == 0 then [] else tag field 0 ++ varint n
def boolField (field : Nat) (b : Bool) : Bytes := if b then tag field 0 ++ [1] else []
def strField (field : Nat) (s : String) : Bytes := if s == "" then [] else lenDelim field (utf8 s)

def encIri (p n : Nat) : Bytes := uintField 1 p ++ uintField 2 n

def encLiteral (lex : String) : WLitKind → Bytes
  | .plain => strField 1 lex
  | .lang l => strField 1 lex ++ lenDelim 2 (utf8 l)
  | .dt id => strField 1 lex ++ tag 3 0 ++ varint id

mutual
  /-- A term at the oneof whose first member has field number `base` (s:1, p:5, o:9). -/
  def encSpoTerm (base : Nat) : WTerm → Bytes
    | .iri p n => lenDelim base (encIri p n)
    | .bnode s => lenDelim (base + 1) (utf8 s)
    | .literal lex k => lenDelim (base + 2) (encLiteral lex k)
    | .triple s p o => lenDelim (base + 3) (encOptSpo 1 s ++ encOptSpo 5 p ++ encOptSpo 9 o)
    | .defaultGraph => []
  def encOptSpo (base : Nat) : Option WTerm → Bytes
    | none => []
    | some t => encSpoTerm base t
end

/-- Body of an `RdfTriple` message. -/
def encTripleBody (s p o : Option WTerm) : Bytes := encOptSpo 1 s ++ encOptSpo 5 p ++ encOptSpo 9 o

/-- A graph term at the `graph` oneof starting at field `base` (quad: 13, graph_start: 1). -/
def encGraphTerm (base : Nat) : WTerm → Bytes
  | .iri p n => lenDelim base (encIri p n)
  | .bnode s => lenDelim (base + 1) (utf8 s)
  | .defaultGraph => lenDelim (base + 2) []
  | .literal lex k => lenDelim (base + 3) (encLiteral lex k)
  | .triple _ _ _ => []

def encOptions (o : Options) : Bytes :=
  strField 1 o.streamName ++ uintField 2 o.physicalType ++ boolField 3 o.generalized ++
  boolField 4 o.rdfStar ++ uintField 9 o.maxNames ++ uintField 10 o.maxPrefixes ++
  uintField 11 o.maxDatatypes ++ uintField 14 o.logicalType ++ uintField 15 o.version

def encEntry (id : Nat) (v : String) : Bytes := uintField 1 id ++ strField 2 v

def encRow : Row → Bytes
  | .options o => lenDelim 1 (encOptions o)
  | .triple s p o => lenDelim 2 (encTripleBody s p o)
  | .quad s p o g =>
    lenDelim 3 (encTripleBody s p o ++ (match g with | some t => encGraphTerm 13 t | none => []))
  | .graphStart g => lenDelim 4 (match g with | some t => encGraphTerm 1 t | none => [])
  | .graphEnd => lenDelim 5 []
  | .namespace name iri =>
    lenDelim 6 (strField 1 name ++ (match iri with | some (p, n) => lenDelim 2 (encIri p n) | none => []))
  | .nameEntry id v => lenDelim 9 (encEntry id v)
  | .prefixEntry id v => lenDelim 10 (encEntry id v)
  | .dtEntry id v => lenDelim 11 (encEntry id v)
  | .empty => []

def encMetaEntry (k : String) (v : Bytes) : Bytes :=
  lenDelim 15 (lenDelim 1 (utf8 k) ++ lenDelim 2 v)

/-- `RdfStreamFrame.SerializeToString()`. -/
def encFrame (f : Frame) : Bytes :=
  (f.rows.flatMap fun r => lenDelim 1 (encRow r)) ++ (f.metadata.flatMap fun (k, v) => encMetaEntry k v)

/-- `write_single`. -/
def writeSingle (f : Frame) : Bytes := encFrame f

/-- `write_delimited` = `serialize_length_prefixed`. -/
def writeDelimited (f : Frame) : Bytes :=
  let b := encFrame f
  varint b.length ++ b

end Jelly

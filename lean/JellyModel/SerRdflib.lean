import JellyModel.SerGeneric
/-!
# `pyjelly/integrations/rdflib/serialize.py`

The rdflib term encoder maps `URIRef`/`BNode`/`Literal`/default-graph id to the same wire terms as
the generic one (for RDF 1.1 data: no quoted triples, no literal graph names — those raise
`NotImplementedError` in rdflib and are outside this model). What differs are the loops: a
`TripleStream` fed with a `Dataset` walks all its graphs and offers a frame after each; a
`GraphStream` is fed graph by graph. The harness observes rdflib's iteration order and passes the
data in that order, so the model does not depend on rdflib's hashing.
-/
namespace Jelly

/-- `namespace_declarations(store, stream)` over `store.namespaces()` (prefix, URIRef). -/
def nsDeclarationsR (s : Stream) : List (String × String) → Res Stream Unit
  | [] => (s, .ok ())
  | (p, i) :: rest =>
    match s.namespaceDeclaration p i with
    | (s', .error e) => (s', .error e)
    | (s', .ok ()) => nsDeclarationsR s' rest

/-- Common prologue: enroll, then declarations iff `data` is a Graph/Dataset (`isGraph`) and the
    option is on. -/
def prologueR (s : Stream) (isGraph : Bool) (ns : List (String × String)) : Res Stream Unit :=
  let s1 := s.enroll
  if isGraph && s1.opts.params.namespaceDeclarations then nsDeclarationsR s1 ns else (s1, .ok ())

/-- The graph loop of `triples_stream_frames`: all triples of a graph, then `frame_from_graph`. -/
def triplesGraphsLoop (r : Run) : List (List (List Term)) → Run
  | [] => r
  | g :: gs =>
    let r1 := stmtLoop (Stream.triple .runtimeError) r g
    if r1.err.isSome then r1
    else
      let (f, fr) := r1.stream.flow.frameFromGraph
      triplesGraphsLoop (r1.push { r1.stream with flow := f } fr) gs

/-- `triples_stream_frames(stream, Graph | Dataset | generator)`; `graphs` = the graphs walked
    (one for a Graph or a generator). -/
def triplesStreamFramesR (s : Stream) (isGraph : Bool) (ns : List (String × String))
    (graphs : List (List (List Term))) : Run :=
  match prologueR s isGraph ns with
  | (s1, .error e) => { stream := s1, err := some e }
  | (s1, .ok ()) =>
    let r := triplesGraphsLoop { stream := s1 } graphs
    if r.err.isSome then r
    else
      let (f2, fr2) := r.stream.flow.toStreamFrame
      r.push { r.stream with flow := f2 } fr2

/-- `quads_stream_frames(stream, Dataset | generator)`. -/
def quadsStreamFramesR (s : Stream) (isGraph : Bool) (ns : List (String × String))
    (quads : List (List Term)) : Run :=
  match prologueR s isGraph ns with
  | (s1, .error e) => { stream := s1, err := some e }
  | (s1, .ok ()) =>
    let r := stmtLoop (Stream.quad .runtimeError) { stream := s1 } quads
    if r.err.isSome then r else epilogue r true

def graphsLoopR (r : Run) : List (Term × List (List Term)) → Run
  | [] => r
  | (g, ts) :: rest =>
    let (s', frs, err) := r.stream.graph .runtimeError g ts
    let r' : Run := { stream := s', frames := r.frames ++ frs, err := err }
    if err.isSome then r' else graphsLoopR r' rest

/-- `graphs_stream_frames(stream, Dataset | generator)`: `graphs` as enumerated by `ds.graphs()`. -/
def graphsStreamFramesR (s : Stream) (isGraph : Bool) (ns : List (String × String))
    (graphs : List (Term × List (List Term))) : Run :=
  match prologueR s isGraph ns with
  | (s1, .error e) => { stream := s1, err := some e }
  | (s1, .ok ()) =>
    let r := graphsLoopR { stream := s1 } graphs
    if r.err.isSome then r else epilogue r true

end Jelly

import JellyModel.PyPrelude
import JellyModel.Decode
import JellyGenerated.LookupGen
/-!
# GENERATED — do not edit. Translated from pyjelly/parse/decode.py (Decoder.ingest_*_entry / decode_iri / decode_literal) by
harness/gen_translate_dec.py on every check run; `JellyProofs/TranslatedDec.lean` proves them equal to the model's
`LookupDec.assignEntry` on the table concerned, `DecState.decodeIri` and `DecState.decodeLiteral`.
-/
set_option linter.unusedVariables false
namespace Jelly.Gen
open Jelly Jelly.Py

/-- `Decoder.ingest_prefix_entry` (pyjelly/parse/decode.py:269) -/
def Decoder.ingest_prefix_entry (entry_id : Nat) (entry_value : String) : M Jelly.DecState Unit := do
  zoom (·.prefixes) (fun s v => { s with prefixes := v }) (LookupDecoder.assign_entry entry_id entry_value)

/-- `Decoder.ingest_name_entry` (pyjelly/parse/decode.py:279) -/
def Decoder.ingest_name_entry (entry_id : Nat) (entry_value : String) : M Jelly.DecState Unit := do
  zoom (·.names) (fun s v => { s with names := v }) (LookupDecoder.assign_entry entry_id entry_value)

/-- `Decoder.ingest_datatype_entry` (pyjelly/parse/decode.py:289) -/
def Decoder.ingest_datatype_entry (entry_id : Nat) (entry_value : String) : M Jelly.DecState Unit := do
  zoom (·.datatypes) (fun s v => { s with datatypes := v }) (LookupDecoder.assign_entry entry_id entry_value)

/-- `Decoder.decode_iri` (pyjelly/parse/decode.py:321) -/
def Decoder.decode_iri (iri_prefix_id : Nat) (iri_name_id : Nat) : M Jelly.DecState String := do
  let mut prefix_ : String := default
  let mut name : String := (← zoom (·.names) (fun s v => { s with names := v }) (LookupDecoder.decode_name_term_index iri_name_id))
  prefix_ := (← zoom (·.prefixes) (fun s v => { s with prefixes := v }) (LookupDecoder.decode_prefix_term_index iri_prefix_id))
  return (prefix_ ++ name)

/-- `Decoder.decode_literal` (pyjelly/parse/decode.py:352) -/
def Decoder.decode_literal (literal : PLit) : M Jelly.DecState (String × Option String × Option String) := do
  let mut language : Option String := none
  let mut datatype : Option String := none
  if (optStrTruthy literal.langtag) then
    language := (some (← liftE (optGet literal.langtag)))
  else
    if (literal.datatype).isSome then
      datatype := (← zoom (·.datatypes) (fun s v => { s with datatypes := v }) (LookupDecoder.decode_datatype_term_index (← liftE (optGet literal.datatype))))
  return (literal.lex, language, datatype)

/-- `Decoder.validate_stream_options` (pyjelly/parse/decode.py:259) -/
def Decoder.validate_stream_options (options : Options) : M Jelly.DecState Unit := do
  pyAssert ((← get).opts.physical == options.physicalType)
  pyAssert ((← get).opts.logical == options.logicalType)
  pyAssert ((← get).opts.streamName == options.streamName)
  pyAssert (decide ((← get).opts.version ≥ options.version))
  pyAssert ((← get).opts.maxPrefixes == options.maxPrefixes)
  pyAssert ((← get).opts.maxDatatypes == options.maxDatatypes)
  pyAssert ((← get).opts.maxNames == options.maxNames)

end Jelly.Gen

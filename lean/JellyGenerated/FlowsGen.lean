import JellyModel.PyPrelude
import JellyModel.Stream
/-!
# GENERATED — do not edit. Translated from pyjelly/serialize/flows.py by harness/gen_translate_flows.py on every
check run; `JellyProofs/TranslatedFlows.lean` proves each definition equal to the model's `Flow` functions.
-/
set_option linter.unusedVariables false
namespace Jelly.Gen
open Jelly Jelly.Py

def DEFAULT_FRAME_SIZE : Nat := 250

/-- `ManualFrameFlow.logical_type` (class attribute, resolved along the MRO ManualFrameFlow -> FrameFlow) -/
def ManualFrameFlow.class_logical_type : Nat := 0

/-- `ManualFrameFlow.__init__` = `FrameFlow.__init__` (pyjelly/serialize/flows.py:27) -/
def ManualFrameFlow.__init__ (logical_type : Nat) : M Jelly.Flow Unit := do
  modify fun s => { s with rows := [] }
  let t1__ := (pyOr logical_type 0)
  modify fun s => { s with logicalType := t1__ }

/-- `ManualFrameFlow.to_stream_frame` = `FrameFlow.to_stream_frame` (pyjelly/serialize/flows.py:56) -/
def ManualFrameFlow.to_stream_frame : M Jelly.Flow (Option Frame) := do
  if (!((!(← get).rows.isEmpty))) then
    return none
  let mut frame := ({ rows := (← get).rows } : Frame)
  modify fun s => { s with rows := [] }
  return (some frame)

/-- `ManualFrameFlow.frame_from_graph` = `FrameFlow.frame_from_graph` (pyjelly/serialize/flows.py:37) -/
def ManualFrameFlow.frame_from_graph : M Jelly.Flow (Option Frame) := do
  return none

/-- `ManualFrameFlow.frame_from_dataset` = `FrameFlow.frame_from_dataset` (pyjelly/serialize/flows.py:45) -/
def ManualFrameFlow.frame_from_dataset : M Jelly.Flow (Option Frame) := do
  return none

/-- `ManualFrameFlow.frame_from_bounds` = `FrameFlow.frame_from_bounds` (pyjelly/serialize/flows.py:53) -/
def ManualFrameFlow.frame_from_bounds : M Jelly.Flow (Option Frame) := do
  return none

/-- `BoundedFrameFlow.logical_type` (class attribute, resolved along the MRO BoundedFrameFlow -> FrameFlow) -/
def BoundedFrameFlow.class_logical_type : Nat := 0

/-- `FrameFlow.__init__` as reached through `super()` from an instance of `BoundedFrameFlow` (pyjelly/serialize/flows.py:27) -/
def BoundedFrameFlow.__init____FrameFlow (logical_type : Nat) : M Jelly.Flow Unit := do
  modify fun s => { s with rows := [] }
  let t1__ := (pyOr logical_type 0)
  modify fun s => { s with logicalType := t1__ }

/-- `BoundedFrameFlow.__init__` = `BoundedFrameFlow.__init__` (pyjelly/serialize/flows.py:100) -/
def BoundedFrameFlow.__init__ (logical_type : Nat) (frame_size : Nat) : M Jelly.Flow Unit := do
  BoundedFrameFlow.__init____FrameFlow logical_type
  let t1__ := (pyOr frame_size 250)
  modify fun s => { s with frameSize := t1__ }

/-- `BoundedFrameFlow.to_stream_frame` = `FrameFlow.to_stream_frame` (pyjelly/serialize/flows.py:56) -/
def BoundedFrameFlow.to_stream_frame : M Jelly.Flow (Option Frame) := do
  if (!((!(← get).rows.isEmpty))) then
    return none
  let mut frame := ({ rows := (← get).rows } : Frame)
  modify fun s => { s with rows := [] }
  return (some frame)

/-- `BoundedFrameFlow.frame_from_graph` = `FrameFlow.frame_from_graph` (pyjelly/serialize/flows.py:37) -/
def BoundedFrameFlow.frame_from_graph : M Jelly.Flow (Option Frame) := do
  return none

/-- `BoundedFrameFlow.frame_from_dataset` = `FrameFlow.frame_from_dataset` (pyjelly/serialize/flows.py:45) -/
def BoundedFrameFlow.frame_from_dataset : M Jelly.Flow (Option Frame) := do
  return none

/-- `BoundedFrameFlow.frame_from_bounds` = `BoundedFrameFlow.frame_from_bounds` (pyjelly/serialize/flows.py:111) -/
def BoundedFrameFlow.frame_from_bounds : M Jelly.Flow (Option Frame) := do
  if (decide ((← get).rows.length ≥ (← get).frameSize)) then
    return (← BoundedFrameFlow.to_stream_frame)
  return none

/-- `FlatTriplesFrameFlow.logical_type` (class attribute, resolved along the MRO FlatTriplesFrameFlow -> BoundedFrameFlow -> FrameFlow) -/
def FlatTriplesFrameFlow.class_logical_type : Nat := 1

/-- `FrameFlow.__init__` as reached through `super()` from an instance of `FlatTriplesFrameFlow` (pyjelly/serialize/flows.py:27) -/
def FlatTriplesFrameFlow.__init____FrameFlow (logical_type : Nat) : M Jelly.Flow Unit := do
  modify fun s => { s with rows := [] }
  let t1__ := (pyOr logical_type 1)
  modify fun s => { s with logicalType := t1__ }

/-- `FlatTriplesFrameFlow.__init__` = `BoundedFrameFlow.__init__` (pyjelly/serialize/flows.py:100) -/
def FlatTriplesFrameFlow.__init__ (logical_type : Nat) (frame_size : Nat) : M Jelly.Flow Unit := do
  FlatTriplesFrameFlow.__init____FrameFlow logical_type
  let t1__ := (pyOr frame_size 250)
  modify fun s => { s with frameSize := t1__ }

/-- `FlatTriplesFrameFlow.to_stream_frame` = `FrameFlow.to_stream_frame` (pyjelly/serialize/flows.py:56) -/
def FlatTriplesFrameFlow.to_stream_frame : M Jelly.Flow (Option Frame) := do
  if (!((!(← get).rows.isEmpty))) then
    return none
  let mut frame := ({ rows := (← get).rows } : Frame)
  modify fun s => { s with rows := [] }
  return (some frame)

/-- `FlatTriplesFrameFlow.frame_from_graph` = `FrameFlow.frame_from_graph` (pyjelly/serialize/flows.py:37) -/
def FlatTriplesFrameFlow.frame_from_graph : M Jelly.Flow (Option Frame) := do
  return none

/-- `FlatTriplesFrameFlow.frame_from_dataset` = `FrameFlow.frame_from_dataset` (pyjelly/serialize/flows.py:45) -/
def FlatTriplesFrameFlow.frame_from_dataset : M Jelly.Flow (Option Frame) := do
  return none

/-- `FlatTriplesFrameFlow.frame_from_bounds` = `BoundedFrameFlow.frame_from_bounds` (pyjelly/serialize/flows.py:111) -/
def FlatTriplesFrameFlow.frame_from_bounds : M Jelly.Flow (Option Frame) := do
  if (decide ((← get).rows.length ≥ (← get).frameSize)) then
    return (← FlatTriplesFrameFlow.to_stream_frame)
  return none

/-- `FlatQuadsFrameFlow.logical_type` (class attribute, resolved along the MRO FlatQuadsFrameFlow -> BoundedFrameFlow -> FrameFlow) -/
def FlatQuadsFrameFlow.class_logical_type : Nat := 2

/-- `FrameFlow.__init__` as reached through `super()` from an instance of `FlatQuadsFrameFlow` (pyjelly/serialize/flows.py:27) -/
def FlatQuadsFrameFlow.__init____FrameFlow (logical_type : Nat) : M Jelly.Flow Unit := do
  modify fun s => { s with rows := [] }
  let t1__ := (pyOr logical_type 2)
  modify fun s => { s with logicalType := t1__ }

/-- `FlatQuadsFrameFlow.__init__` = `BoundedFrameFlow.__init__` (pyjelly/serialize/flows.py:100) -/
def FlatQuadsFrameFlow.__init__ (logical_type : Nat) (frame_size : Nat) : M Jelly.Flow Unit := do
  FlatQuadsFrameFlow.__init____FrameFlow logical_type
  let t1__ := (pyOr frame_size 250)
  modify fun s => { s with frameSize := t1__ }

/-- `FlatQuadsFrameFlow.to_stream_frame` = `FrameFlow.to_stream_frame` (pyjelly/serialize/flows.py:56) -/
def FlatQuadsFrameFlow.to_stream_frame : M Jelly.Flow (Option Frame) := do
  if (!((!(← get).rows.isEmpty))) then
    return none
  let mut frame := ({ rows := (← get).rows } : Frame)
  modify fun s => { s with rows := [] }
  return (some frame)

/-- `FlatQuadsFrameFlow.frame_from_graph` = `FrameFlow.frame_from_graph` (pyjelly/serialize/flows.py:37) -/
def FlatQuadsFrameFlow.frame_from_graph : M Jelly.Flow (Option Frame) := do
  return none

/-- `FlatQuadsFrameFlow.frame_from_dataset` = `FrameFlow.frame_from_dataset` (pyjelly/serialize/flows.py:45) -/
def FlatQuadsFrameFlow.frame_from_dataset : M Jelly.Flow (Option Frame) := do
  return none

/-- `FlatQuadsFrameFlow.frame_from_bounds` = `BoundedFrameFlow.frame_from_bounds` (pyjelly/serialize/flows.py:111) -/
def FlatQuadsFrameFlow.frame_from_bounds : M Jelly.Flow (Option Frame) := do
  if (decide ((← get).rows.length ≥ (← get).frameSize)) then
    return (← FlatQuadsFrameFlow.to_stream_frame)
  return none

/-- `GraphsFrameFlow.logical_type` (class attribute, resolved along the MRO GraphsFrameFlow -> FrameFlow) -/
def GraphsFrameFlow.class_logical_type : Nat := 3

/-- `GraphsFrameFlow.__init__` = `FrameFlow.__init__` (pyjelly/serialize/flows.py:27) -/
def GraphsFrameFlow.__init__ (logical_type : Nat) : M Jelly.Flow Unit := do
  modify fun s => { s with rows := [] }
  let t1__ := (pyOr logical_type 3)
  modify fun s => { s with logicalType := t1__ }

/-- `GraphsFrameFlow.to_stream_frame` = `FrameFlow.to_stream_frame` (pyjelly/serialize/flows.py:56) -/
def GraphsFrameFlow.to_stream_frame : M Jelly.Flow (Option Frame) := do
  if (!((!(← get).rows.isEmpty))) then
    return none
  let mut frame := ({ rows := (← get).rows } : Frame)
  modify fun s => { s with rows := [] }
  return (some frame)

/-- `GraphsFrameFlow.frame_from_graph` = `GraphsFrameFlow.frame_from_graph` (pyjelly/serialize/flows.py:135) -/
def GraphsFrameFlow.frame_from_graph : M Jelly.Flow (Option Frame) := do
  return (← GraphsFrameFlow.to_stream_frame)

/-- `GraphsFrameFlow.frame_from_dataset` = `FrameFlow.frame_from_dataset` (pyjelly/serialize/flows.py:45) -/
def GraphsFrameFlow.frame_from_dataset : M Jelly.Flow (Option Frame) := do
  return none

/-- `GraphsFrameFlow.frame_from_bounds` = `FrameFlow.frame_from_bounds` (pyjelly/serialize/flows.py:53) -/
def GraphsFrameFlow.frame_from_bounds : M Jelly.Flow (Option Frame) := do
  return none

/-- `DatasetsFrameFlow.logical_type` (class attribute, resolved along the MRO DatasetsFrameFlow -> FrameFlow) -/
def DatasetsFrameFlow.class_logical_type : Nat := 4

/-- `DatasetsFrameFlow.__init__` = `FrameFlow.__init__` (pyjelly/serialize/flows.py:27) -/
def DatasetsFrameFlow.__init__ (logical_type : Nat) : M Jelly.Flow Unit := do
  modify fun s => { s with rows := [] }
  let t1__ := (pyOr logical_type 4)
  modify fun s => { s with logicalType := t1__ }

/-- `DatasetsFrameFlow.to_stream_frame` = `FrameFlow.to_stream_frame` (pyjelly/serialize/flows.py:56) -/
def DatasetsFrameFlow.to_stream_frame : M Jelly.Flow (Option Frame) := do
  if (!((!(← get).rows.isEmpty))) then
    return none
  let mut frame := ({ rows := (← get).rows } : Frame)
  modify fun s => { s with rows := [] }
  return (some frame)

/-- `DatasetsFrameFlow.frame_from_graph` = `FrameFlow.frame_from_graph` (pyjelly/serialize/flows.py:37) -/
def DatasetsFrameFlow.frame_from_graph : M Jelly.Flow (Option Frame) := do
  return none

/-- `DatasetsFrameFlow.frame_from_dataset` = `DatasetsFrameFlow.frame_from_dataset` (pyjelly/serialize/flows.py:150) -/
def DatasetsFrameFlow.frame_from_dataset : M Jelly.Flow (Option Frame) := do
  return (← DatasetsFrameFlow.to_stream_frame)

/-- `DatasetsFrameFlow.frame_from_bounds` = `FrameFlow.frame_from_bounds` (pyjelly/serialize/flows.py:53) -/
def DatasetsFrameFlow.frame_from_bounds : M Jelly.Flow (Option Frame) := do
  return none

end Jelly.Gen

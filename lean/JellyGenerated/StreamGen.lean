import JellyModel.PyPreludeStream
import JellyGenerated.StmtGen
/-!
# GENERATED — do not edit. Translated from pyjelly/serialize/streams.py (TripleStream.triple / QuadStream.quad / Stream.enroll) by
harness/gen_translate_stream.py on every check run; `JellyProofs/TranslatedStream.lean` proves them equal to the model's
`Stream.triple` / `Stream.quad` / `Stream.enroll`.
-/
set_option linter.unusedVariables false
namespace Jelly.Gen
open Jelly Jelly.Py

/-- `TripleStream.triple` (pyjelly/serialize/streams.py:190) -/
def TripleStream.triple (enc encG : Term → M TermEnc (List Row × WTerm)) (exc : PyErr) (frame_from_bounds : M Flow (Option Frame)) (terms : List Term) : M Stream (Option Frame) := do
  let new_rows ← zoom (·.enc) (fun s v => { s with enc := v }) (encode_triple enc encG exc terms)
  zoom (·.flow) (fun s v => { s with flow := v }) (flowExtend new_rows)
  return (← zoom (·.flow) (fun s v => { s with flow := v }) frame_from_bounds)

/-- `QuadStream.quad` (pyjelly/serialize/streams.py:219) -/
def QuadStream.quad (enc encG : Term → M TermEnc (List Row × WTerm)) (exc : PyErr) (frame_from_bounds : M Flow (Option Frame)) (terms : List Term) : M Stream (Option Frame) := do
  let new_rows ← zoom (·.enc) (fun s v => { s with enc := v }) (encode_quad enc encG exc terms)
  zoom (·.flow) (fun s v => { s with flow := v }) (flowExtend new_rows)
  return (← zoom (·.flow) (fun s v => { s with flow := v }) frame_from_bounds)

/-- `Stream.stream_options` / `Stream.enroll` (pyjelly/serialize/streams.py:95) -/
def Stream.stream_options (optsRow : Row) : M Stream Unit := do
  zoom (·.flow) (fun s v => { s with flow := v }) (flowExtend [optsRow])

def Stream.enroll (optsRow : Row) : M Stream Unit := do
  if (!(← get).enrolled) then
    Stream.stream_options optsRow
    modify fun s => { s with enrolled := true }

/-- `GraphStream.graph` (pyjelly/serialize/streams.py:244) -/
def GraphStream.graph__loop (enc encG : Term → M TermEnc (List Row × WTerm)) (exc : PyErr) (frame_from_bounds : M Flow (Option Frame)) : List (List Term) → M (Stream × List Frame) Unit
  | [] => pure ()
  | triple :: rest__ => do
    let t8__ ← onStream (TripleStream.triple enc encG exc frame_from_bounds triple)
    if t8__.isSome then
      yieldFrame (← liftE (optGet t8__))
    GraphStream.graph__loop enc encG exc frame_from_bounds rest__

def GraphStream.graph (enc encG : Term → M TermEnc (List Row × WTerm)) (exc : PyErr) (frame_from_bounds : M Flow (Option Frame)) (graph_id : Term) (graph : List (List Term)) : M (Stream × List Frame) Unit := do
  let mut graph_start : PStmt := {}
  onStream (zoom (·.enc.te) (fun s v => { s with enc := { s.enc with te := v } }) TermEncoder.start_row)
  let t1__ ← onStream (zoom (·.enc.te) (fun s v => { s with enc := { s.enc with te := v } }) (encG graph_id))
  let mut graph_rows : List Row := t1__.1
  graph_start := { graph_start with g := some t1__.2 }
  onStream (zoom (·.enc.te) (fun s v => { s with enc := { s.enc with te := v } }) TermEncoder.end_row)
  graph_rows := graph_rows ++ [Row.graphStart graph_start.g]
  onStream (zoom (·.flow) (fun s v => { s with flow := v }) (flowExtend graph_rows))
  GraphStream.graph__loop enc encG exc frame_from_bounds graph
  onStream (zoom (·.flow) (fun s v => { s with flow := v }) (flowExtend [Row.graphEnd]))
  let t9__ ← onStream (zoom (·.flow) (fun s v => { s with flow := v }) frame_from_bounds)
  if t9__.isSome then
    yieldFrame (← liftE (optGet t9__))

/-- `Stream.namespace_declaration` (pyjelly/serialize/streams.py:111) -/
def Stream.namespace_declaration (name : String) (iri : String) : M Stream Unit := do
  let rows ← zoom (·.enc.te) (fun s v => { s with enc := { s.enc with te := v } }) (encode_namespace_declaration name iri)
  zoom (·.flow) (fun s v => { s with flow := v }) (flowExtend rows)

end Jelly.Gen

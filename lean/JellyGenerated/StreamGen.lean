import JellyModel.PyPreludeStream
import JellyGenerated.StmtGen
/-!
# GENERATED — do not edit. Translated from pyjelly/serialize/streams.py (TripleStream.triple / QuadStream.quad / Stream.enroll) by
harness/gen_translate_stream.py on every check run; `JellyProofs/TranslatedStream.lean` proves them equal to the model's
`Stream.triple` / `Stream.quad` / `Stream.enroll`.
-/
set_option linter.unusedVariables false
namespace Jelly.Gen
open Jelly Jelly.Py

/-- `TripleStream.triple` (pyjelly/serialize/streams.py:190) -/
def TripleStream.triple (enc encG : Term → M TermEnc (List Row × WTerm)) (exc : PyErr) (frame_from_bounds : M Flow (Option Frame)) (terms : List Term) : M Stream (Option Frame) := do
  let new_rows ← zoom (·.enc) (fun s v => { s with enc := v }) (encode_triple enc encG exc terms)
  zoom (·.flow) (fun s v => { s with flow := v }) (flowExtend new_rows)
  return (← zoom (·.flow) (fun s v => { s with flow := v }) frame_from_bounds)

/-- `QuadStream.quad` (pyjelly/serialize/streams.py:219) -/
def QuadStream.quad (enc encG : Term → M TermEnc (List Row × WTerm)) (exc : PyErr) (frame_from_bounds : M Flow (Option Frame)) (terms : List Term) : M Stream (Option Frame) := do
  let new_rows ← zoom (·.enc) (fun s v => { s with enc := v }) (encode_quad enc encG exc terms)
  zoom (·.flow) (fun s v => { s with flow := v }) (flowExtend new_rows)
  return (← zoom (·.flow) (fun s v => { s with flow := v }) frame_from_bounds)

/-- `Stream.stream_options` / `Stream.enroll` (pyjelly/serialize/streams.py:95) -/
def Stream.stream_options (optsRow : Row) : M Stream Unit := do
  zoom (·.flow) (fun s v => { s with flow := v }) (flowExtend [optsRow])

def Stream.enroll (optsRow : Row) : M Stream Unit := do
  if (!(← get).enrolled) then
    Stream.stream_options optsRow
    modify fun s => { s with enrolled := true }

/-- `Stream.namespace_declaration` (pyjelly/serialize/streams.py:111) -/
def Stream.namespace_declaration (name : String) (iri : String) : M Stream Unit := do
  let rows ← zoom (·.enc.te) (fun s v => { s with enc := { s.enc with te := v } }) (encode_namespace_declaration name iri)
  zoom (·.flow) (fun s v => { s with flow := v }) (flowExtend rows)

end Jelly.Gen

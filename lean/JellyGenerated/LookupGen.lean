import JellyModel.PyPrelude
/-!
# GENERATED — do not edit. Translated from pyjelly/serialize/lookup.py and pyjelly/parse/lookup.py by
harness/gen_translate.py on every check run; `JellyProofs/Translated.lean` proves each definition equal to the
hand-written model function.
-/
set_option linter.unusedVariables false
namespace Jelly.Gen
open Jelly Jelly.Py

/-- `Lookup.__init__` (pyjelly/serialize/lookup.py:33) -/
def Lookup.__init__ (max_size : Nat) : M Jelly.Lookup Unit := do
  let t1__ := ([] : OD)
  modify fun s => { s with data := t1__ }
  let t2__ := max_size
  modify fun s => { s with maxSize := t2__ }
  let t3__ := false
  modify fun s => { s with evicting := t3__ }
  let t4__ := none
  modify fun s => { s with pinned := t4__ }

/-- `Lookup.make_last_to_evict` (pyjelly/serialize/lookup.py:41) -/
def Lookup.make_last_to_evict (key : String) : M Jelly.Lookup Unit := do
  let t1__ := (← liftE (odMoveToEnd (← get).data key))
  modify fun s => { s with data := t1__ }
  if ((← get).pinned).isSome then
    let t2__ := (← liftE (setAdd (← get).pinned key))
    modify fun s => { s with pinned := t2__ }

/-- `Lookup.insert` (pyjelly/serialize/lookup.py:46) -/
def Lookup.insert (key : String) : M Jelly.Lookup Nat := do
  let mut index : Nat := default
  if (!(truthy ((← get).maxSize))) then
    throw PyErr.indexError
  pyAssert (!(odContains (← get).data key))
  if truthy ((← get).evicting) then
    if (← (do if ((← get).pinned).isSome then (do pure ((← liftE (setContains (← get).pinned (← liftE (odFirstKey (← get).data)))))) else pure false)) then
      throw PyErr.conformance
    let t1__ := (← liftE (odPopFirst (← get).data))
    modify fun s => { s with data := t1__.2 }
    index := t1__.1.2
    let t2__ := odSet (← get).data key index
    modify fun s => { s with data := t2__ }
  else
    index := ((← get).data.length + 1)
    let t3__ := odSet (← get).data key index
    modify fun s => { s with data := t3__ }
    let t4__ := (index == (← get).maxSize)
    modify fun s => { s with evicting := t4__ }
  if ((← get).pinned).isSome then
    let t5__ := (← liftE (setAdd (← get).pinned key))
    modify fun s => { s with pinned := t5__ }
  return index

/-- `LookupEncoder.__init__` (pyjelly/serialize/lookup.py:91) -/
def LookupEncoder.__init__ (lookup_size : Nat) : M Jelly.LookupEnc Unit := do
  let t1__ := (← liftE (construct (Lookup.__init__ lookup_size)))
  modify fun s => { s with lookup := t1__ }
  let t2__ := 0
  modify fun s => { s with lastAssigned := t2__ }
  let t3__ := 0
  modify fun s => { s with lastReused := t3__ }

/-- `LookupEncoder.encode_entry_index` (pyjelly/serialize/lookup.py:96) -/
def LookupEncoder.encode_entry_index (key : String) : M Jelly.LookupEnc (Option Nat) := do
  let mut previous_index : Nat := default
  let mut index : Nat := default
  try
    let _ := (← zoom (·.lookup) (fun s v => { s with lookup := v }) (Lookup.make_last_to_evict key))
    return none
  catch e__ =>
    if e__ == PyErr.keyError then
      previous_index := (← get).lastAssigned
      index := (← zoom (·.lookup) (fun s v => { s with lookup := v }) (Lookup.insert key))
      let t1__ := index
      modify fun s => { s with lastAssigned := t1__ }
      if (index == (previous_index + 1)) then
        return (some 0)
      return (some index)
    else
      throw e__

/-- `LookupEncoder.encode_term_index` (pyjelly/serialize/lookup.py:123) -/
def LookupEncoder.encode_term_index (value : String) : M Jelly.LookupEnc Nat := do
  let _ := (← zoom (·.lookup) (fun s v => { s with lookup := v }) (Lookup.make_last_to_evict value))
  let mut current_index := (← liftE (odGet (← get).lookup.data value))
  let t1__ := current_index
  modify fun s => { s with lastReused := t1__ }
  return current_index

/-- `LookupEncoder.encode_prefix_term_index` (pyjelly/serialize/lookup.py:129) -/
def LookupEncoder.encode_prefix_term_index (value : String) : M Jelly.LookupEnc Nat := do
  if ((← get).lookup.maxSize == 0) then
    return 0
  let mut previous_index := (← get).lastReused
  if ((!(truthy (value))) && (previous_index == 0)) then
    return 0
  let mut current_index := (← LookupEncoder.encode_term_index value)
  if (previous_index == 0) then
    return current_index
  if (current_index == previous_index) then
    return 0
  return current_index

/-- `LookupEncoder.encode_name_term_index` (pyjelly/serialize/lookup.py:142) -/
def LookupEncoder.encode_name_term_index (value : String) : M Jelly.LookupEnc Nat := do
  let mut previous_index := (← get).lastReused
  let mut current_index := (← LookupEncoder.encode_term_index value)
  if (current_index == (previous_index + 1)) then
    return 0
  return current_index

/-- `LookupEncoder.encode_datatype_term_index` (pyjelly/serialize/lookup.py:149) -/
def LookupEncoder.encode_datatype_term_index (value : String) : M Jelly.LookupEnc Nat := do
  if ((← get).lookup.maxSize == 0) then
    return 0
  return (← LookupEncoder.encode_term_index value)

/-- `LookupDecoder.__init__` (pyjelly/parse/lookup.py:27) -/
def LookupDecoder.__init__ (lookup_size : Nat) : M Jelly.LookupDec Unit := do
  if (decide (lookup_size > 4096)) then
    throw PyErr.jassertion
  let t1__ := lookup_size
  modify fun s => { s with size := t1__ }
  let mut placeholders := (List.replicate lookup_size (none : Option String))
  let t2__ := (dqNew placeholders lookup_size)
  modify fun s => { s with data := t2__ }
  let t3__ := 0
  modify fun s => { s with lastAssigned := t3__ }
  let t4__ := 0
  modify fun s => { s with lastReused := t4__ }

/-- `LookupDecoder.assign_entry` (pyjelly/parse/lookup.py:37) -/
def LookupDecoder.assign_entry (index : Nat) (value : String) : M Jelly.LookupDec Unit := do
  let mut index := index
  let mut previous_index := (← get).lastAssigned
  if (index == 0) then
    index := (previous_index + 1)
  pyAssert (decide (index > 0))
  let t1__ := (← liftE (dqSet (← get).data (← liftE (natSub index 1)) (some value)))
  modify fun s => { s with data := t1__ }
  let t2__ := index
  modify fun s => { s with lastAssigned := t2__ }

/-- `LookupDecoder.at` (pyjelly/parse/lookup.py:45) -/
def LookupDecoder.at (index : Nat) : M Jelly.LookupDec String := do
  let t1__ := index
  modify fun s => { s with lastReused := t1__ }
  let mut value := (← liftE (dqGet (← get).data (← liftE (natSub index 1))))
  if (value).isNone then
    throw PyErr.indexError
  return (← liftE (optGet value))

/-- `LookupDecoder.decode_prefix_term_index` (pyjelly/parse/lookup.py:53) -/
def LookupDecoder.decode_prefix_term_index (index : Nat) : M Jelly.LookupDec String := do
  let mut actual_index := (pyOr index (← get).lastReused)
  if (actual_index == 0) then
    return ""
  return (← LookupDecoder.at actual_index)

/-- `LookupDecoder.decode_name_term_index` (pyjelly/parse/lookup.py:59) -/
def LookupDecoder.decode_name_term_index (index : Nat) : M Jelly.LookupDec String := do
  let mut actual_index := (pyOr index ((← get).lastReused + 1))
  if (actual_index == 0) then
    throw PyErr.conformance
  return (← LookupDecoder.at actual_index)

/-- `LookupDecoder.decode_datatype_term_index` (pyjelly/parse/lookup.py:66) -/
def LookupDecoder.decode_datatype_term_index (index : Nat) : M Jelly.LookupDec (Option String) := do
  if (index == 0) then
    throw PyErr.conformance
  return (some (← LookupDecoder.at index))

end Jelly.Gen

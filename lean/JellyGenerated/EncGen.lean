import JellyModel.PyPrelude
import JellyModel.Encode
import JellyGenerated.LookupGen
import JellyGenerated.FuncsGen
/-!
# GENERATED — do not edit. Translated from pyjelly/serialize/encode.py (TermEncoder.start_row / end_row / encode_iri_indices) by
harness/gen_translate_enc.py on every check run; `JellyProofs/TranslatedEnc.lean` proves them equal to the model's
`TermEnc.beginRow` / `TermEnc.endRow`.
-/
set_option linter.unusedVariables false
namespace Jelly.Gen
open Jelly Jelly.Py

/-- `TermEncoder.start_row` (pyjelly/serialize/encode.py:57) -/
def TermEncoder.start_row : M Jelly.TermEnc Unit := do
  if ((← get).rowOpen && ((setTruthy (← get).names.lookup.pinned) || (setTruthy (← get).prefixes.lookup.pinned) || (setTruthy (← get).datatypes.lookup.pinned))) then
    throw PyErr.conformance
  let t1__ := true
  modify fun s => { s with rowOpen := t1__ }
  let t2__ := (some [] : Option (List String))
  modify fun s => { s with names := { s.names with lookup := { s.names.lookup with pinned := t2__ } } }
  let t3__ := (some [] : Option (List String))
  modify fun s => { s with prefixes := { s.prefixes with lookup := { s.prefixes.lookup with pinned := t3__ } } }
  let t4__ := (some [] : Option (List String))
  modify fun s => { s with datatypes := { s.datatypes with lookup := { s.datatypes.lookup with pinned := t4__ } } }

/-- `TermEncoder.end_row` (pyjelly/serialize/encode.py:78) -/
def TermEncoder.end_row : M Jelly.TermEnc Unit := do
  let t1__ := false
  modify fun s => { s with rowOpen := t1__ }
  let t2__ := (none : Option (List String))
  modify fun s => { s with names := { s.names with lookup := { s.names.lookup with pinned := t2__ } } }
  let t3__ := (none : Option (List String))
  modify fun s => { s with prefixes := { s.prefixes with lookup := { s.prefixes.lookup with pinned := t3__ } } }
  let t4__ := (none : Option (List String))
  modify fun s => { s with datatypes := { s.datatypes with lookup := { s.datatypes.lookup with pinned := t4__ } } }

/-- `TermEncoder.encode_iri_indices` (pyjelly/serialize/encode.py:85) -/
def TermEncoder.encode_iri_indices (iri_string : String) : M Jelly.TermEnc (List Row × Nat × Nat) := do
  let mut prefix_entry_index : Option Nat := default
  let t1__ := (← liftE (split_iri iri_string))
  let mut prefix_ : String := t1__.1
  let mut name : String := t1__.2
  if truthy ((← get).prefixes.lookup.maxSize) then
    prefix_entry_index := (← zoom (·.prefixes) (fun s v => { s with prefixes := v }) (LookupEncoder.encode_entry_index prefix_))
  else
    name := iri_string
    prefix_entry_index := none
  let mut name_entry_index : Option Nat := (← zoom (·.names) (fun s v => { s with names := v }) (LookupEncoder.encode_entry_index name))
  let mut term_rows : List Row := ([] : List Row)
  if (prefix_entry_index).isSome then
    term_rows := term_rows ++ [Row.prefixEntry (← liftE (optGet prefix_entry_index)) prefix_]
  if (name_entry_index).isSome then
    term_rows := term_rows ++ [Row.nameEntry (← liftE (optGet name_entry_index)) name]
  let mut prefix_index : Nat := (← zoom (·.prefixes) (fun s v => { s with prefixes := v }) (LookupEncoder.encode_prefix_term_index prefix_))
  let mut name_index : Nat := (← zoom (·.names) (fun s v => { s with names := v }) (LookupEncoder.encode_name_term_index name))
  return (term_rows, prefix_index, name_index)

/-- `TermEncoder.encode_literal` (pyjelly/serialize/encode.py:147) -/
def TermEncoder.encode_literal (lex : String) (language : Option String) (datatype : Option String) : M Jelly.TermEnc (List Row × PLit) := do
  let mut literal__ : PLit := {}
  let mut datatype_entry_id : Option Nat := default
  let mut term_rows : List Row := default
  let mut datatype_id : Option Nat := none
  term_rows := ([] : List Row)
  if ((optStrTruthy datatype) && (datatype != some ("http://www.w3.org/2001/XMLSchema#string"))) then
    if ((← get).datatypes.lookup.maxSize == 0) then
      throw PyErr.conformance
    datatype_entry_id := (← zoom (·.datatypes) (fun s v => { s with datatypes := v }) (LookupEncoder.encode_entry_index (← liftE (optGet datatype))))
    if (datatype_entry_id).isSome then
      term_rows := [Row.dtEntry (← liftE (optGet datatype_entry_id)) (← liftE (optGet datatype))]
    datatype_id := (some (← zoom (·.datatypes) (fun s v => { s with datatypes := v }) (LookupEncoder.encode_datatype_term_index (← liftE (optGet datatype)))))
  literal__ := { literal__ with lex := lex }
  if (optStrTruthy language) then
    literal__ := PLit.setLang literal__ (← liftE (optGet language))
  if (optNatTruthy datatype_id) then
    literal__ := PLit.setDt literal__ (← liftE (optGet datatype_id))
  return (term_rows, literal__)

end Jelly.Gen

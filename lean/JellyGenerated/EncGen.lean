import JellyModel.PyPrelude
import JellyModel.Encode
/-!
# GENERATED — do not edit. Translated from pyjelly/serialize/encode.py (TermEncoder.start_row / end_row) by
harness/gen_translate_enc.py on every check run; `JellyProofs/TranslatedEnc.lean` proves them equal to the model's
`TermEnc.beginRow` / `TermEnc.endRow`.
-/
set_option linter.unusedVariables false
namespace Jelly.Gen
open Jelly Jelly.Py

/-- `TermEncoder.start_row` (pyjelly/serialize/encode.py:57) -/
def TermEncoder.start_row : M Jelly.TermEnc Unit := do
  if ((← get).rowOpen && ((setTruthy (← get).names.lookup.pinned) || (setTruthy (← get).prefixes.lookup.pinned) || (setTruthy (← get).datatypes.lookup.pinned))) then
    throw PyErr.conformance
  let t1__ := true
  modify fun s => { s with rowOpen := t1__ }
  let t2__ := (some [] : Option (List String))
  modify fun s => { s with names := { s.names with lookup := { s.names.lookup with pinned := t2__ } } }
  let t3__ := (some [] : Option (List String))
  modify fun s => { s with prefixes := { s.prefixes with lookup := { s.prefixes.lookup with pinned := t3__ } } }
  let t4__ := (some [] : Option (List String))
  modify fun s => { s with datatypes := { s.datatypes with lookup := { s.datatypes.lookup with pinned := t4__ } } }

/-- `TermEncoder.end_row` (pyjelly/serialize/encode.py:78) -/
def TermEncoder.end_row : M Jelly.TermEnc Unit := do
  let t1__ := false
  modify fun s => { s with rowOpen := t1__ }
  let t2__ := (none : Option (List String))
  modify fun s => { s with names := { s.names with lookup := { s.names.lookup with pinned := t2__ } } }
  let t3__ := (none : Option (List String))
  modify fun s => { s with prefixes := { s.prefixes with lookup := { s.prefixes.lookup with pinned := t3__ } } }
  let t4__ := (none : Option (List String))
  modify fun s => { s with datatypes := { s.datatypes with lookup := { s.datatypes.lookup with pinned := t4__ } } }

end Jelly.Gen

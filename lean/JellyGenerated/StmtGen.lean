import JellyModel.PyPreludeStmt
import JellyGenerated.EncGen
/-!
# GENERATED — do not edit. Translated from pyjelly/serialize/encode.py (encode_spo / encode_triple / encode_quad) by
harness/gen_translate_stmt.py on every check run; `JellyProofs/TranslatedStmt.lean` proves them equal to the model's
`encodeTriple` / `encodeQuad`.
-/
set_option linter.unusedVariables false
namespace Jelly.Gen
open Jelly Jelly.Py

/-- `encode_spo` (pyjelly/serialize/encode.py:279) -/
def encode_spo (enc encG : Term → M TermEnc (List Row × WTerm)) (exc : PyErr) (terms : List Term) (statement : PStmt) : M EncState (List Row × List Term × PStmt) := do
  let mut terms := terms
  let mut statement := statement
  let mut extra_rows : List Row := []
  let mut rows : List Row := []
  let mut o : Term := default
  let mut p : Term := default
  let mut s : Term := default
  rows := ([] : List Row)
  let t1__ ← liftE (pyNext exc terms)
  s := t1__.1
  terms := t1__.2
  if (← get).rep.s != some s then
    let t2__ ← zoom (·.te) (fun st v => { st with te := v }) (enc s)
    extra_rows := t2__.1
    statement := { statement with s := some t2__.2 }
    rows := rows ++ extra_rows
    modify fun st => { st with rep := { st.rep with s := some s } }
  let t3__ ← liftE (pyNext exc terms)
  p := t3__.1
  terms := t3__.2
  if (← get).rep.p != some p then
    let t4__ ← zoom (·.te) (fun st v => { st with te := v }) (enc p)
    extra_rows := t4__.1
    statement := { statement with p := some t4__.2 }
    rows := rows ++ extra_rows
    modify fun st => { st with rep := { st.rep with p := some p } }
  let t5__ ← liftE (pyNext exc terms)
  o := t5__.1
  terms := t5__.2
  if (← get).rep.o != some o then
    let t6__ ← zoom (·.te) (fun st v => { st with te := v }) (enc o)
    extra_rows := t6__.1
    statement := { statement with o := some t6__.2 }
    rows := rows ++ extra_rows
    modify fun st => { st with rep := { st.rep with o := some o } }
  return (rows, terms, statement)

/-- `encode_triple` (pyjelly/serialize/encode.py:317) -/
def encode_triple (enc encG : Term → M TermEnc (List Row × WTerm)) (exc : PyErr) (terms : List Term) : M EncState (List Row) := do
  let mut terms := terms
  let mut rows : List Row := []
  let mut previous : Repeated := {}
  let mut triple : PStmt := {}
  triple := ({} : PStmt)
  zoom (·.te) (fun st v => { st with te := v }) TermEncoder.start_row
  previous := (← get).rep
  try
    let t1__ ← encode_spo enc encG exc terms triple
    rows := t1__.1
    terms := t1__.2.1
    triple := t1__.2.2
  catch e__ =>
    modify fun st => { st with rep := previous }
    throw e__
  zoom (·.te) (fun st v => { st with te := v }) TermEncoder.end_row
  rows := rows ++ [Row.triple triple.s triple.p triple.o]
  return rows

/-- `encode_quad` (pyjelly/serialize/encode.py:349) -/
def encode_quad (enc encG : Term → M TermEnc (List Row × WTerm)) (exc : PyErr) (terms : List Term) : M EncState (List Row) := do
  let mut terms := terms
  let mut extra_rows : List Row := []
  let mut rows : List Row := []
  let mut g : Term := default
  let mut previous : Repeated := {}
  let mut quad : PStmt := {}
  quad := ({} : PStmt)
  zoom (·.te) (fun st v => { st with te := v }) TermEncoder.start_row
  previous := (← get).rep
  try
    let t1__ ← encode_spo enc encG exc terms quad
    rows := t1__.1
    terms := t1__.2.1
    quad := t1__.2.2
    let t2__ ← liftE (pyNext exc terms)
    g := t2__.1
    terms := t2__.2
    if (← get).rep.g != some g then
      let t3__ ← zoom (·.te) (fun st v => { st with te := v }) (encG g)
      extra_rows := t3__.1
      quad := { quad with g := some t3__.2 }
      rows := rows ++ extra_rows
      modify fun st => { st with rep := { st.rep with g := some g } }
  catch e__ =>
    modify fun st => { st with rep := previous }
    throw e__
  zoom (·.te) (fun st v => { st with te := v }) TermEncoder.end_row
  rows := rows ++ [Row.quad quad.s quad.p quad.o quad.g]
  return rows

/-- `TermEncoder.encode_iri`: the ids of `encode_iri_indices` stored in the IRI message (its two fields are the result) -/
def TermEncoder.encode_iri (iri_string : String) : M Jelly.TermEnc (List Row × (Nat × Nat)) := do
  let t1__ ← TermEncoder.encode_iri_indices iri_string
  let mut iri__ : Nat × Nat := (0, 0)
  iri__ := (t1__.2.1, iri__.2)
  iri__ := (iri__.1, t1__.2.2)
  return (t1__.1, iri__)

/-- `encode_namespace_declaration` -/
def encode_namespace_declaration (name : String) (value : String) : M Jelly.TermEnc (List Row) := do
  let mut iri__ : Nat × Nat := (0, 0)
  TermEncoder.start_row
  let t1__ ← TermEncoder.encode_iri value
  let mut rows : List Row := t1__.1
  iri__ := t1__.2
  TermEncoder.end_row
  rows := rows ++ [Row.namespace name (some iri__)]
  return rows

end Jelly.Gen

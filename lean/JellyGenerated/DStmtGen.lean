import JellyModel.PyPreludeDStmt
/-!
# GENERATED — do not edit. Translated from pyjelly/parse/decode.py (Decoder.decode_statement / decode_triple / decode_quad) by
harness/gen_translate_dstmt.py on every check run; `JellyProofs/TranslatedDStmt.lean` proves them equal to the model's
`DecState.decodeSpo` (and the graph slot of a quad).
-/
set_option linter.unusedVariables false
namespace Jelly.Gen
open Jelly Jelly.Py

/-- `Decoder.decode_statement` (pyjelly/parse/decode.py:392) -/
def Decoder.decode_statement (dec : WTerm → M DecState Term) (statement : PStmt) (oneofs : List SlotName) : M DecState (List Term) := do
  let mut terms : List Term := []
  terms := ([] : List Term)
  for oneof in oneofs do
    let mut field : Option WTerm := default
    let mut jelly_term : WTerm := default
    let mut decoded_term : Term := default
    field := pstmtGet statement oneof
    if (field).isSome then
      jelly_term := (← liftE (optGet field))
      decoded_term := (← dec jelly_term)
      modify fun d => { d with rep := repSet d.rep oneof decoded_term }
    else
      decoded_term := (← liftE (repGet (← get).rep oneof))
    terms := terms ++ [decoded_term]
  return terms

/-- `Decoder.decode_triple` (pyjelly/parse/decode.py:428) -/
def Decoder.decode_triple (dec : WTerm → M DecState Term) (triple : PStmt) : M DecState (List Term) := do
  let terms ← Decoder.decode_statement dec triple [SlotName.subject, SlotName.predicate, SlotName.object]
  return terms

/-- `Decoder.decode_quad` (pyjelly/parse/decode.py:446) -/
def Decoder.decode_quad (dec : WTerm → M DecState Term) (quad : PStmt) : M DecState (List Term) := do
  let terms ← Decoder.decode_statement dec quad [SlotName.subject, SlotName.predicate, SlotName.object, SlotName.graph]
  return terms

end Jelly.Gen

import JellyModel.PyPreludeStr
/-!
# GENERATED — do not edit. Translated from pyjelly/parse/ioutils.py (delimited_jelly_hint) and pyjelly/serialize/encode.py
(split_iri) by harness/gen_translate_funcs.py on every check run; `JellyProofs/TranslatedFuncs.lean` proves them equal to the
model's `delimitedHint` and `splitIri`.
-/
set_option linter.unusedVariables false
namespace Jelly.Gen
open Jelly Jelly.Py

/-- `delimited_jelly_hint` (pyjelly/parse/ioutils.py:14) -/
def delimited_jelly_hint (header : Bytes) : Except PyErr Bool := do
  let mut magic := 10
  return (← (do if (decide ((header.length) ≥ 3)) then (do pure ((← (do if (((← bytesGet header 0)).toNat != (magic)) then pure true else (do pure ((← (do if (((← bytesGet header 1)).toNat == (magic)) then (do pure ((((← bytesGet header 2)).toNat != (magic)))) else pure false)))))))) else pure false))

/-- `split_iri` (pyjelly/serialize/encode.py:14) -/
def split_iri (iri_string : String) : Except PyErr (String × String) := do
  let mut char : String := default
  let mut name := iri_string
  let mut prefix_ := ""
  let sep : String := "#"
  let t1__ := rpartition iri_string sep
  prefix_ := t1__.1
  char := t1__.2.1
  name := t1__.2.2
  if (char != "") then
    return ((prefix_ ++ char), name)
  let sep : String := "/"
  let t2__ := rpartition iri_string sep
  prefix_ := t2__.1
  char := t2__.2.1
  name := t2__.2.2
  if (char != "") then
    return ((prefix_ ++ char), name)
  return (prefix_, name)

/-- `validate_type_compatibility` (pyjelly/options.py:126) -/
def validate_type_compatibility (physical_type : Nat) (logical_type : Nat) : Except PyErr Unit := do
  let mut physical_type_name : Nat := default
  let mut logical_type_name : Nat := default
  if ((physical_type == 0) || (logical_type == 0)) then
    return ()
  let mut triples_physical_type := (physical_type == 1)
  let mut triples_logical_type := ([3, 13, 1].contains logical_type)
  if (triples_physical_type != triples_logical_type) then
    throw PyErr.jassertion

/-- `StreamTypes.flat` (pyjelly/options.py:75) -/
def StreamTypes.flat (logical_type : Nat) : Except PyErr Bool := do
  return ([1, 2].contains logical_type)

/-- `LookupPreset.__post_init__` (pyjelly/options.py:59) -/
def LookupPreset.__post_init__ (max_names : Nat) : Except PyErr Unit := do
  if (decide (max_names < 8)) then
    throw PyErr.conformance

/-- `StreamParameters.__post_init__ (the value `version` ends up with)` (pyjelly/options.py:110) -/
def StreamParameters.__post_init__ (namespace_declarations : Bool) (version : Nat) : Except PyErr Nat := do
  let mut selected := (if namespace_declarations then 2 else 1)
  if (!((decide (1 ≤ selected) && decide (selected ≤ 2)))) then
    throw PyErr.conformance
  return selected

end Jelly.Gen

import JellyModel
open Jelly

def c18Opts : SerOptions := { preset := { maxNames := 8, maxPrefixes := 1, maxDatatypes := 1 } }
def c18Stmt : List Term := [.iri "http://a/x", .iri "http://b/y", .iri "http://c/z"]
def c18Rows : List Row :=
  match Stream.new .triple c18Opts with
  | .ok s => (streamFrames s (.gen [c18Stmt])).frames.flatMap (·.rows)
  | .error _ => []
#eval (Spec.runRows c18Rows).2
#eval (match Stream.new .triple c18Opts with | .ok s => (streamFrames s (.gen [c18Stmt])).err | .error e => some e)

theorem t1 : (Spec.runRows c18Rows).2 = ([.stmt [.iri "http://c/x", .iri "http://c/y", .iri "http://c/z"]], none) := by decide +kernel

import JellyModel
/-!
# `jellydrv`: line-protocol driver for the executable model

One request per line, one response line per request. See `harness/protocol.md`.
-/
open Jelly Jelly.Text

def framesBytes (delimited : Bool) (fs : List Frame) : Bytes :=
  fs.flatMap fun f => if delimited then writeDelimited f else writeSingle f

/-- `lk <rule> <size> k1 k2 …` : joint run of LookupEncoder and LookupDecoder on a key history. -/
def cmdLk (rule : String) (size : Nat) (keys : List String) : String :=
  let r : Rule := match rule with | "name" => .name | "prefix" => .prefix | _ => .datatype
  match jointInit size with
  | .error e => "!" ++ e.name
  | .ok st0 =>
    let ((enc, _), outs, fail) := jointRun r st0 keys []
    let ent (e : Option Nat) : String := match e with | some id => toString id | none => "-"
    let okS := outs.map fun o => s!"{ent o.entry};{o.idx};{hexOfString o.resolved}"
    let failS := match fail with
      | none => []
      | some f => [match f.idx with
          | some i => s!"{ent f.entry};{i};!{f.err.name}"
          | none => s!"{ent f.entry};!{f.err.name}"]
    -- the writer table as it is when the run stops (after a failed step it is the state before that step)
    " ".intercalate (okS ++ failS) ++ s!" live={enc.lookup.data.length}"

/-- `ser <cls> <entry> <opts|-> <data>` -/
def cmdSer (cls entry opts data : String) : String :=
  let optsO : Option SerOptions := if opts == "-" then none else some (parseSerOptions opts)
  match entry with
  | "frames" =>
    -- stream_frames(stream, data) + write_delimited / write_single per frame
    match streamClass? cls, optsO with
    | some c, some o =>
      match Stream.new c o with
      | .error e => "!" ++ e.name
      | .ok s =>
        let dataV : Option SerData :=
          if data.startsWith "gen:" then (parseStmts (data.drop 4).toString).map SerData.gen
          else if data.startsWith "sink:" then (parseSink (data.drop 5).toString).map SerData.sink
          else none
        match dataV with
        | none => "?bad-data"
        | some d =>
          let r := streamFrames s d
          s!"ok {hexOfBytes (framesBytes o.params.delimited r.frames)} flow={r.stream.flow.rows.length} {errText r.err}"
    | _, _ => "?bad-args"
  | "flat" =>
    match parseStmts data with
    | none => "?bad-data"
    | some stmts =>
      let (frames, st, err) := flatStreamToFrames stmts optsO
      let fl := match st with | some s => toString s.flow.rows.length | none => "-"
      s!"ok {hexOfBytes (framesBytes true frames)} flow={fl} {errText err}"
  | "grouped" =>
    match (if data == "_" then some [] else (data.splitOn "+").mapM parseSink) with
    | none => "?bad-data"
    | some sinks =>
      let (frames, st, err) := groupedStreamToFrames sinks optsO
      let fl := match st with | some s => toString s.flow.rows.length | none => "-"
      s!"ok {hexOfBytes (framesBytes true frames)} flow={fl} {errText err}"
  | _ => "?bad-entry"

/-- `serr <cls> <opts> <isGraph01> <ns|_> <data>` : the rdflib serializer loops.
    T: data = graphs separated by `+`, each a `/`-list of triples;
    Q: data = `/`-list of quads;  G: data = graphs separated by `+`, each `<gid>@<triples>`. -/
def cmdSerR (cls opts isGraph ns data : String) : String :=
  let o := parseSerOptions opts
  let nsV : Option (List (String × String)) :=
    if ns == "_" then some [] else
    (ns.splitOn "/").mapM fun b =>
      match b.splitOn "=" with
      | [k, v] => some (strOfBytes (bytesOfHex k), strOfBytes (bytesOfHex v))
      | _ => none
  match streamClass? cls, nsV with
  | some c, some nss =>
    match Stream.new c o with
    | .error e => "!" ++ e.name
    | .ok s =>
      let ig := isGraph == "1"
      let run : Option Run := match c with
        | .triple => ((if data == "-" then some [] else (data.splitOn "+").mapM parseStmts)).map (triplesStreamFramesR s ig nss)
        | .quad => (parseStmts data).map (quadsStreamFramesR s ig nss)
        | .graph =>
          ((if data == "-" then some [] else (data.splitOn "+").mapM fun g =>
            match g.splitOn "@" with
            | [gid, sts] => match parseTerm gid, parseStmts sts with
              | some t, some l => some (t, l)
              | _, _ => none
            | _ => none)).map (graphsStreamFramesR s ig nss)
      match run with
      | none => "?bad-data"
      | some r => s!"ok {hexOfBytes (framesBytes o.params.delimited r.frames)} flow={r.stream.flow.rows.length} {errText r.err}"
  | _, _ => "?bad-args"

def parseNs (ns : String) : Option (List (String × String)) :=
  if ns == "_" then some [] else
  (ns.splitOn "/").mapM fun b =>
    match b.splitOn "=" with
    | [k, v] => some (strOfBytes (bytesOfHex k), strOfBytes (bytesOfHex v))
    | _ => none

def parseGraphs (data : String) : Option (List (Term × List (List Term))) :=
  if data == "-" then some [] else (data.splitOn "+").mapM fun g =>
    match g.splitOn "@" with
    | [gid, sts] => match parseTerm gid, parseStmts sts with
      | some t, some l => some (t, l)
      | _, _ => none
    | _ => none

/-- `plug <isDataset01> <opts|-> <cls:opts|-> <ns|_> <graphs> <quads>` : the rdflib plugin
    (`Graph.serialize(format="jelly", options=, stream=)`); `-` = argument not given. -/
def cmdPlug (isDs opts stream ns graphs quads : String) : String :=
  let optsO : Option SerOptions := if opts == "-" then none else some (parseSerOptions opts)
  let streamE : Option (Except PyErr Stream) :=
    if stream == "-" then none else
    match stream.splitOn ":" with
    | cls :: rest => (streamClass? cls).map fun c => Stream.new c (parseSerOptions (":".intercalate rest))
    | _ => none
  match parseNs ns, parseGraphs graphs, parseStmts quads with
  | some nss, some gs, some qs =>
    if stream != "-" && streamE.isNone then "?bad-stream" else
    match streamE with
    | some (.error e) => "!" ++ e.name
    | _ =>
      let st : RStore := { isDataset := isDs == "1", ns := nss, graphs := gs, quads := qs }
      let sO : Option Stream := match streamE with | some (.ok s) => some s | _ => none
      let (b, err) := pluginSerialize st optsO sO
      s!"ok {hexOfBytes b} {errText err}"
  | _, _, _ => "?bad-args"

/-- `rflat <opts|-> <stmts>` : rdflib `flat_stream_to_file`. -/
def cmdRFlat (opts data : String) : String :=
  let optsO : Option SerOptions := if opts == "-" then none else some (parseSerOptions opts)
  match parseStmts data with
  | none => "?bad-data"
  | some stmts =>
    let (b, err) := flatStreamToFileR stmts optsO
    s!"ok {hexOfBytes b} {errText err}"

/-- `step <cls> <opts> op…` : a stream driven call by call, exceptions caught by the caller. -/
def cmdStep (cls opts : String) (ops : List String) : String :=
  match streamClass? cls with
  | none => "?bad-class"
  | some c =>
    match Stream.new c (parseSerOptions opts) with
    | .error e => "!" ++ e.name
    | .ok s0 => Id.run do
      let mut s := s0
      let mut out : List String := []
      let fr (f : Option Frame) : String := match f with | some f => "F" ++ hexOfBytes (writeDelimited f) | none => "-"
      for op in ops do
        if op == "enroll" then
          s := s.enroll; out := out ++ ["-"]
        else if op == "opts" then
          -- `Stream.stream_options()` called directly: one more (identical) options row in the flow
          s := s.pushRows [s.optionsRow]; out := out ++ ["-"]
        else if op == "flush" then
          let (fl, f) := s.flow.toStreamFrame
          s := { s with flow := fl }; out := out ++ [fr f]
        else if op.startsWith "t:" then
          match takeStmt 16 (op.drop 2).toString.toList [] with
          | some (ts, []) =>
            let (s', r) := s.triple .stopIteration ts
            let dirty := decide (s'.enc.idle ≠ s.enc.idle)
            s := s'
            out := out ++ [match r with | .ok f => fr f | .error e => "!" ++ e.name ++ (if dirty then "~" else "")]
          | _ => out := out ++ ["?bad-op"]
        else if op.startsWith "q:" then
          match takeStmt 16 (op.drop 2).toString.toList [] with
          | some (ts, []) =>
            let (s', r) := s.quad .stopIteration ts
            let dirty := decide (s'.enc.idle ≠ s.enc.idle)
            s := s'
            out := out ++ [match r with | .ok f => fr f | .error e => "!" ++ e.name ++ (if dirty then "~" else "")]
          | _ => out := out ++ ["?bad-op"]
        else if op.startsWith "g:" then
          match (op.drop 2).toString.splitOn "@" with
          | [gid, sts] =>
            match parseTerm gid, parseStmts sts with
            | some g, some triples =>
              let (s', frames, err) := s.graph .runtimeError g triples
              let dirty := decide (s'.enc.idle ≠ s.enc.idle) || decide (s'.flow.rows.length ≠ s.flow.rows.length) || !frames.isEmpty
              s := s'
              let fs := "+".intercalate (frames.map fun f => "F" ++ hexOfBytes (writeDelimited f))
              out := out ++ [(if frames.isEmpty then "-" else fs) ++ (match err with | some e => "!" ++ e.name ++ (if dirty then "~" else "") | none => "")]
            | _, _ => out := out ++ ["?bad-op"]
          | _ => out := out ++ ["?bad-op"]
        else if op.startsWith "ns:" then
          match (op.drop 3).toString.splitOn "=" with
          | [k, v] =>
            let (s', r) := s.namespaceDeclaration (strOfBytes (bytesOfHex k)) (strOfBytes (bytesOfHex v))
            s := s'
            out := out ++ [match r with | .ok () => "-" | .error e => "!" ++ e.name]
          | _ => out := out ++ ["?bad-op"]
        else out := out ++ ["?bad-op"]
      return " ".intercalate out ++ s!" flow={s.flow.rows.length}"

/-- `trace <cls> <opts> <stmts>` : pull/yield trace of `stream_frames(stream, generator)`. -/
def cmdTrace (cls opts data : String) : String :=
  match streamClass? cls, parseStmts data with
  | some c, some stmts =>
    match Stream.new c (parseSerOptions opts) with
    | .error e => "!" ++ e.name
    | .ok s =>
      let (tr, s', err) := streamTrace s stmts
      let evs := tr.map fun ev => match ev with
        | .pull i p => s!"p{i}:{p}"
        | .yield n => s!"y{n}"
      s!"{" ".intercalate evs} flow={s'.flow.rows.length} {errText err}"
  | _, _ => "?bad-args"

def sourceKind? (s : String) : Option SourceKind :=
  if s == "seek" then some .seekable
  else if s.startsWith "raw:" then
    (((s.drop 4).toString.splitOn ",").mapM (fun (t : String) => t.toNat?)).map SourceKind.rawNonSeekable
  else none

/-- `par <entry> <strict01> <quoted01> <source> <hexbytes>` -/
def cmdPar (entry strict quoted source hex : String) : String :=
  match sourceKind? source with
  | none => "?bad-source"
  | some k =>
    let b := bytesOfHex hex
    let st := strict == "1"
    let q := quoted == "1"
    match entry with
    | "flat" => let r := parseFlat k b st q; s!"{eventsText r.events} {errText r.err}"
    | "grouped" =>
      let r := parseGrouped k b st q
      s!"{" ".intercalate (r.sinks.map sinkText)} {errText r.err}"
    | "graph" =>
      match parseToGraph k b q with
      | .ok s => sinkText s ++ " end"
      | .error e => "!" ++ e.name
    | "options" =>
      match getOptionsAndFrames k b with
      | .error e => "!" ++ e.name
      | .ok o =>
        let p := o.opts
        s!"pt={p.physical} lt={p.logical} n={p.maxNames} p={p.maxPrefixes} d={p.maxDatatypes} name={hexOfString p.streamName} gen={p.generalized} star={p.rdfStar} v={p.version} delim={p.delimited} nd={p.namespaceDeclarations}"
    | _ => "?bad-entry"

/-- Split a byte string into frames without pyjelly: delimited = varint-prefixed messages,
    otherwise one message. -/
def wireFrames (delimited : Bool) (b : Bytes) : Except PyErr (List Frame) :=
  if delimited then
    let (fs, e) := restFrames (b.length + 1) b []
    match e with
    | some e => .error e
    | none => .ok fs
  else (decFrame b).map ([·])

/-- `spec <delim01> <hexbytes>` : the reference decoder on raw bytes. -/
def cmdSpec (delim hex : String) : String :=
  match wireFrames (delim == "1") (bytesOfHex hex) with
  | .error e => "wire-error " ++ e.name
  | .ok frames =>
    let rows := frames.flatMap (·.rows)
    let (_, evs, viol) := Spec.runRows rows
    let a := Spec.audit rows
    let shape := " ".intercalate (frames.map fun f => toString f.rows.length)
    match viol with
    | none => s!"ok {eventsText evs} ; audit r={a.redundantEntry} m={a.missedRepeat} z={a.missedZero} g={a.splitGraph} ; frames {shape}"
    | some (i, v) => s!"viol {v.name} row={i} {eventsText evs} ; frames {shape}"

def handle (line : String) : String :=
  let toks := (line.trimAscii.toString.splitOn " ").filter (· != "")
  match toks with
  | "lk" :: rule :: size :: keys =>
    cmdLk rule (size.toNat?.getD 0) (keys.map fun k => strOfBytes (bytesOfHex (k.drop 1).toString))
  | ["ser", cls, entry, opts, data] => cmdSer cls entry opts data
  | ["serr", cls, opts, isGraph, ns, data] => cmdSerR cls opts isGraph ns data
  | ["plug", isDs, opts, stream, ns, graphs, quads] => cmdPlug isDs opts stream ns graphs quads
  | ["rflat", opts, data] => cmdRFlat opts data
  | "step" :: cls :: opts :: ops => cmdStep cls opts ops
  | ["trace", cls, opts, data] => cmdTrace cls opts data
  | ["fits", opts, data] =>
    match parseStmts data with
    | some stmts =>
      let p := (parseSerOptions opts).preset
      " ".intercalate (stmts.map fun t => s!"{if stmtFits p t then 1 else 0}{if tripleWF t then 1 else 0}{if quadWF t then 1 else 0}")
    | none => "?bad-data"
  | ["par", entry, strict, quoted, source, hex] => cmdPar entry strict quoted source hex
  | ["par", entry, strict, quoted, source] => cmdPar entry strict quoted source ""
  | ["spec", delim, hex] => cmdSpec delim hex
  | ["spec", delim] => cmdSpec delim ""
  | ["hint", hex] => if delimitedHint (bytesOfHex hex) then "1" else "0"
  | ["hint"] => "0"
  | ["split", hex] => let (p, n) := splitIri (strOfBytes (bytesOfHex hex)); s!"{hexOfString p} {hexOfString n}"
  | ["split"] => " "
  | "echo" :: rest => "echo " ++ " ".intercalate rest
  | _ => "?bad-request"

partial def loop (h : IO.FS.Stream) (out : IO.FS.Stream) : IO Unit := do
  let line ← h.getLine
  if line.isEmpty then return ()
  out.putStrLn (handle line)
  loop h out

def main : IO Unit := do
  let stdin ← IO.getStdin
  let stdout ← IO.getStdout
  loop stdin stdout

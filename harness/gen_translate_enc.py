"""Translator, part 4: the row bracket of the term encoder -> lean/JellyGenerated/EncGen.lean.

    pyjelly/serialize/encode.py : TermEncoder.start_row, TermEncoder.end_row

These two methods carry the C18 / C20 protocol (which entries the row in progress pins; when a stream refuses to go on after an
abandoned row). They are translated onto the model's record `Jelly.TermEnc` (three `LookupEnc` + `rowOpen`), with nested
attribute paths (`self.names.lookup.pinned`), a local tuple of attribute paths used as an alias list (`lookups = (self.names.lookup,
...)`), `any(x.attr for x in lookups)` and `for x in lookups: x.attr = ...` unrolled over that list. `JellyProofs/TranslatedEnc.lean`
proves them equal to `TermEnc.beginRow` / `TermEnc.endRow`.
"""
from __future__ import annotations

import ast
import sys
from pathlib import Path

import common  # noqa: F401
from gen_translate import ERRORS, Method, Unsupported, fail

REPO = Path(common.REPO)
OUT = Path(__file__).resolve().parent.parent / "lean" / "JellyGenerated" / "EncGen.lean"
SRC = "pyjelly/serialize/encode.py"
METHODS = ["start_row", "end_row"]
# attribute name -> field name, per record type reached along a path from self
FIELDS = {
    "TermEnc": {"names": ("names", "LookupEnc"), "prefixes": ("prefixes", "LookupEnc"), "datatypes": ("datatypes", "LookupEnc"),
                "row_open": ("rowOpen", "Bool")},
    "LookupEnc": {"lookup": ("lookup", "Lookup"), "last_assigned_index": ("lastAssigned", "Nat"), "last_reused_index": ("lastReused", "Nat")},
    "Lookup": {"pinned": ("pinned", "Set"), "max_size": ("maxSize", "Nat"), "_evicting": ("evicting", "Bool")},
}


class EncMethod(Method):
    def __init__(self, fn: ast.FunctionDef):
        super().__init__("TermEncoder", fn, {}, {}, struct="Jelly.TermEnc", fields={}, name=f"TermEncoder.{fn.name}")
        self.aliases: dict[str, list[list[str]]] = {}   # local name -> list of attribute paths (a tuple of sub-objects)
        self.loopvar: dict[str, list[str]] = {}         # loop variable -> the path it stands for in this unrolled iteration

    # -- attribute paths ----------------------------------------------------------------------
    def path_of(self, e) -> tuple[list[str], str] | None:
        """(Lean field path, type at the end) of an attribute chain rooted at self or at an unrolled loop variable."""
        chain = []
        while isinstance(e, ast.Attribute):
            chain.append(e.attr)
            e = e.value
        chain.reverse()
        if isinstance(e, ast.Name) and e.id == "self":
            path, ty = [], "TermEnc"
        elif isinstance(e, ast.Name) and e.id in self.loopvar:
            path, ty = list(self.loopvar[e.id][0]), self.loopvar[e.id][1]
        else:
            return None
        for a in chain:
            if ty not in FIELDS or a not in FIELDS[ty]:
                fail(e, f"unknown attribute {a} of {ty}")
            f, ty = FIELDS[ty][a]
            path.append(f)
        return path, ty

    def read_path(self, path: list[str]) -> str:
        return "(← get)." + ".".join(path)

    def set_path(self, ind: int, path: list[str], value: str) -> None:
        t = self.fresh()
        self.emit(ind, f"let {t} := {value}")
        inner = t
        for k in range(len(path) - 1, -1, -1):
            owner = "s" + "".join("." + p for p in path[:k])
            inner = f"{{ {owner} with {path[k]} := {inner} }}"
        self.emit(ind, f"modify fun s => {inner}")

    # -- expressions --------------------------------------------------------------------------
    def is_boolish(self, e) -> bool:
        p = self.path_of(e) if isinstance(e, ast.Attribute) else None
        if p is not None and p[1] == "Bool":
            return True
        if isinstance(e, ast.Call) and isinstance(e.func, ast.Name) and e.func.id == "any":
            return True
        return super().is_boolish(e)

    def cond(self, e) -> str:
        p = self.path_of(e) if isinstance(e, ast.Attribute) else None
        if p is not None and p[1] == "Set":
            return f"(setTruthy {self.read_path(p[0])})"
        return super().cond(e)

    def expr(self, e) -> str:
        if isinstance(e, ast.Attribute):
            p = self.path_of(e)
            if p is None:
                fail(e, "attribute")
            return self.read_path(p[0])
        # any(x.attr for x in lookups) -> unrolled
        if isinstance(e, ast.Call) and isinstance(e.func, ast.Name) and e.func.id == "any" and len(e.args) == 1 \
                and isinstance(e.args[0], ast.GeneratorExp) and len(e.args[0].generators) == 1:
            g = e.args[0].generators[0]
            if g.ifs or not isinstance(g.target, ast.Name) or not isinstance(g.iter, ast.Name) or g.iter.id not in self.aliases:
                fail(e, "any() over something that is not a local tuple of sub-objects")
            parts = []
            for path in self.aliases[g.iter.id]:
                self.loopvar[g.target.id] = path
                parts.append(self.cond(e.args[0].elt))
            del self.loopvar[g.target.id]
            return "(" + " || ".join(parts) + ")"
        if isinstance(e, ast.Call) and isinstance(e.func, ast.Name) and e.func.id == "set" and not e.args and not e.keywords:
            return "(some [] : Option (List String))"
        return super().expr(e)

    # -- statements ---------------------------------------------------------------------------
    def stmt(self, ind: int, s: ast.stmt) -> None:
        # lookups = (self.names.lookup, self.prefixes.lookup, ...)
        if isinstance(s, ast.Assign) and len(s.targets) == 1 and isinstance(s.targets[0], ast.Name) and isinstance(s.value, ast.Tuple) \
                and all(self.path_of(x) is not None for x in s.value.elts):
            self.aliases[s.targets[0].id] = [self.path_of(x) for x in s.value.elts]
            return
        # for x in lookups: <body>  -> unrolled
        if isinstance(s, ast.For) and isinstance(s.target, ast.Name) and isinstance(s.iter, ast.Name) and s.iter.id in self.aliases and not s.orelse:
            for path in self.aliases[s.iter.id]:
                self.loopvar[s.target.id] = path
                for b in s.body:
                    self.stmt(ind, b)
            del self.loopvar[s.target.id]
            return
        # <path> = value
        if isinstance(s, ast.Assign) and len(s.targets) == 1 and isinstance(s.targets[0], ast.Attribute):
            p = self.path_of(s.targets[0])
            if p is None:
                fail(s, "assignment target")
            v = s.value
            if p[1] == "Set" and isinstance(v, ast.Constant) and v.value is None:
                val = "(none : Option (List String))"
            else:
                val = self.expr(v)
            self.set_path(ind, p[0], val)
            return
        super().stmt(ind, s)


def translate() -> str:
    tree = ast.parse((REPO / SRC).read_text())
    cd = next((n for n in tree.body if isinstance(n, ast.ClassDef) and n.name == "TermEncoder"), None)
    if cd is None:
        raise Unsupported(f"{SRC}: class TermEncoder not found")
    out = ["import JellyModel.PyPrelude", "import JellyModel.Encode", "/-!",
           "# GENERATED — do not edit. Translated from pyjelly/serialize/encode.py (TermEncoder.start_row / end_row) by",
           "harness/gen_translate_enc.py on every check run; `JellyProofs/TranslatedEnc.lean` proves them equal to the model's",
           "`TermEnc.beginRow` / `TermEnc.endRow`.", "-/", "set_option linter.unusedVariables false", "namespace Jelly.Gen", "open Jelly Jelly.Py", ""]
    for m in METHODS:
        fn = next((f for f in cd.body if isinstance(f, ast.FunctionDef) and f.name == m), None)
        if fn is None:
            raise Unsupported(f"{SRC}: TermEncoder.{m} not found")
        out.append(f"/-- `TermEncoder.{m}` ({SRC}:{fn.lineno}) -/")
        out.append(EncMethod(fn).render())
        out.append("")
    out.append("end Jelly.Gen")
    return "\n".join(out) + "\n"


def main() -> int:
    try:
        text = translate()
    except Unsupported as e:
        print(f"gen_translate_enc: source outside the translated fragment: {e}", file=sys.stderr)
        return 3
    except Exception as e:  # noqa: BLE001
        print(f"gen_translate_enc: source outside the translated fragment (translator error {type(e).__name__}: {e})", file=sys.stderr)
        return 3
    if OUT.exists() and OUT.read_text() == text:
        print("gen_translate_enc: unchanged")
    else:
        OUT.write_text(text)
        print("gen_translate_enc: written", OUT)
    return 0


if __name__ == "__main__":
    sys.exit(main())

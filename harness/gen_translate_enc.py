"""Translator, part 4: the row bracket of the term encoder -> lean/JellyGenerated/EncGen.lean.

    pyjelly/serialize/encode.py : TermEncoder.start_row, TermEncoder.end_row

These two methods carry the C18 / C20 protocol (which entries the row in progress pins; when a stream refuses to go on after an
abandoned row). They are translated onto the model's record `Jelly.TermEnc` (three `LookupEnc` + `rowOpen`), with nested
attribute paths (`self.names.lookup.pinned`), a local tuple of attribute paths used as an alias list (`lookups = (self.names.lookup,
...)`), `any(x.attr for x in lookups)` and `for x in lookups: x.attr = ...` unrolled over that list. `JellyProofs/TranslatedEnc.lean`
proves them equal to `TermEnc.beginRow` / `TermEnc.endRow`.
"""
from __future__ import annotations

import ast
import sys
from pathlib import Path

import common  # noqa: F401
import gen_translate as gt
from gen_translate import ERRORS, Method, Unsupported, fail

gt.TYPES.setdefault("tuple[Rows, int, int]", "List Row × Nat × Nat")
gt.TYPES.setdefault("Rows", "List Row × PLit")
RENAME = {"prefix": "prefix_"}
ENTRY_ROWS = {("RdfPrefixEntry", "prefix"): "prefixEntry", ("RdfNameEntry", "name"): "nameEntry", ("RdfDatatypeEntry", "datatype"): "dtEntry"}
LOOKUP_METHODS = {"encode_entry_index", "encode_prefix_term_index", "encode_name_term_index", "encode_datatype_term_index", "encode_term_index"}

REPO = Path(common.REPO)
OUT = Path(__file__).resolve().parent.parent / "lean" / "JellyGenerated" / "EncGen.lean"
SRC = "pyjelly/serialize/encode.py"
METHODS = ["start_row", "end_row", "encode_iri_indices", "encode_literal"]
# attribute name -> field name, per record type reached along a path from self
FIELDS = {
    "TermEnc": {"names": ("names", "LookupEnc"), "prefixes": ("prefixes", "LookupEnc"), "datatypes": ("datatypes", "LookupEnc"),
                "row_open": ("rowOpen", "Bool")},
    "LookupEnc": {"lookup": ("lookup", "Lookup"), "last_assigned_index": ("lastAssigned", "Nat"), "last_reused_index": ("lastReused", "Nat")},
    "Lookup": {"pinned": ("pinned", "Set"), "max_size": ("maxSize", "Nat"), "_evicting": ("evicting", "Bool")},
}


class EncMethod(Method):
    def __init__(self, fn: ast.FunctionDef):
        super().__init__("TermEncoder", fn, {}, {}, struct="Jelly.TermEnc", fields={}, name=f"TermEncoder.{fn.name}")
        self.aliases: dict[str, list[list[str]]] = {}   # local name -> list of attribute paths (a tuple of sub-objects)
        self.loopvar: dict[str, list[str]] = {}         # loop variable -> the path it stands for in this unrolled iteration
        self.msgs: dict[str, tuple[str, str, str]] = {}  # local holding a protobuf entry message -> (class, id term, value term)

    def infer_local_types(self) -> dict[str, str]:
        """Types of the locals, read off their assignments (no table of names: a renamed local must not break the translation)."""
        types: dict[str, str] = {}
        for p in [*self.fn.args.args[1:], *self.fn.args.kwonlyargs]:
            ann = ast.unparse(p.annotation) if p.annotation is not None else None
            types[p.arg] = {"str": "String", "int": "Nat", "str | None": "Option String"}.get(ann, "Nat")
        none_assigned = {node.targets[0].id for node in ast.walk(self.fn) if isinstance(node, ast.Assign) and len(node.targets) == 1
                         and isinstance(node.targets[0], ast.Name) and isinstance(node.value, ast.Constant) and node.value.value is None}

        def ty(v) -> str | None:
            if isinstance(v, ast.List):
                return "List Row"
            if isinstance(v, ast.Constant) and v.value is None:
                return None   # decided by the other assignments of the same local
            if isinstance(v, ast.Constant) and isinstance(v.value, str):
                return "String"
            if isinstance(v, ast.Name):
                return types.get(v.id)
            if isinstance(v, ast.Call) and isinstance(v.func, ast.Attribute) and v.func.attr == "encode_entry_index":
                return "Option Nat"
            return "Nat"

        for node in ast.walk(self.fn):
            if not isinstance(node, ast.Assign) or len(node.targets) != 1:
                continue
            tg, v = node.targets[0], node.value
            if isinstance(tg, ast.Tuple) and isinstance(v, ast.Call) and isinstance(v.func, ast.Name) and v.func.id == "split_iri":
                for el in tg.elts:
                    if isinstance(el, ast.Name):
                        types[el.id] = "String"
            elif isinstance(tg, ast.Name):
                t = ty(v)
                if t == "Nat" and tg.id in none_assigned:
                    t = "Option Nat"   # a local that is also assigned None
                if t is not None and not (types.get(tg.id, "").startswith("Option") and t == "Nat"):
                    types[tg.id] = t
        for node in ast.walk(self.fn):   # annotated locals holding a tuple of rows
            if isinstance(node, ast.AnnAssign) and isinstance(node.target, ast.Name) and isinstance(node.value, ast.Tuple):
                types[node.target.id] = "List Row"
        return types

    def params(self):
        a = self.fn.args
        if a.vararg or a.kwarg or a.posonlyargs or a.defaults:
            fail(self.fn, "parameter list")
        out = []
        self.msg_params: list[str] = []
        for p, d in [*((p, None) for p in a.args[1:]), *zip(a.kwonlyargs, a.kw_defaults)]:
            ann = ast.unparse(p.annotation) if p.annotation is not None else None
            if ann == "jelly.RdfLiteral":
                self.msg_params.append(p.arg)
                continue
            if ann in ("str", "int") and d is None:
                out.append((p.arg, {"str": "String", "int": "Nat"}[ann]))
            elif ann == "str | None" and isinstance(d, ast.Constant) and d.value is None:
                out.append((p.arg, "Option String"))
            else:
                fail(self.fn, f"parameter {p.arg}")
        self.ptypes = dict(out)
        return out

    def local_type(self, name: str) -> str:
        if hasattr(self, "ptypes") and name in self.ptypes:
            return self.ptypes[name]
        if not hasattr(self, "_ltypes"):
            self._ltypes = self.infer_local_types()
            for k, v in list(self._ltypes.items()):
                self._ltypes[RENAME.get(k, k)] = v
        return self._ltypes.get(name, "Nat")

    def assign_local(self, ind: int, name: str, term: str) -> None:
        name = RENAME.get(name, name)
        ty = self.local_type(name)
        if ty.startswith("Option") and term != "none" and "encode_entry_index" not in term:
            term = f"(some {term})"      # a plain value stored in a local that can also hold None
        if name in self.declared:
            self.emit(ind, f"{name} := {term}")
        else:
            self.declared.add(name)
            self.emit(ind, f"let mut {name} : {ty} := {term}")

    def predeclare_name(self, name: str, first_assignment) -> str | None:
        v = getattr(first_assignment, "value", None)
        if isinstance(v, ast.Call) and isinstance(v.func, ast.Attribute) and isinstance(v.func.value, ast.Name) and v.func.value.id == "jelly":
            return None   # a protobuf message kept symbolically (see stmt)
        tg = getattr(first_assignment, "targets", [None])[0]
        if isinstance(tg, ast.Tuple) and first_assignment in self.fn.body:
            return None   # unpacked at the top level of the function: declared there
        return RENAME.get(name, name)

    def opt_value(self, e) -> str:
        """a local known (by the enclosing `is not None` / truthiness test) to hold a value"""
        if isinstance(e, ast.Name) and self.local_type(RENAME.get(e.id, e.id)).startswith("Option"):
            return f"(← liftE (optGet {RENAME.get(e.id, e.id)}))"
        return self.atom(e)

    def row_of(self, row: ast.Call) -> str:
        if not (not row.args and len(row.keywords) == 1 and isinstance(row.keywords[0].value, ast.Name) and row.keywords[0].value.id in self.msgs):
            fail(row, "row")
        cls_, idt, val = self.msgs[row.keywords[0].value.id]
        ctor = ENTRY_ROWS.get((cls_, row.keywords[0].arg))
        if ctor is None:
            fail(row, f"{cls_} wrapped as `{row.keywords[0].arg}`")
        return f"Row.{ctor} {idt} {val}"

    def ret_value(self, v) -> str:
        if self.ret == "List Row × PLit":
            if len(self.msg_params) != 1:
                fail(v, "message parameter")
            return f"({self.expr(v)}, {self.msg_params[0]}__)"
        return super().ret_value(v)

    # -- attribute paths ----------------------------------------------------------------------
    def path_of(self, e) -> tuple[list[str], str] | None:
        """(Lean field path, type at the end) of an attribute chain rooted at self or at an unrolled loop variable."""
        chain = []
        while isinstance(e, ast.Attribute):
            chain.append(e.attr)
            e = e.value
        chain.reverse()
        if isinstance(e, ast.Name) and e.id == "self":
            path, ty = [], "TermEnc"
        elif isinstance(e, ast.Name) and e.id in self.loopvar:
            path, ty = list(self.loopvar[e.id][0]), self.loopvar[e.id][1]
        else:
            return None
        for a in chain:
            if ty not in FIELDS or a not in FIELDS[ty]:
                fail(e, f"unknown attribute {a} of {ty}")
            f, ty = FIELDS[ty][a]
            path.append(f)
        return path, ty

    def read_path(self, path: list[str]) -> str:
        return "(← get)." + ".".join(path)

    def set_path(self, ind: int, path: list[str], value: str) -> None:
        t = self.fresh()
        self.emit(ind, f"let {t} := {value}")
        inner = t
        for k in range(len(path) - 1, -1, -1):
            owner = "s" + "".join("." + p for p in path[:k])
            inner = f"{{ {owner} with {path[k]} := {inner} }}"
        self.emit(ind, f"modify fun s => {inner}")

    # -- expressions --------------------------------------------------------------------------
    def is_boolish(self, e) -> bool:
        p = self.path_of(e) if isinstance(e, ast.Attribute) else None
        if p is not None and p[1] == "Bool":
            return True
        if isinstance(e, ast.Call) and isinstance(e.func, ast.Name) and e.func.id == "any":
            return True
        return super().is_boolish(e)

    def cond(self, e) -> str:
        if isinstance(e, ast.Name) and self.local_type(RENAME.get(e.id, e.id)) == "Option String":
            return f"(optStrTruthy {RENAME.get(e.id, e.id)})"
        if isinstance(e, ast.Name) and self.local_type(RENAME.get(e.id, e.id)) == "Option Nat":
            return f"(optNatTruthy {RENAME.get(e.id, e.id)})"
        p = self.path_of(e) if isinstance(e, ast.Attribute) else None
        if p is not None and p[1] == "Set":
            return f"(setTruthy {self.read_path(p[0])})"
        return Method.cond(self, e)

    def expr(self, e) -> str:
        if isinstance(e, ast.Name) and e.id in RENAME:
            return RENAME[e.id]
        # options.SOME_STRING_CONSTANT
        if isinstance(e, ast.Attribute) and isinstance(e.value, ast.Name) and e.value.id == "options":
            from pyjelly import options as _o
            v = getattr(_o, e.attr, None)
            if isinstance(v, str):
                return '"' + v + '"'
            fail(e, "options attribute")
        # <Option String local> != <string>
        if isinstance(e, ast.Compare) and len(e.ops) == 1 and isinstance(e.ops[0], (ast.Eq, ast.NotEq)) and isinstance(e.left, ast.Name) \
                and self.local_type(e.left.id) == "Option String":
            sym = "==" if isinstance(e.ops[0], ast.Eq) else "!="
            return f"({e.left.id} {sym} some {self.atom(e.comparators[0])})"
        if isinstance(e, ast.Tuple) and not e.elts:
            return "([] : List Row)"
        if isinstance(e, ast.Tuple) and len(e.elts) == 1 and isinstance(e.elts[0], ast.Call) and ast.unparse(e.elts[0].func) == "jelly.RdfStreamRow":
            return "[" + self.row_of(e.elts[0]) + "]"
        if isinstance(e, ast.List) and not e.elts:
            return "([] : List Row)"
        if isinstance(e, ast.Tuple):
            return "(" + ", ".join(self.expr(x) for x in e.elts) + ")"
        # self.<sub-object>.<method>(args): a method of a translated lookup class, run on that sub-object
        if isinstance(e, ast.Call) and isinstance(e.func, ast.Attribute) and e.func.attr in LOOKUP_METHODS:
            p = self.path_of(e.func.value)
            if p is None or p[1] != "LookupEnc" or len(p[0]) != 1:
                fail(e, "lookup method on something that is not one of the three tables")
            f = p[0][0]
            args = " ".join(self.opt_value(a) for a in e.args)
            return f"(← zoom (·.{f}) (fun s v => {{ s with {f} := v }}) (LookupEncoder.{e.func.attr} {args}))"
        if isinstance(e, ast.Attribute):
            p = self.path_of(e)
            if p is None:
                fail(e, "attribute")
            return self.read_path(p[0])
        # any(x.attr for x in lookups) -> unrolled
        if isinstance(e, ast.Call) and isinstance(e.func, ast.Name) and e.func.id == "any" and len(e.args) == 1 \
                and isinstance(e.args[0], ast.GeneratorExp) and len(e.args[0].generators) == 1:
            g = e.args[0].generators[0]
            if g.ifs or not isinstance(g.target, ast.Name) or not isinstance(g.iter, ast.Name) or g.iter.id not in self.aliases:
                fail(e, "any() over something that is not a local tuple of sub-objects")
            parts = []
            for path in self.aliases[g.iter.id]:
                self.loopvar[g.target.id] = path
                parts.append(self.cond(e.args[0].elt))
            del self.loopvar[g.target.id]
            return "(" + " || ".join(parts) + ")"
        if isinstance(e, ast.Call) and isinstance(e.func, ast.Name) and e.func.id == "set" and not e.args and not e.keywords:
            return "(some [] : Option (List String))"
        return super().expr(e)

    # -- statements ---------------------------------------------------------------------------
    def stmt(self, ind: int, s: ast.stmt) -> None:
        # <message parameter>.<field> = value   (the protobuf message being filled in: a local record)
        if isinstance(s, ast.Assign) and len(s.targets) == 1 and isinstance(s.targets[0], ast.Attribute) and isinstance(s.targets[0].value, ast.Name) \
                and s.targets[0].value.id in getattr(self, "msg_params", []):
            m, fld = s.targets[0].value.id + "__", s.targets[0].attr
            if fld == "lex":
                self.emit(ind, f"{m} := {{ {m} with lex := {self.atom(s.value)} }}")
            elif fld == "langtag":
                self.emit(ind, f"{m} := PLit.setLang {m} {self.opt_value(s.value)}")
            elif fld == "datatype":
                self.emit(ind, f"{m} := PLit.setDt {m} {self.opt_value(s.value)}")
            else:
                fail(s, "field of the literal message")
            return
        if isinstance(s, ast.AnnAssign) and isinstance(s.target, ast.Name) and isinstance(s.value, ast.Tuple):
            self.assign_local(ind, s.target.id, self.expr(s.value))
            return
        # prefix, name = split_iri(iri_string)
        if isinstance(s, ast.Assign) and len(s.targets) == 1 and isinstance(s.targets[0], ast.Tuple) and len(s.targets[0].elts) == 2 \
                and isinstance(s.value, ast.Call) and isinstance(s.value.func, ast.Name) and s.value.func.id == "split_iri":
            t = self.fresh()
            self.emit(ind, f"let {t} := (← liftE (split_iri {self.args(s.value)}))")
            for el, proj in zip(s.targets[0].elts, (".1", ".2")):
                if not isinstance(el, ast.Name):
                    fail(s, "split_iri target")
                self.assign_local(ind, el.id, t + proj)
            return
        # x_entry = jelly.RdfXEntry(id=..., value=...): kept symbolically until it is wrapped in a row
        if isinstance(s, ast.Assign) and len(s.targets) == 1 and isinstance(s.targets[0], ast.Name) and isinstance(s.value, ast.Call) \
                and isinstance(s.value.func, ast.Attribute) and isinstance(s.value.func.value, ast.Name) and s.value.func.value.id == "jelly" \
                and s.value.func.attr in {k[0] for k in ENTRY_ROWS} and not s.value.args and sorted(k.arg for k in s.value.keywords) == ["id", "value"]:
            kw = {k.arg: k.value for k in s.value.keywords}
            self.msgs[s.targets[0].id] = (s.value.func.attr, self.opt_value(kw["id"]), self.opt_value(kw["value"]))
            return
        # rows.append(jelly.RdfStreamRow(<kind>=x_entry))
        if isinstance(s, ast.Expr) and isinstance(s.value, ast.Call) and isinstance(s.value.func, ast.Attribute) and s.value.func.attr == "append" \
                and isinstance(s.value.func.value, ast.Name) and self.local_type(s.value.func.value.id) == "List Row" and len(s.value.args) == 1:
            row = s.value.args[0]
            if not (isinstance(row, ast.Call) and ast.unparse(row.func) == "jelly.RdfStreamRow" and not row.args and len(row.keywords) == 1
                    and isinstance(row.keywords[0].value, ast.Name) and row.keywords[0].value.id in self.msgs):
                fail(s, "appended row")
            cls_, idt, val = self.msgs[row.keywords[0].value.id]
            ctor = ENTRY_ROWS.get((cls_, row.keywords[0].arg))
            if ctor is None:
                fail(s, f"{cls_} wrapped as `{row.keywords[0].arg}`")
            lst = s.value.func.value.id
            self.emit(ind, f"{lst} := {lst} ++ [Row.{ctor} {idt} {val}]")
            return
        # lookups = (self.names.lookup, self.prefixes.lookup, ...)
        if isinstance(s, ast.Assign) and len(s.targets) == 1 and isinstance(s.targets[0], ast.Name) and isinstance(s.value, ast.Tuple) \
                and all(self.path_of(x) is not None for x in s.value.elts):
            self.aliases[s.targets[0].id] = [self.path_of(x) for x in s.value.elts]
            return
        # for x in lookups: <body>  -> unrolled
        if isinstance(s, ast.For) and isinstance(s.target, ast.Name) and isinstance(s.iter, ast.Name) and s.iter.id in self.aliases and not s.orelse:
            for path in self.aliases[s.iter.id]:
                self.loopvar[s.target.id] = path
                for b in s.body:
                    self.stmt(ind, b)
            del self.loopvar[s.target.id]
            return
        # <path> = value
        if isinstance(s, ast.Assign) and len(s.targets) == 1 and isinstance(s.targets[0], ast.Attribute):
            p = self.path_of(s.targets[0])
            if p is None:
                fail(s, "assignment target")
            v = s.value
            if p[1] == "Set" and isinstance(v, ast.Constant) and v.value is None:
                val = "(none : Option (List String))"
            else:
                val = self.expr(v)
            self.set_path(ind, p[0], val)
            return
        super().stmt(ind, s)


_orig_render = EncMethod.render


def _render(self) -> str:
    text = _orig_render(self)
    if getattr(self, "msg_params", None):
        head, rest = text.split("\n", 1)
        decl = "".join(f"  let mut {m}__ : PLit := {{}}\n" for m in self.msg_params)
        text = head + "\n" + decl + rest
    return text


EncMethod.render = _render


def translate() -> str:
    tree = ast.parse((REPO / SRC).read_text())
    cd = next((n for n in tree.body if isinstance(n, ast.ClassDef) and n.name == "TermEncoder"), None)
    if cd is None:
        raise Unsupported(f"{SRC}: class TermEncoder not found")
    out = ["import JellyModel.PyPrelude", "import JellyModel.Encode", "import JellyGenerated.LookupGen", "import JellyGenerated.FuncsGen", "/-!",
           "# GENERATED — do not edit. Translated from pyjelly/serialize/encode.py (TermEncoder.start_row / end_row / encode_iri_indices) by",
           "harness/gen_translate_enc.py on every check run; `JellyProofs/TranslatedEnc.lean` proves them equal to the model's",
           "`TermEnc.beginRow` / `TermEnc.endRow`.", "-/", "set_option linter.unusedVariables false", "namespace Jelly.Gen", "open Jelly Jelly.Py", ""]
    for m in METHODS:
        fn = next((f for f in cd.body if isinstance(f, ast.FunctionDef) and f.name == m), None)
        if fn is None:
            raise Unsupported(f"{SRC}: TermEncoder.{m} not found")
        out.append(f"/-- `TermEncoder.{m}` ({SRC}:{fn.lineno}) -/")
        out.append(EncMethod(fn).render())
        out.append("")
    out.append("end Jelly.Gen")
    return "\n".join(out) + "\n"


def main() -> int:
    try:
        text = translate()
    except Unsupported as e:
        print(f"gen_translate_enc: source outside the translated fragment: {e}", file=sys.stderr)
        return 3
    except Exception as e:  # noqa: BLE001
        print(f"gen_translate_enc: source outside the translated fragment (translator error {type(e).__name__}: {e})", file=sys.stderr)
        return 3
    if OUT.exists() and OUT.read_text() == text:
        print("gen_translate_enc: unchanged")
    else:
        OUT.write_text(text)
        print("gen_translate_enc: written", OUT)
    return 0


if __name__ == "__main__":
    sys.exit(main())

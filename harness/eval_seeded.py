"""Self-test against seeded regressions (not a registered check).

  confirm <dir>            : in a scratch worktree outside /repo and /verif: the patch applies, the unedited
                             test suite still passes with it, the demonstration fails with it and passes without.
  run [<id> ...] [--all-props] [--tier T]
                           : for each seeded/<id>: git -C /repo apply patch.diff, run the check of the property it
                             breaks (and optionally every check), git -C /repo checkout -- . ; prints a table and
                             writes seeded/RESULTS.json.
"""
from __future__ import annotations

import json
import subprocess
import sys
import time
from pathlib import Path

VERIF = Path(__file__).resolve().parent.parent
SEEDED = VERIF / "seeded"
REPO = "/repo"
ALL = [f"C{i:02d}" for i in range(1, 21)]


def sh(cmd, cwd=None, timeout=3600):
    p = subprocess.run(cmd, cwd=cwd, capture_output=True, text=True, timeout=timeout, check=False)
    return p.returncode, p.stdout + p.stderr


def confirm(d: Path) -> dict:
    d = d.resolve()
    import os
    scratch = Path(os.environ.get("VERIF_CONFIRM_DIR", "/tmp/seeded_confirm"))
    sh(["git", "-C", REPO, "worktree", "remove", "--force", str(scratch)])
    rc, out = sh(["git", "-C", REPO, "worktree", "add", "--detach", str(scratch), "HEAD"])
    res = dict(dir=str(d))
    try:
        demo = (d / "demo.py").read_text()
        # demos were written against the author's worktree path: point them at the scratch worktree
        meta = json.loads((d / "meta.json").read_text()) if (d / "meta.json").exists() else {}
        orig = meta.get("author_worktree")
        if orig:
            demo = demo.replace(orig, str(scratch))
        (scratch / "_demo.py").write_text(demo)
        rc0, out0 = sh(["/venv/bin/python", "_demo.py"], cwd=scratch, timeout=600)
        res["demo_without"] = rc0
        rc, out = sh(["git", "apply", str(d / "patch.diff")], cwd=scratch)
        res["applies"] = rc == 0
        rc1, out1 = sh(["/venv/bin/python", "_demo.py"], cwd=scratch, timeout=600)
        res["demo_with"] = rc1
        res["demo_with_tail"] = out1[-300:]
        rc, out = sh(["/venv/bin/python", "-m", "pytest", "-q", "-p", "no:cacheprovider", "-x"], cwd=scratch, timeout=1200)
        res["suite"] = out.strip().split("\n")[-1][:120]
        res["ok"] = bool(res["applies"] and rc0 == 0 and rc1 != 0 and "487 passed" in res["suite"])
    finally:
        sh(["git", "-C", REPO, "worktree", "remove", "--force", str(scratch)])
    return res


def run(ids: list[str], all_props: bool, tier: str) -> None:
    results = {}
    dirs = sorted(p for p in SEEDED.iterdir() if p.is_dir() and (not ids or p.name in ids))
    rc, out = sh(["git", "-C", REPO, "status", "--porcelain"])
    if out.strip():
        raise SystemExit("/repo is not clean: " + out)
    for d in dirs:
        meta = json.loads((d / "meta.json").read_text())
        props = ALL if all_props else [meta["property"]] + meta.get("also_check", [])
        rc, out = sh(["git", "-C", REPO, "apply", str(d / "patch.diff")])
        if rc != 0:
            results[d.name] = dict(error="patch does not apply: " + out[-200:])
            continue
        row = {}
        try:
            for p in props:
                t0 = time.time()
                rc, out = sh([str(VERIF / "check"), p, "--tier", tier], cwd=VERIF, timeout=3600)
                viol = [ln for ln in out.split("\n") if ln.startswith("VIOLATION")]
                row[p] = dict(exit=rc, violation=viol[0] if viol else None, s=round(time.time() - t0, 1))
        finally:
            sh(["git", "-C", REPO, "checkout", "--", "."])
        caught = [p for p, v in row.items() if v["exit"] == 1]
        results[d.name] = dict(property=meta["property"], caught_by=caught, detail=row)
        print(f"{d.name:28s} breaks {meta['property']}  caught_by={caught}  "
              + " ".join(f"{p}:{v['exit']}{'(nfi)' if v['violation'] and 'no-failing' in v['violation'] else ''}" for p, v in row.items()))
    # leave the generated tables in the state of the unchanged tree
    sh(["/venv/bin/python", str(VERIF / "harness" / "gen_tables.py")], cwd=VERIF / "harness")
    out = SEEDED / "RESULTS.json"
    merged = json.loads(out.read_text()) if out.exists() else {}
    for k, v in results.items():
        if k in merged and "detail" in merged[k] and "detail" in v:
            merged[k]["detail"].update(v["detail"])
            merged[k]["caught_by"] = sorted(p for p, x in merged[k]["detail"].items() if x["exit"] == 1)
        else:
            merged[k] = v
    out.write_text(json.dumps(merged, indent=1))


if __name__ == "__main__":
    if len(sys.argv) >= 3 and sys.argv[1] == "confirm":
        print(json.dumps(confirm(Path(sys.argv[2])), indent=1))
    elif len(sys.argv) >= 2 and sys.argv[1] == "run":
        args = sys.argv[2:]
        tier = "quick"
        if "--tier" in args:
            tier = args[args.index("--tier") + 1]
            args = [a for a in args if a not in ("--tier", tier)]
        run([a for a in args if not a.startswith("--")], "--all-props" in args, tier)
    else:
        print(__doc__)

"""Translator: pyjelly's lookup classes (Python source) -> Lean definitions, regenerated on every run.

    pyjelly/serialize/lookup.py : Lookup, LookupEncoder
    pyjelly/parse/lookup.py     : LookupDecoder
 -> lean/JellyGenerated/LookupGen.lean   (namespace Jelly.Gen)

The translation is syntax-directed (Python `ast`), statement by statement, into the monad of
`JellyModel/PyPrelude.lean` (attributes = state, exceptions keep the state reached). The attribute
records are the model's own structures (`Jelly.Lookup`, `Jelly.LookupEnc`, `Jelly.LookupDec`), so that
`JellyProofs/Translated.lean` can prove every generated method EQUAL to the hand-written model function the
property theorems are about. A change to these sources therefore changes the generated definitions, and the
kernel re-checks the equalities against what the code says now.

The accepted fragment is deliberately small; anything outside it makes the translator fail loudly
(exit 3), which the checks treat as a broken tie (never as a pass): see DESIGN.md §3.4.
"""
from __future__ import annotations

import ast
import sys
from pathlib import Path

import common  # noqa: F401  (puts the repo first on sys.path, asserts the import location)

REPO = Path(common.REPO)
OUT = Path(__file__).resolve().parent.parent / "lean" / "JellyGenerated" / "LookupGen.lean"

# Python attribute -> field of the model structure (the record the generated code runs on)
CLASSES = {
    "Lookup": dict(struct="Jelly.Lookup", fields={"data": "data", "max_size": "maxSize", "_evicting": "evicting", "pinned": "pinned"}),
    "LookupEncoder": dict(struct="Jelly.LookupEnc", fields={"lookup": "lookup", "last_assigned_index": "lastAssigned",
                                                           "last_reused_index": "lastReused"}),
    "LookupDecoder": dict(struct="Jelly.LookupDec", fields={"lookup_size": "size", "data": "data",
                                                           "last_assigned_index": "lastAssigned", "last_reused_index": "lastReused"}),
}
SOURCES = [("pyjelly/serialize/lookup.py", ["Lookup", "LookupEncoder"]), ("pyjelly/parse/lookup.py", ["LookupDecoder"])]
SKIP_METHODS = {"__repr__"}
ERRORS = {"IndexError": "indexError", "KeyError": "keyError", "JellyConformanceError": "conformance",
          "JellyAssertionError": "jassertion", "ValueError": "valueError", "TypeError": "typeError",
          "AssertionError": "assertionError", "NotImplementedError": "notImplemented"}
TYPES = {"int": "Nat", "str": "String", "bool": "Bool", "None": "Unit", "int | None": "Option Nat", "str | None": "Option String",
         "jelly.RdfStreamFrame | None": "Option Frame"}
# locals whose type is not Nat
LOCAL_TYPES: dict = {}


class Unsupported(Exception):
    pass


def fail(node, why):
    raise Unsupported(f"line {getattr(node, 'lineno', '?')}: {why}: {ast.unparse(node)[:120]}")


class Method:
    def __init__(self, cls: str, fn: ast.FunctionDef, kinds: dict[str, str], consts: dict[str, int], struct: str | None = None,
                 fields: dict[str, str] | None = None, name: str | None = None):
        self.cls, self.fn, self.kinds, self.consts = cls, fn, kinds, consts
        self.fields = fields if fields is not None else CLASSES[cls]["fields"]
        self.struct = struct if struct is not None else CLASSES[cls]["struct"]
        self.name = name or f"{cls}.{fn.name}"
        self.lines: list[str] = []
        self.tmp = 0
        self.declared: set[str] = set()
        ann = ast.unparse(fn.returns) if fn.returns is not None else "None"
        if ann not in TYPES:
            fail(fn, f"return annotation {ann}")
        self.ret = TYPES[ann]
        self.opt_params: set[str] = set()

    # -- helpers ------------------------------------------------------------------------------
    def fresh(self) -> str:
        self.tmp += 1
        return f"t{self.tmp}__"

    def local_type(self, name: str) -> str:
        """Type of a local, read off its assignments: a value fetched from a deque attribute is a `str | None`."""
        if not hasattr(self, "_inferred"):
            self._inferred = {}
            for node in ast.walk(self.fn):
                if isinstance(node, ast.Assign) and len(node.targets) == 1 and isinstance(node.targets[0], ast.Name) \
                        and isinstance(node.value, ast.Subscript) and self.kind_of(node.value.value) == "deque":
                    self._inferred[node.targets[0].id] = "Option String"
        return self._inferred.get(name) or LOCAL_TYPES.get((self.cls, self.fn.name, name), "Nat")

    def field(self, attr: str, node) -> str:
        if attr not in self.fields:
            fail(node, f"unknown attribute {attr}")
        return self.fields[attr]

    def is_self_attr(self, e) -> str | None:
        if isinstance(e, ast.Attribute) and isinstance(e.value, ast.Name) and e.value.id == "self":
            return e.attr
        return None

    def sub_attr(self, e):
        """self.<obj>.<attr> where <obj> holds an instance of a translated class -> (obj, class, attr)"""
        if isinstance(e, ast.Attribute) and (o := self.is_self_attr(e.value)) and self.kinds.get(f"{self.cls}.{o}", "").startswith("obj:"):
            return o, self.kinds[f"{self.cls}.{o}"][4:], e.attr
        return None

    def kind_of(self, e) -> str | None:
        if (a := self.is_self_attr(e)) is not None:
            return self.kinds.get(f"{self.cls}.{a}")
        if (s := self.sub_attr(e)) is not None:
            return self.kinds.get(f"{s[1]}.{s[2]}")
        return None

    def read(self, e) -> str:
        """Lean term reading self.a or self.o.a"""
        if (a := self.is_self_attr(e)) is not None:
            return f"(← get).{self.field(a, e)}"
        if (s := self.sub_attr(e)) is not None:
            o, c, a = s
            if a not in CLASSES[c]["fields"]:
                fail(e, "unknown attribute")
            return f"(← get).{self.field(o, e)}.{CLASSES[c]['fields'][a]}"
        fail(e, "not an attribute of self")

    # -- expressions --------------------------------------------------------------------------
    def is_boolish(self, e) -> bool:
        return isinstance(e, (ast.Compare, ast.BoolOp)) or (isinstance(e, ast.UnaryOp) and isinstance(e.op, ast.Not)) \
            or (isinstance(e, ast.Constant) and isinstance(e.value, bool))

    def cond(self, e) -> str:
        return self.expr(e) if self.is_boolish(e) else f"truthy ({self.expr(e)})"

    def expr(self, e) -> str:  # noqa: C901, PLR0911, PLR0912
        if isinstance(e, ast.Constant):
            if e.value is None:
                return "none"
            if isinstance(e.value, bool):
                return "true" if e.value else "false"
            if isinstance(e.value, int):
                return str(e.value)
            if isinstance(e.value, str):
                return '"' + e.value.replace("\\", "\\\\").replace('"', '\\"') + '"'
            fail(e, "constant")
        if isinstance(e, ast.Name):
            if e.id in self.consts:
                return str(self.consts[e.id])
            return e.id
        if isinstance(e, ast.Attribute):
            return self.read(e)
        if isinstance(e, ast.BinOp):
            if isinstance(e.op, ast.Add):
                return f"({self.expr(e.left)} + {self.expr(e.right)})"
            if isinstance(e.op, ast.Sub):
                return f"(← liftE (natSub {self.atom(e.left)} {self.atom(e.right)}))"
            if isinstance(e.op, ast.Mult) and isinstance(e.left, ast.Tuple) and len(e.left.elts) == 1 \
                    and isinstance(e.left.elts[0], ast.Constant) and e.left.elts[0].value is None:
                return f"(List.replicate {self.atom(e.right)} (none : Option String))"
            fail(e, "operator")
        if isinstance(e, ast.UnaryOp) and isinstance(e.op, ast.Not):
            return f"(!({self.cond(e.operand)}))"
        if isinstance(e, ast.BoolOp):
            parts = e.values
            if isinstance(e.op, ast.Or):
                if all(self.is_boolish(p) for p in parts):
                    return "(" + " || ".join(self.cond(p) for p in parts) + ")"
                out = self.expr(parts[-1])
                for p in reversed(parts[:-1]):
                    rhs = out
                    if "←" in rhs.replace("(← get)", ""):
                        fail(e, "effectful right operand of `or`")
                    out = f"(pyOr {self.atom(p)} {rhs})"
                return out
            # and: short-circuit; an operand that can raise must not be evaluated early
            out = self.cond(parts[-1])
            for p in reversed(parts[:-1]):
                if "←" in out.replace("(← get)", ""):
                    out = f"(← (do if {self.cond(p)} then (do pure ({out})) else pure false))"
                else:
                    out = f"({self.cond(p)} && {out})"
            return out
        if isinstance(e, ast.Compare):
            if len(e.ops) != 1:
                fail(e, "chained comparison")
            op, l, r = e.ops[0], e.left, e.comparators[0]
            if isinstance(op, (ast.Is, ast.IsNot)) and isinstance(r, ast.Constant) and r.value is None:
                return f"({self.atom(l)}).{'isNone' if isinstance(op, ast.Is) else 'isSome'}"
            if isinstance(op, (ast.In, ast.NotIn)):
                k = self.kind_of(r)
                if k == "od":
                    t = f"(odContains {self.read(r)} {self.atom(l)})"
                elif k == "set":
                    t = f"(← liftE (setContains {self.read(r)} {self.atom(l)}))"
                else:
                    fail(e, "membership in an unknown container")
                return t if isinstance(op, ast.In) else f"(!{t})"
            sym = {ast.Eq: "==", ast.NotEq: "!=", ast.Gt: ">", ast.Lt: "<", ast.GtE: "≥", ast.LtE: "≤"}.get(type(op))
            if sym is None:
                fail(e, "comparison")
            if sym in ("==", "!="):
                return f"({self.atom(l)} {sym} {self.atom(r)})"
            return f"(decide ({self.atom(l)} {sym} {self.atom(r)}))"
        if isinstance(e, ast.Subscript):
            k = self.kind_of(e.value)
            if k == "od":
                return f"(← liftE (odGet {self.read(e.value)} {self.atom(e.slice)}))"
            if k == "deque":
                return f"(← liftE (dqGet {self.read(e.value)} {self.atom(e.slice)}))"
            fail(e, "subscript of an unknown container")
        if isinstance(e, ast.Call):
            return self.call(e, as_stmt=False)
        fail(e, "expression")

    def atom(self, e) -> str:
        s = self.expr(e)
        return s if s.startswith("(") or s.replace("_", "").isalnum() else f"({s})"

    def args(self, c: ast.Call) -> str:
        return " ".join(self.atom(a) for a in [*c.args, *(k.value for k in c.keywords)])

    def call(self, c: ast.Call, as_stmt: bool) -> str:  # noqa: C901, PLR0911
        f = c.func
        if isinstance(f, ast.Name):
            if f.id == "len" and len(c.args) == 1 and self.kind_of(c.args[0]) in ("od", "deque"):
                return f"{self.read(c.args[0])}.length"
            if f.id == "next" and len(c.args) == 1 and isinstance(c.args[0], ast.Call) and isinstance(c.args[0].func, ast.Name) \
                    and c.args[0].func.id == "iter" and self.kind_of(c.args[0].args[0]) == "od":
                return f"(← liftE (odFirstKey {self.read(c.args[0].args[0])}))"
            if f.id == "deque" and len(c.args) == 1 and [k.arg for k in c.keywords] == ["maxlen"]:
                return f"(dqNew {self.atom(c.args[0])} {self.atom(c.keywords[0].value)})"
            if f.id in CLASSES:
                return f"(← liftE (construct ({f.id}.__init__ {self.args(c)})))"
            fail(c, "call")
        if isinstance(f, ast.Subscript) and isinstance(f.value, ast.Name) and f.value.id == "OrderedDict" and not c.args:
            return "([] : OD)"
        if isinstance(f, ast.Attribute):
            # self.method(...)
            if isinstance(f.value, ast.Name) and f.value.id == "self":
                return f"(← {self.cls}.{f.attr} {self.args(c)})"
            # self.obj.method(...)
            if (o := self.is_self_attr(f.value)) is not None and self.kinds.get(f"{self.cls}.{o}", "").startswith("obj:"):
                oc = self.kinds[f"{self.cls}.{o}"][4:]
                fl = self.field(o, c)
                return f"(← zoom (·.{fl}) (fun s v => {{ s with {fl} := v }}) ({oc}.{f.attr} {self.args(c)}))"
        fail(c, "call")

    # -- statements ---------------------------------------------------------------------------
    def emit(self, ind: int, s: str) -> None:
        self.lines.append("  " * ind + s)

    def assign_attr(self, ind: int, target: ast.Attribute, value_term: str) -> None:
        a = self.is_self_attr(target)
        if a is None:
            fail(target, "assignment target")
        t = self.fresh()
        self.emit(ind, f"let {t} := {value_term}")
        self.emit(ind, f"modify fun s => {{ s with {self.field(a, target)} := {t} }}")

    def assign_local(self, ind: int, name: str, term: str) -> None:
        if name in self.declared:
            self.emit(ind, f"{name} := {term}")
        else:
            self.declared.add(name)
            self.emit(ind, f"let mut {name} := {term}")

    def stmt(self, ind: int, s: ast.stmt) -> None:  # noqa: C901, PLR0912, PLR0915
        if isinstance(s, ast.Expr):
            if isinstance(s.value, ast.Constant) and isinstance(s.value.value, str):
                return  # docstring
            if isinstance(s.value, ast.Call) and isinstance(s.value.func, ast.Attribute):
                f = s.value.func
                k = self.kind_of(f.value)
                if k == "od" and f.attr == "move_to_end" and len(s.value.args) == 1:
                    a = self.is_self_attr(f.value)
                    t = self.fresh()
                    self.emit(ind, f"let {t} := (← liftE (odMoveToEnd {self.read(f.value)} {self.atom(s.value.args[0])}))")
                    self.emit(ind, f"modify fun s => {{ s with {self.field(a, s)} := {t} }}")
                    return
                if k == "set" and f.attr == "add" and len(s.value.args) == 1:
                    a = self.is_self_attr(f.value)
                    t = self.fresh()
                    self.emit(ind, f"let {t} := (← liftE (setAdd {self.read(f.value)} {self.atom(s.value.args[0])}))")
                    self.emit(ind, f"modify fun s => {{ s with {self.field(a, s)} := {t} }}")
                    return
                t = self.call(s.value, as_stmt=True)
                self.emit(ind, f"let _ := {t}")
                return
            fail(s, "expression statement")
        if isinstance(s, ast.AnnAssign):
            if s.value is None:
                return
            s = ast.Assign(targets=[s.target], value=s.value, lineno=s.lineno)
        if isinstance(s, ast.Assign):
            if len(s.targets) != 1:
                fail(s, "multiple targets")
            tg = s.targets[0]
            if isinstance(tg, ast.Name) and tg.id == "msg":
                return  # exception text: not part of the behaviour compared
            # `_, index = self.data.popitem(last=False)`
            if isinstance(tg, ast.Tuple) and isinstance(s.value, ast.Call) and isinstance(s.value.func, ast.Attribute) \
                    and s.value.func.attr == "popitem" and self.kind_of(s.value.func.value) == "od" \
                    and [(k.arg, getattr(k.value, "value", None)) for k in s.value.keywords] == [("last", False)] and len(tg.elts) == 2:
                a = self.is_self_attr(s.value.func.value)
                t = self.fresh()
                self.emit(ind, f"let {t} := (← liftE (odPopFirst {self.read(s.value.func.value)}))")
                self.emit(ind, f"modify fun s => {{ s with {self.field(a, s)} := {t}.2 }}")
                for el, proj in zip(tg.elts, (".1.1", ".1.2")):
                    if isinstance(el, ast.Name) and el.id != "_":
                        self.assign_local(ind, el.id, t + proj)
                return
            if isinstance(tg, ast.Name):
                self.assign_local(ind, tg.id, self.expr(s.value))
                return
            if isinstance(tg, ast.Attribute):
                self.assign_attr(ind, tg, self.expr(s.value))
                return
            if isinstance(tg, ast.Subscript):
                k = self.kind_of(tg.value)
                a = self.is_self_attr(tg.value)
                if a is None:
                    fail(s, "subscript store")
                t = self.fresh()
                if k == "od":
                    self.emit(ind, f"let {t} := odSet {self.read(tg.value)} {self.atom(tg.slice)} {self.atom(s.value)}")
                elif k == "deque":
                    self.emit(ind, f"let {t} := (← liftE (dqSet {self.read(tg.value)} {self.atom(tg.slice)} (some {self.atom(s.value)})))")
                else:
                    fail(s, "subscript store into an unknown container")
                self.emit(ind, f"modify fun s => {{ s with {self.field(a, s)} := {t} }}")
                return
            fail(s, "assignment")
        if isinstance(s, ast.If):
            self.emit(ind, f"if {self.cond(s.test)} then")
            self.block(ind + 1, s.body)
            if s.orelse:
                self.emit(ind, "else")
                self.block(ind + 1, s.orelse)
            return
        if isinstance(s, ast.Return):
            self.emit(ind, "return " + self.ret_value(s.value))
            return
        if isinstance(s, ast.Raise):
            exc = s.exc.func.id if isinstance(s.exc, ast.Call) and isinstance(s.exc.func, ast.Name) else getattr(s.exc, "id", None)
            if exc not in ERRORS:
                fail(s, "raise")
            self.emit(ind, f"throw PyErr.{ERRORS[exc]}")
            return
        if isinstance(s, ast.Assert):
            self.emit(ind, f"pyAssert {self.atom(s.test) if self.is_boolish(s.test) else '(' + self.cond(s.test) + ')'}")
            return
        if isinstance(s, ast.Try):
            if s.finalbody or s.orelse or len(s.handlers) != 1 or not isinstance(s.handlers[0].type, ast.Name) \
                    or s.handlers[0].type.id not in ERRORS or s.handlers[0].name:
                fail(s, "try statement")
            self.emit(ind, "try")
            self.block(ind + 1, s.body)
            self.emit(ind, "catch e__ =>")
            self.emit(ind + 1, f"if e__ == PyErr.{ERRORS[s.handlers[0].type.id]} then")
            self.block(ind + 2, s.handlers[0].body)
            self.emit(ind + 1, "else")
            self.emit(ind + 2, "throw e__")
            return
        if isinstance(s, ast.Pass):
            self.emit(ind, "pure ()")
            return
        fail(s, "statement")

    def ret_value(self, v) -> str:
        if self.ret == "Unit":
            if v is not None and not (isinstance(v, ast.Constant) and v.value is None):
                fail(v, "value returned from a -> None method")
            return "()"
        if v is None or (isinstance(v, ast.Constant) and v.value is None):
            if not self.ret.startswith("Option"):
                fail(v, "None returned from a non-optional method")
            return "none"
        t = self.expr(v)
        opt_local = isinstance(v, ast.Name) and self.local_type(v.id).startswith("Option")
        if self.ret.startswith("Option"):
            return t if opt_local else f"(some {t})"
        if opt_local:
            return f"(← liftE (optGet {t}))"
        return t

    def block(self, ind: int, body: list[ast.stmt]) -> None:
        n = len(self.lines)
        for s in body:
            self.stmt(ind, s)
        if len(self.lines) == n:
            self.emit(ind, "pure ()")

    # -- whole method -------------------------------------------------------------------------
    def params(self) -> list[tuple[str, str]]:
        fn = self.fn
        params = []
        a = fn.args
        if a.vararg or a.kwarg or a.posonlyargs or a.defaults or any(d is not None for d in a.kw_defaults):
            fail(fn, "parameter list")
        for p in [*a.args[1:], *a.kwonlyargs]:
            ann = ast.unparse(p.annotation) if p.annotation is not None else None
            if ann not in ("int", "str"):
                fail(fn, f"parameter annotation of {p.arg}")
            params.append((p.arg, TYPES[ann]))
        return params

    def predeclare_name(self, name: str, first_assignment: ast.AST) -> str | None:
        """hook: the Lean name under which a local assigned inside a nested block is pre-declared (None: not a Lean local)"""
        return name

    def render(self) -> str:
        fn = self.fn
        params = self.params()
        assigned = {}
        for node in ast.walk(fn):
            if isinstance(node, ast.Assign):
                for t in node.targets:
                    for el in (t.elts if isinstance(t, ast.Tuple) else [t]):
                        if isinstance(el, ast.Name) and el.id not in ("msg", "_"):
                            assigned.setdefault(el.id, node)
        top_level = {t.id for s in fn.body if isinstance(s, ast.Assign) for t in s.targets if isinstance(t, ast.Name)}
        head = f"def {self.name} " + " ".join(f"({n} : {t})" for n, t in params) + f"{' ' if params else ''}: M {self.struct} {'(' + self.ret + ')' if ' ' in self.ret else self.ret} := do"
        self.lines = [head]
        for n, _t in params:
            if n in assigned:  # a parameter that is assigned to: shadow it by a mutable local
                self.emit(1, f"let mut {n} := {n}")
                self.declared.add(n)
        for n in assigned:
            n = self.predeclare_name(n, assigned[n])
            if n is not None and n not in self.declared and n not in top_level:
                self.emit(1, f"let mut {n} : {self.local_type(n)} := default")
                self.declared.add(n)
        self.block(1, fn.body)
        return "\n".join(self.lines)


def module_constants() -> dict[str, int]:
    tree = ast.parse((REPO / "pyjelly/options.py").read_text())
    out = {}
    for node in tree.body:
        tgt = val = None
        if isinstance(node, ast.AnnAssign) and isinstance(node.target, ast.Name):
            tgt, val = node.target.id, node.value
        elif isinstance(node, ast.Assign) and len(node.targets) == 1 and isinstance(node.targets[0], ast.Name):
            tgt, val = node.targets[0].id, node.value
        if tgt and isinstance(val, ast.Constant) and isinstance(val.value, int) and not isinstance(val.value, bool):
            out[tgt] = val.value
    return out


def attribute_kinds(classes: dict[str, ast.ClassDef]) -> dict[str, str]:
    """What each attribute holds, read off the constructors: od / set / deque / obj:<Class>."""
    kinds = {}
    for cname, cd in classes.items():
        init = next(f for f in cd.body if isinstance(f, ast.FunctionDef) and f.name == "__init__")
        for node in ast.walk(init):
            tgt = val = ann = None
            if isinstance(node, ast.Assign) and len(node.targets) == 1:
                tgt, val = node.targets[0], node.value
            elif isinstance(node, ast.AnnAssign):
                tgt, val, ann = node.target, node.value, ast.unparse(node.annotation)
            if not (isinstance(tgt, ast.Attribute) and isinstance(tgt.value, ast.Name) and tgt.value.id == "self"):
                continue
            key = f"{cname}.{tgt.attr}"
            src = ast.unparse(val) if val is not None else ""
            if src.startswith("OrderedDict["):
                kinds[key] = "od"
            elif src.startswith("deque("):
                kinds[key] = "deque"
            elif ann and ann.startswith("set[str]"):
                kinds[key] = "set"
            elif isinstance(val, ast.Call) and isinstance(val.func, ast.Name) and val.func.id in CLASSES:
                kinds[key] = "obj:" + val.func.id
    return kinds


def translate() -> str:
    consts = module_constants()
    classes: dict[str, ast.ClassDef] = {}
    for rel, names in SOURCES:
        tree = ast.parse((REPO / rel).read_text())
        for node in tree.body:
            if isinstance(node, ast.ClassDef) and node.name in names:
                classes[node.name] = node
        missing = [n for n in names if n not in classes]
        if missing:
            raise Unsupported(f"{rel}: class {missing} not found")
    kinds = attribute_kinds(classes)
    out = ["import JellyModel.PyPrelude", "/-!",
           "# GENERATED — do not edit. Translated from pyjelly/serialize/lookup.py and pyjelly/parse/lookup.py by",
           "harness/gen_translate.py on every check run; `JellyProofs/Translated.lean` proves each definition equal to the",
           "hand-written model function.", "-/", "set_option linter.unusedVariables false", "namespace Jelly.Gen", "open Jelly Jelly.Py", ""]
    for cname in [n for _, ns in SOURCES for n in ns]:
        cd = classes[cname]
        for item in cd.body:
            if isinstance(item, ast.FunctionDef):
                if item.name in SKIP_METHODS:
                    continue
                out.append(f"/-- `{cname}.{item.name}` ({next(r for r, ns in SOURCES if cname in ns)}:{item.lineno}) -/")
                out.append(Method(cname, item, kinds, consts).render())
                out.append("")
            elif isinstance(item, (ast.AnnAssign, ast.Expr)):
                continue  # dataclass field declarations, docstring
            else:
                fail(item, f"class body of {cname}")
    out.append("end Jelly.Gen")
    return "\n".join(out) + "\n"


def main() -> int:
    try:
        text = translate()
    except Unsupported as e:
        print(f"gen_translate: source outside the translated fragment: {e}", file=sys.stderr)
        return 3
    except Exception as e:  # noqa: BLE001  (an AST shape the translator does not know: the same verdict, never a pass)
        print(f"gen_translate: source outside the translated fragment (translator error {type(e).__name__}: {e})", file=sys.stderr)
        return 3
    if OUT.exists() and OUT.read_text() == text:
        print("gen_translate: unchanged")
    else:
        OUT.write_text(text)
        print("gen_translate: written", OUT)
    return 0


if __name__ == "__main__":
    sys.exit(main())

"""Translator, part 3: module-level pure functions -> lean/JellyGenerated/FuncsGen.lean.

    pyjelly/parse/ioutils.py     : delimited_jelly_hint(header: bytes) -> bool
    pyjelly/serialize/encode.py  : split_iri(iri_string: str) -> tuple[str, str]

Both are translated with the statement translation of gen_translate.Method into the exception monad `Except PyErr`
(`bytes` = `List UInt8`, indexing raises IndexError; `str.rpartition` is the prelude's `rpartition`; a `for` over a literal
tuple is unrolled). `JellyProofs/TranslatedFuncs.lean` proves `delimited_jelly_hint` equal to the model's `delimitedHint` for
EVERY byte string (not only the tabulated headers) and `split_iri` equal to the model's `splitIri` for every string.
"""
from __future__ import annotations

import ast
import sys
from pathlib import Path

import common  # noqa: F401
import gen_translate as gt
from gen_translate import Method, Unsupported, fail

REPO = Path(common.REPO)
OUT = Path(__file__).resolve().parent.parent / "lean" / "JellyGenerated" / "FuncsGen.lean"
FUNCS = [("pyjelly/parse/ioutils.py", "delimited_jelly_hint"), ("pyjelly/serialize/encode.py", "split_iri")]
PTYPES = {"bytes": "Bytes", "str": "String", "int": "Nat", "jelly.PhysicalStreamType": "Nat", "jelly.LogicalStreamType": "Nat", "bool": "Bool"}
RTYPES = {"bool": "Bool", "tuple[str, str]": "String × String", "int": "Nat", "str": "String", "None": "Unit"}


class Func(Method):
    def __init__(self, fn: ast.FunctionDef, name: str | None = None, self_attrs: dict[str, str] | None = None, ret: str | None = None,
                 module_consts: dict[str, object] | None = None):
        ann = ret or (ast.unparse(fn.returns) if fn.returns is not None else None)
        if ann not in RTYPES:
            fail(fn, f"return annotation {ann}")
        gt.TYPES.setdefault(ann, RTYPES[ann])
        fn = ast.FunctionDef(name=fn.name, args=fn.args, body=fn.body, decorator_list=[], returns=ast.parse(ann, mode="eval").body,
                             lineno=fn.lineno, col_offset=0) if ret else fn
        super().__init__("<module>", fn, {}, {}, struct="Unit", fields={}, name=name or fn.name)
        self.ptypes: dict[str, str] = {}
        self.self_attrs = self_attrs or {}      # attribute of self -> Lean type: passed in as parameters
        self.module_consts = module_consts or {}  # NAME -> int | list[int]

    def params(self):
        a = self.fn.args
        if a.vararg or a.kwarg or a.posonlyargs or a.defaults or a.kwonlyargs:
            fail(self.fn, "parameter list")
        out = []
        for attr, ty in self.self_attrs.items():
            self.ptypes[attr] = ty
            out.append((attr, ty))
        for p in a.args:
            if p.arg == "self":
                continue
            ann = ast.unparse(p.annotation) if p.annotation is not None else None
            if ann not in PTYPES:
                fail(self.fn, f"parameter annotation of {p.arg}")
            self.ptypes[p.arg] = PTYPES[ann]
            out.append((p.arg, PTYPES[ann]))
        return out

    RENAME = {"prefix": "prefix_", "end": "end_", "at": "at_", "from": "from_", "match": "match_", "fun": "fun_", "then": "then_"}

    def local_type(self, name: str) -> str:
        """String for locals that receive a part of rpartition(), a str parameter or a str literal; Nat otherwise."""
        if not hasattr(self, "_strs"):
            self._strs = set()
            str_params = {p.arg for p in self.fn.args.args if p.annotation is not None and ast.unparse(p.annotation) == "str"}
            for node in ast.walk(self.fn):
                if not isinstance(node, ast.Assign) or len(node.targets) != 1:
                    continue
                tg, v = node.targets[0], node.value
                if isinstance(tg, ast.Tuple) and isinstance(v, ast.Call) and isinstance(v.func, ast.Attribute) and v.func.attr == "rpartition":
                    self._strs |= {self.RENAME.get(el.id, el.id) for el in tg.elts if isinstance(el, ast.Name)}
                elif isinstance(tg, ast.Name) and ((isinstance(v, ast.Name) and v.id in str_params) or (isinstance(v, ast.Constant) and isinstance(v.value, str))):
                    self._strs.add(self.RENAME.get(tg.id, tg.id))
        return "String" if name in self._strs else "Nat"

    def assign_local(self, ind: int, name: str, term: str) -> None:
        super().assign_local(ind, self.RENAME.get(name, name), term)

    def type_of(self, e) -> str | None:
        if isinstance(e, ast.Name):
            n = self.RENAME.get(e.id, e.id)
            return self.ptypes.get(e.id) or ("String" if n in self.declared and self.local_type(n) == "String" else None)
        return None

    def is_boolish(self, e) -> bool:
        if isinstance(e, ast.Name) and self.ptypes.get(e.id) == "Bool":
            return True
        if isinstance(e, ast.Attribute) and isinstance(e.value, ast.Name) and e.value.id == "self" and self.self_attrs.get(e.attr) == "Bool":
            return True
        if isinstance(e, ast.Name) and e.id in self.bool_locals:
            return True
        return super().is_boolish(e)

    bool_locals: set = set()

    def cond(self, e) -> str:
        if isinstance(e, ast.Name) and self.type_of(e) == "String":
            return f"({self.RENAME.get(e.id, e.id)} != \"\")"
        return super().cond(e)

    def expr(self, e) -> str:
        if isinstance(e, ast.Name) and e.id in self.RENAME:
            return self.RENAME[e.id]
        # self.attr -> the parameter of that name
        if isinstance(e, ast.Attribute) and isinstance(e.value, ast.Name) and e.value.id == "self" and e.attr in self.self_attrs:
            return e.attr
        # jelly.SOME_ENUM_CONSTANT -> its number in the generated protobuf module
        if isinstance(e, ast.Attribute) and isinstance(e.value, ast.Name) and e.value.id == "jelly":
            from pyjelly import jelly
            v = getattr(jelly, e.attr, None)
            if isinstance(v, int):
                return str(int(v))
            fail(e, "jelly attribute")
        if isinstance(e, ast.Name) and isinstance(self.module_consts.get(e.id), int):
            return str(self.module_consts[e.id])
        # x in CONSTANT_SET / x in (a, b)
        if isinstance(e, ast.Compare) and len(e.ops) == 1 and isinstance(e.ops[0], (ast.In, ast.NotIn)):
            r = e.comparators[0]
            if isinstance(r, ast.Name) and isinstance(self.module_consts.get(r.id), list):
                items = [str(x) for x in self.module_consts[r.id]]
            elif isinstance(r, (ast.Tuple, ast.Set, ast.List)):
                items = [self.expr(x) for x in r.elts]
            else:
                fail(e, "membership")
            t = f"([{', '.join(items)}].contains {self.atom(e.left)})"
            return t if isinstance(e.ops[0], ast.In) else f"(!{t})"
        # a <= b <= c
        if isinstance(e, ast.Compare) and len(e.ops) == 2 and all(isinstance(o, (ast.LtE, ast.Lt)) for o in e.ops):
            sym = lambda o: "≤" if isinstance(o, ast.LtE) else "<"  # noqa: E731
            a, b, c = self.atom(e.left), self.atom(e.comparators[0]), self.atom(e.comparators[1])
            return f"(decide ({a} {sym(e.ops[0])} {b}) && decide ({b} {sym(e.ops[1])} {c}))"
        # X if C else Y
        if isinstance(e, ast.IfExp):
            return f"(if {self.cond(e.test)} then {self.expr(e.body)} else {self.expr(e.orelse)})"
        if isinstance(e, ast.Call) and isinstance(e.func, ast.Name) and e.func.id == "len" and len(e.args) == 1 \
                and self.type_of(e.args[0]) == "Bytes":
            return f"{self.atom(e.args[0])}.length"
        if isinstance(e, ast.Subscript) and self.type_of(e.value) == "Bytes":
            return f"(← bytesGet {self.atom(e.value)} {self.atom(e.slice)})"
        if isinstance(e, ast.BinOp) and isinstance(e.op, ast.Add) and (self.type_of(e.left) == "String" or self.type_of(e.right) == "String"):
            return f"({self.expr(e.left)} ++ {self.expr(e.right)})"
        if isinstance(e, ast.Tuple) and len(e.elts) == 2:
            return f"({self.expr(e.elts[0])}, {self.expr(e.elts[1])})"
        if isinstance(e, ast.BoolOp) and isinstance(e.op, ast.Or) and all(self.is_boolish(p) for p in e.values):
            out = self.cond(e.values[-1])
            for p in reversed(e.values[:-1]):
                if "←" in out:
                    out = f"(← (do if {self.cond(p)} then pure true else (do pure ({out}))))"
                else:
                    out = f"({self.cond(p)} || {out})"
            return out
        if isinstance(e, ast.Compare) and len(e.ops) == 1 and isinstance(e.ops[0], (ast.Eq, ast.NotEq)) \
                and any(isinstance(x, ast.Subscript) and self.type_of(x.value) == "Bytes" for x in (e.left, e.comparators[0])):
            sym = "==" if isinstance(e.ops[0], ast.Eq) else "!="
            return f"(({self.atom(e.left)}).toNat {sym} ({self.byte_or_nat(e.comparators[0])}))" if self.is_byte(e.left) \
                else f"(({self.byte_or_nat(e.left)}) {sym} ({self.atom(e.comparators[0])}).toNat)"
        return super().expr(e)

    def is_byte(self, e) -> bool:
        return isinstance(e, ast.Subscript) and self.type_of(e.value) == "Bytes"

    def byte_or_nat(self, e) -> str:
        return f"({self.atom(e)}).toNat" if self.is_byte(e) else self.atom(e)

    def stmt(self, ind: int, s: ast.stmt) -> None:
        # names of enum members are only used in messages: `x_name = jelly.SomeEnum.Name(x)`
        if isinstance(s, ast.Assign) and len(s.targets) == 1 and isinstance(s.targets[0], ast.Name) and s.targets[0].id.endswith("_name") \
                and isinstance(s.value, ast.Call) and isinstance(s.value.func, ast.Attribute) and s.value.func.attr == "Name":
            return
        # object.__setattr__(self, "version", X)  (frozen dataclass): the value the attribute ends up with is the result
        if isinstance(s, ast.Expr) and isinstance(s.value, ast.Call) and ast.unparse(s.value.func) == "object.__setattr__" \
                and len(s.value.args) == 3 and isinstance(s.value.args[1], ast.Constant) and s.value.args[1].value == self.setattr_result:
            self.emit(ind, f"return {self.expr(s.value.args[2])}")
            return
        if isinstance(s, ast.Assign) and len(s.targets) == 1 and isinstance(s.targets[0], ast.Name) and self.is_boolish(s.value):
            self.bool_locals = set(self.bool_locals) | {s.targets[0].id}
        if isinstance(s, ast.Return) and s.value is None and self.ret == "Unit":
            self.emit(ind, "return ()")
            return
        # for sep in "#", "/":  -> unrolled
        if isinstance(s, ast.For) and isinstance(s.target, ast.Name) and isinstance(s.iter, ast.Tuple) and not s.orelse \
                and all(isinstance(x, ast.Constant) and isinstance(x.value, str) for x in s.iter.elts):
            for x in s.iter.elts:
                self.ptypes[s.target.id] = "String"
                self.emit(ind, f"let {s.target.id} : String := {self.expr(x)}")
                for b in s.body:
                    self.stmt(ind, b)
            return
        # prefix, char, name = iri_string.rpartition(sep)
        if isinstance(s, ast.Assign) and len(s.targets) == 1 and isinstance(s.targets[0], ast.Tuple) and len(s.targets[0].elts) == 3 \
                and isinstance(s.value, ast.Call) and isinstance(s.value.func, ast.Attribute) and s.value.func.attr == "rpartition" \
                and self.type_of(s.value.func.value) == "String" and len(s.value.args) == 1:
            t = self.fresh()
            self.emit(ind, f"let {t} := rpartition {self.atom(s.value.func.value)} {self.atom(s.value.args[0])}")
            for el, proj in zip(s.targets[0].elts, (".1", ".2.1", ".2.2")):
                if not isinstance(el, ast.Name):
                    fail(s, "rpartition target")
                self.assign_local(ind, el.id, t + proj)
            return
        super().stmt(ind, s)

    setattr_result: str | None = None

    def render(self) -> str:
        text = super().render()
        # a pure function: the exception monad only (no attributes)
        head, rest = text.split("\n", 1)
        head = head.replace(f": M Unit ", ": Except PyErr ")
        return head + "\n" + rest


def translate() -> str:
    out = ["import JellyModel.PyPreludeStr", "/-!",
           "# GENERATED — do not edit. Translated from pyjelly/parse/ioutils.py (delimited_jelly_hint) and pyjelly/serialize/encode.py",
           "(split_iri) by harness/gen_translate_funcs.py on every check run; `JellyProofs/TranslatedFuncs.lean` proves them equal to the",
           "model's `delimitedHint` and `splitIri`.", "-/", "set_option linter.unusedVariables false", "namespace Jelly.Gen", "open Jelly Jelly.Py", ""]
    for rel, name in FUNCS:
        tree = ast.parse((REPO / rel).read_text())
        fn = next((n for n in tree.body if isinstance(n, ast.FunctionDef) and n.name == name), None)
        if fn is None:
            raise Unsupported(f"{rel}: function {name} not found")
        f = Func(fn)
        text = f.render()
        out.append(f"/-- `{name}` ({rel}:{fn.lineno}) -/")
        out.append(text)
        out.append("")
    # pyjelly/options.py: the validators, as functions of the attributes they read
    rel = "pyjelly/options.py"
    tree = ast.parse((REPO / rel).read_text())
    from pyjelly import jelly
    consts: dict[str, object] = {}
    for n in tree.body:
        tgt = val = None
        if isinstance(n, ast.AnnAssign) and isinstance(n.target, ast.Name):
            tgt, val = n.target.id, n.value
        elif isinstance(n, ast.Assign) and len(n.targets) == 1 and isinstance(n.targets[0], ast.Name):
            tgt, val = n.targets[0].id, n.value
        if tgt is None or val is None:
            continue
        if isinstance(val, ast.Constant) and isinstance(val.value, int) and not isinstance(val.value, bool):
            consts[tgt] = val.value
        elif isinstance(val, ast.Set) and all(isinstance(x, ast.Attribute) and isinstance(x.value, ast.Name) and x.value.id == "jelly" for x in val.elts):
            consts[tgt] = [int(getattr(jelly, x.attr)) for x in val.elts]
    classes = {n.name: n for n in tree.body if isinstance(n, ast.ClassDef)}

    def method(cls, name):
        cd = classes.get(cls)
        fn = next((f for f in (cd.body if cd else []) if isinstance(f, ast.FunctionDef) and f.name == name), None)
        if fn is None:
            raise Unsupported(f"{rel}: {cls}.{name} not found")
        return fn

    fn = next((n for n in tree.body if isinstance(n, ast.FunctionDef) and n.name == "validate_type_compatibility"), None)
    if fn is None:
        raise Unsupported(f"{rel}: validate_type_compatibility not found")
    items = [(fn, Func(fn, module_consts=consts), "validate_type_compatibility")]
    f2 = method("StreamTypes", "flat")
    items.append((f2, Func(f2, name="StreamTypes.flat", self_attrs={"logical_type": "Nat"}, module_consts=consts), "StreamTypes.flat"))
    f3 = method("LookupPreset", "__post_init__")
    items.append((f3, Func(f3, name="LookupPreset.__post_init__", self_attrs={"max_names": "Nat"}, module_consts=consts), "LookupPreset.__post_init__"))
    f4 = method("StreamParameters", "__post_init__")
    g4 = Func(f4, name="StreamParameters.__post_init__", self_attrs={"namespace_declarations": "Bool", "version": "Nat"}, ret="int", module_consts=consts)
    g4.setattr_result = "version"
    items.append((f4, g4, "StreamParameters.__post_init__ (the value `version` ends up with)"))
    for fnode, f, label in items:
        out.append(f"/-- `{label}` ({rel}:{fnode.lineno}) -/")
        out.append(f.render())
        out.append("")
    out.append("end Jelly.Gen")
    return "\n".join(out) + "\n"


def main() -> int:
    try:
        text = translate()
    except Unsupported as e:
        print(f"gen_translate_funcs: source outside the translated fragment: {e}", file=sys.stderr)
        return 3
    except Exception as e:  # noqa: BLE001  (an AST shape the translator does not know: the same verdict, never a pass)
        print(f"gen_translate_funcs: source outside the translated fragment (translator error {type(e).__name__}: {e})", file=sys.stderr)
        return 3
    if OUT.exists() and OUT.read_text() == text:
        print("gen_translate_funcs: unchanged")
    else:
        OUT.write_text(text)
        print("gen_translate_funcs: written", OUT)
    return 0


if __name__ == "__main__":
    sys.exit(main())

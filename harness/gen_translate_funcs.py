"""Translator, part 3: module-level pure functions -> lean/JellyGenerated/FuncsGen.lean.

    pyjelly/parse/ioutils.py     : delimited_jelly_hint(header: bytes) -> bool
    pyjelly/serialize/encode.py  : split_iri(iri_string: str) -> tuple[str, str]

Both are translated with the statement translation of gen_translate.Method into the exception monad `Except PyErr`
(`bytes` = `List UInt8`, indexing raises IndexError; `str.rpartition` is the prelude's `rpartition`; a `for` over a literal
tuple is unrolled). `JellyProofs/TranslatedFuncs.lean` proves `delimited_jelly_hint` equal to the model's `delimitedHint` for
EVERY byte string (not only the tabulated headers) and `split_iri` equal to the model's `splitIri` for every string.
"""
from __future__ import annotations

import ast
import sys
from pathlib import Path

import common  # noqa: F401
import gen_translate as gt
from gen_translate import Method, Unsupported, fail

REPO = Path(common.REPO)
OUT = Path(__file__).resolve().parent.parent / "lean" / "JellyGenerated" / "FuncsGen.lean"
FUNCS = [("pyjelly/parse/ioutils.py", "delimited_jelly_hint"), ("pyjelly/serialize/encode.py", "split_iri")]
PTYPES = {"bytes": "Bytes", "str": "String", "int": "Nat"}
RTYPES = {"bool": "Bool", "tuple[str, str]": "String × String", "int": "Nat", "str": "String"}


class Func(Method):
    def __init__(self, fn: ast.FunctionDef):
        ann = ast.unparse(fn.returns) if fn.returns is not None else None
        if ann not in RTYPES:
            fail(fn, f"return annotation {ann}")
        gt.TYPES.setdefault(ann, RTYPES[ann])
        super().__init__("<module>", fn, {}, {}, struct="Unit", fields={}, name=fn.name)
        self.ptypes: dict[str, str] = {}

    def params(self):
        a = self.fn.args
        if a.vararg or a.kwarg or a.posonlyargs or a.defaults or a.kwonlyargs:
            fail(self.fn, "parameter list")
        out = []
        for p in a.args:
            ann = ast.unparse(p.annotation) if p.annotation is not None else None
            if ann not in PTYPES:
                fail(self.fn, f"parameter annotation of {p.arg}")
            self.ptypes[p.arg] = PTYPES[ann]
            out.append((p.arg, PTYPES[ann]))
        return out

    RENAME = {"prefix": "prefix_", "end": "end_", "at": "at_", "from": "from_", "match": "match_", "fun": "fun_", "then": "then_"}

    def local_type(self, name: str) -> str:
        return "String" if name in ("prefix", "prefix_", "name", "char") else "Nat"

    def assign_local(self, ind: int, name: str, term: str) -> None:
        super().assign_local(ind, self.RENAME.get(name, name), term)

    def type_of(self, e) -> str | None:
        if isinstance(e, ast.Name):
            n = self.RENAME.get(e.id, e.id)
            return self.ptypes.get(e.id) or ("String" if n in self.declared and self.local_type(n) == "String" else None)
        return None

    def cond(self, e) -> str:
        if isinstance(e, ast.Name) and self.type_of(e) == "String":
            return f"({self.RENAME.get(e.id, e.id)} != \"\")"
        return super().cond(e)

    def expr(self, e) -> str:
        if isinstance(e, ast.Name) and e.id in self.RENAME:
            return self.RENAME[e.id]
        if isinstance(e, ast.Call) and isinstance(e.func, ast.Name) and e.func.id == "len" and len(e.args) == 1 \
                and self.type_of(e.args[0]) == "Bytes":
            return f"{self.atom(e.args[0])}.length"
        if isinstance(e, ast.Subscript) and self.type_of(e.value) == "Bytes":
            return f"(← bytesGet {self.atom(e.value)} {self.atom(e.slice)})"
        if isinstance(e, ast.BinOp) and isinstance(e.op, ast.Add) and (self.type_of(e.left) == "String" or self.type_of(e.right) == "String"):
            return f"({self.expr(e.left)} ++ {self.expr(e.right)})"
        if isinstance(e, ast.Tuple) and len(e.elts) == 2:
            return f"({self.expr(e.elts[0])}, {self.expr(e.elts[1])})"
        if isinstance(e, ast.BoolOp) and isinstance(e.op, ast.Or) and all(self.is_boolish(p) for p in e.values):
            out = self.cond(e.values[-1])
            for p in reversed(e.values[:-1]):
                if "←" in out:
                    out = f"(← (do if {self.cond(p)} then pure true else (do pure ({out}))))"
                else:
                    out = f"({self.cond(p)} || {out})"
            return out
        if isinstance(e, ast.Compare) and len(e.ops) == 1 and isinstance(e.ops[0], (ast.Eq, ast.NotEq)) \
                and any(isinstance(x, ast.Subscript) and self.type_of(x.value) == "Bytes" for x in (e.left, e.comparators[0])):
            sym = "==" if isinstance(e.ops[0], ast.Eq) else "!="
            return f"(({self.atom(e.left)}).toNat {sym} ({self.byte_or_nat(e.comparators[0])}))" if self.is_byte(e.left) \
                else f"(({self.byte_or_nat(e.left)}) {sym} ({self.atom(e.comparators[0])}).toNat)"
        return super().expr(e)

    def is_byte(self, e) -> bool:
        return isinstance(e, ast.Subscript) and self.type_of(e.value) == "Bytes"

    def byte_or_nat(self, e) -> str:
        return f"({self.atom(e)}).toNat" if self.is_byte(e) else self.atom(e)

    def stmt(self, ind: int, s: ast.stmt) -> None:
        # for sep in "#", "/":  -> unrolled
        if isinstance(s, ast.For) and isinstance(s.target, ast.Name) and isinstance(s.iter, ast.Tuple) and not s.orelse \
                and all(isinstance(x, ast.Constant) and isinstance(x.value, str) for x in s.iter.elts):
            for x in s.iter.elts:
                self.ptypes[s.target.id] = "String"
                self.emit(ind, f"let {s.target.id} : String := {self.expr(x)}")
                for b in s.body:
                    self.stmt(ind, b)
            return
        # prefix, char, name = iri_string.rpartition(sep)
        if isinstance(s, ast.Assign) and len(s.targets) == 1 and isinstance(s.targets[0], ast.Tuple) and len(s.targets[0].elts) == 3 \
                and isinstance(s.value, ast.Call) and isinstance(s.value.func, ast.Attribute) and s.value.func.attr == "rpartition" \
                and self.type_of(s.value.func.value) == "String" and len(s.value.args) == 1:
            t = self.fresh()
            self.emit(ind, f"let {t} := rpartition {self.atom(s.value.func.value)} {self.atom(s.value.args[0])}")
            for el, proj in zip(s.targets[0].elts, (".1", ".2.1", ".2.2")):
                if not isinstance(el, ast.Name):
                    fail(s, "rpartition target")
                self.assign_local(ind, el.id, t + proj)
            return
        super().stmt(ind, s)

    def render(self) -> str:
        text = super().render()
        # a pure function: the exception monad only (no attributes)
        head, rest = text.split("\n", 1)
        head = head.replace(f": M Unit ", ": Except PyErr ")
        return head + "\n" + rest


def translate() -> str:
    out = ["import JellyModel.PyPreludeStr", "/-!",
           "# GENERATED — do not edit. Translated from pyjelly/parse/ioutils.py (delimited_jelly_hint) and pyjelly/serialize/encode.py",
           "(split_iri) by harness/gen_translate_funcs.py on every check run; `JellyProofs/TranslatedFuncs.lean` proves them equal to the",
           "model's `delimitedHint` and `splitIri`.", "-/", "set_option linter.unusedVariables false", "namespace Jelly.Gen", "open Jelly Jelly.Py", ""]
    for rel, name in FUNCS:
        tree = ast.parse((REPO / rel).read_text())
        fn = next((n for n in tree.body if isinstance(n, ast.FunctionDef) and n.name == name), None)
        if fn is None:
            raise Unsupported(f"{rel}: function {name} not found")
        f = Func(fn)
        text = f.render()
        out.append(f"/-- `{name}` ({rel}:{fn.lineno}) -/")
        out.append(text)
        out.append("")
    out.append("end Jelly.Gen")
    return "\n".join(out) + "\n"


def main() -> int:
    try:
        text = translate()
    except Unsupported as e:
        print(f"gen_translate_funcs: source outside the translated fragment: {e}", file=sys.stderr)
        return 3
    if OUT.exists() and OUT.read_text() == text:
        print("gen_translate_funcs: unchanged")
    else:
        OUT.write_text(text)
        print("gen_translate_funcs: written", OUT)
    return 0


if __name__ == "__main__":
    sys.exit(main())

"""Translator, part 5: the term level of the decoder -> lean/JellyGenerated/DecGen.lean.

    pyjelly/parse/decode.py : Decoder.ingest_prefix_entry / ingest_name_entry / ingest_datatype_entry,
                              Decoder.decode_iri, Decoder.decode_literal, Decoder.validate_stream_options

The reader-side counterpart of `encode_iri_indices` / `encode_literal`: what an entry row does to the three tables, how a
(prefix id, name id) pair becomes an IRI string and how an `RdfLiteral` message becomes (lex, language, datatype). The methods
are translated onto the model's record `Jelly.DecState` (three `LookupDec`), calling the TRANSLATED `LookupDecoder` methods of the
sub-objects. Protobuf messages are read, not built: an entry message is its two fields, an `RdfIri` its two ids, an `RdfLiteral`
the record `PLit` (`langtag` reads as falsy when the other member of the oneof is set; `HasField("datatype")` is `isSome`).
The adapter calls `self.adapter.iri(iri=x)` / `self.adapter.literal(lex=, language=, datatype=)` are the method's result: the
translated method returns their arguments. `JellyProofs/TranslatedDec.lean` proves the translations equal to
`LookupDec.assignEntry` on the right table, `DecState.decodeIri` and `DecState.decodeLiteral`.
"""
from __future__ import annotations

import ast
import sys
from pathlib import Path

import common  # noqa: F401
import gen_translate as gt
import gen_translate_enc as ge
from gen_translate import Unsupported, fail

REPO = Path(common.REPO)
OUT = Path(__file__).resolve().parent.parent / "lean" / "JellyGenerated" / "DecGen.lean"
SRC = "pyjelly/parse/decode.py"
METHODS = ["ingest_prefix_entry", "ingest_name_entry", "ingest_datatype_entry", "decode_iri", "decode_literal"]
FIELDS = {"DecState": {"names": ("names", "LookupDec"), "prefixes": ("prefixes", "LookupDec"), "datatypes": ("datatypes", "LookupDec")}}
# message class -> the fields a parameter of that class is split into
MSG_FIELDS = {
    "jelly.RdfPrefixEntry": {"id": "Nat", "value": "String"},
    "jelly.RdfNameEntry": {"id": "Nat", "value": "String"},
    "jelly.RdfDatatypeEntry": {"id": "Nat", "value": "String"},
    "jelly.RdfIri": {"prefix_id": "Nat", "name_id": "Nat"},
}
DEC_METHODS = {"assign_entry": ["index", "value"], "decode_prefix_term_index": ["index"], "decode_name_term_index": ["index"],
               "decode_datatype_term_index": ["index"]}
ADAPTER_RESULT = {"iri": (["iri"], "String"), "literal": (["lex", "language", "datatype"], "String × Option String × Option String")}


class DecMethod(ge.EncMethod):
    def __init__(self, fn: ast.FunctionDef):
        gt.TYPES["Any"] = "Any"
        try:
            gt.Method.__init__(self, "Decoder", fn, {}, {}, struct="Jelly.DecState", fields={}, name=f"Decoder.{fn.name}")
        finally:
            del gt.TYPES["Any"]
        self.aliases, self.loopvar, self.msgs = {}, {}, {}
        self.msg_params = []
        self.split: dict[str, dict[str, str]] = {}   # message parameter -> its fields
        self.lit_params: set[str] = set()
        if self.ret == "Any":   # what the adapter is handed
            calls = [n.value for n in ast.walk(fn) if isinstance(n, ast.Return) and n.value is not None]
            if len(calls) != 1 or not self.adapter_call(calls[0]):
                fail(fn, "a method returning something else than one adapter call")
            self.ret = ADAPTER_RESULT[calls[0].func.attr][1]

    @staticmethod
    def adapter_call(e) -> bool:
        return isinstance(e, ast.Call) and isinstance(e.func, ast.Attribute) and e.func.attr in ADAPTER_RESULT \
            and ast.unparse(e.func.value) == "self.adapter" and not e.args \
            and sorted(k.arg for k in e.keywords) == sorted(ADAPTER_RESULT[e.func.attr][0])

    def params(self):
        a = self.fn.args
        if a.vararg or a.kwarg or a.posonlyargs or a.defaults or a.kwonlyargs or len(a.args) != 2:
            fail(self.fn, "parameter list")
        p = a.args[1]
        ann = ast.unparse(p.annotation) if p.annotation is not None else None
        if ann in MSG_FIELDS:
            self.split[p.arg] = MSG_FIELDS[ann]
            out = [(f"{p.arg}_{f}", t) for f, t in MSG_FIELDS[ann].items()]
        elif ann == "jelly.RdfLiteral":
            self.lit_params.add(p.arg)
            out = [(p.arg, "PLit")]
        else:
            fail(self.fn, f"parameter {p.arg}")
        self.ptypes = dict(out)
        return out

    def infer_local_types(self) -> dict[str, str]:
        """every local of these methods holds a string; one that is also assigned None is optional"""
        types: dict[str, str] = {}
        for node in ast.walk(self.fn):
            if isinstance(node, ast.Assign):
                is_none = isinstance(node.value, ast.Constant) and node.value.value is None
                for t in node.targets:
                    if isinstance(t, ast.Name):
                        if is_none or types.get(t.id) == "Option String":
                            types[t.id] = "Option String"
                        else:
                            types.setdefault(t.id, "String")
        return types

    def assign_local(self, ind: int, name: str, term: str) -> None:
        name = ge.RENAME.get(name, name)
        ty = self.local_type(name)
        if ty.startswith("Option") and term != "none" and "decode_datatype_term_index" not in term:
            term = f"(some {term})"
        if name in self.declared:
            self.emit(ind, f"{name} := {term}")
        else:
            self.declared.add(name)
            self.emit(ind, f"let mut {name} : {ty} := {term}")

    def predeclare_name(self, name: str, first_assignment) -> str | None:
        return ge.RENAME.get(name, name)

    def path_of(self, e):
        chain = []
        while isinstance(e, ast.Attribute):
            chain.append(e.attr)
            e = e.value
        chain.reverse()
        if not (isinstance(e, ast.Name) and e.id == "self"):
            return None
        path, ty = [], "DecState"
        for a in chain:
            if ty not in FIELDS or a not in FIELDS[ty]:
                fail(e, f"unknown attribute {a} of {ty}")
            f, ty = FIELDS[ty][a]
            path.append(f)
        return path, ty

    def cond(self, e) -> str:
        # literal.langtag as a condition: a non-empty language tag is set
        if isinstance(e, ast.Attribute) and isinstance(e.value, ast.Name) and e.value.id in self.lit_params and e.attr == "langtag":
            return f"(optStrTruthy {e.value.id}.langtag)"
        if isinstance(e, ast.Call) and isinstance(e.func, ast.Attribute) and e.func.attr == "HasField" and isinstance(e.func.value, ast.Name) \
                and e.func.value.id in self.lit_params and len(e.args) == 1 and isinstance(e.args[0], ast.Constant) and e.args[0].value in ("datatype", "langtag"):
            return f"({e.func.value.id}.{e.args[0].value}).isSome"
        return gt.Method.cond(self, e)

    def is_boolish(self, e) -> bool:
        return gt.Method.is_boolish(self, e)

    def expr(self, e) -> str:
        # a field of a message parameter
        if isinstance(e, ast.Attribute) and isinstance(e.value, ast.Name) and e.value.id in self.split:
            if e.attr not in self.split[e.value.id]:
                fail(e, "field of the message")
            return f"{e.value.id}_{e.attr}"
        if isinstance(e, ast.Attribute) and isinstance(e.value, ast.Name) and e.value.id in self.lit_params:
            if e.attr == "lex":
                return f"{e.value.id}.lex"
            if e.attr in ("langtag", "datatype"):   # read under the guard that it is set
                return f"(← liftE (optGet {e.value.id}.{e.attr}))"
            fail(e, "field of the literal message")
        # self.<table>.<method>(...): a method of the translated LookupDecoder, run on that sub-object
        if isinstance(e, ast.Call) and isinstance(e.func, ast.Attribute) and e.func.attr in DEC_METHODS:
            p = self.path_of(e.func.value)
            if p is None or p[1] != "LookupDec" or len(p[0]) != 1:
                fail(e, "decoder lookup method on something that is not one of the three tables")
            names = DEC_METHODS[e.func.attr]
            given = dict(zip(names, e.args))
            for k in e.keywords:
                if k.arg not in names or k.arg in given:
                    fail(e, "arguments")
                given[k.arg] = k.value
            if set(given) != set(names):
                fail(e, "arguments")
            f = p[0][0]
            args = " ".join(self.atom(given[n]) for n in names)
            return f"(← zoom (·.{f}) (fun s v => {{ s with {f} := v }}) (LookupDecoder.{e.func.attr} {args}))"
        if self.adapter_call(e):
            kw = {k.arg: k.value for k in e.keywords}
            vals = [self.expr(kw[n]) for n in ADAPTER_RESULT[e.func.attr][0]]
            return vals[0] if len(vals) == 1 else "(" + ", ".join(vals) + ")"
        if isinstance(e, ast.BinOp) and isinstance(e.op, ast.Add) and all(isinstance(x, ast.Name) and self.local_type(x.id) == "String" for x in (e.left, e.right)):
            return f"({ge.RENAME.get(e.left.id, e.left.id)} ++ {ge.RENAME.get(e.right.id, e.right.id)})"
        if isinstance(e, ast.Name):
            return ge.RENAME.get(e.id, e.id)
        return gt.Method.expr(self, e)

    def ret_value(self, v) -> str:
        if self.ret == "Unit":
            return gt.Method.ret_value(self, v)
        return self.expr(v)

    def stmt(self, ind: int, s: ast.stmt) -> None:
        # a = b = None
        if isinstance(s, ast.Assign) and len(s.targets) > 1 and all(isinstance(t, ast.Name) for t in s.targets) \
                and isinstance(s.value, ast.Constant) and s.value.value is None:
            for t in s.targets:
                self.assign_local(ind, t.id, "none")
            return
        if isinstance(s, ast.Assign) and len(s.targets) == 1 and isinstance(s.targets[0], ast.Name):
            self.assign_local(ind, s.targets[0].id, "none" if isinstance(s.value, ast.Constant) and s.value.value is None else self.expr(s.value))
            return
        if isinstance(s, ast.Expr) and isinstance(s.value, ast.Call) and isinstance(s.value.func, ast.Attribute) and s.value.func.attr in DEC_METHODS:
            t = self.expr(s.value)
            self.emit(ind, t[3:-1] if t.startswith("(← ") else t)
            return
        gt.Method.stmt(self, ind, s)

    def render(self) -> str:
        return gt.Method.render(self)


# -- Decoder.validate_stream_options: a run of `assert <own option> <op> <option of the row>` ---------------------
PO_FIELDS = {("stream_types", "physical_type"): "physical", ("stream_types", "logical_type"): "logical",
             ("params", "stream_name"): "streamName", ("params", "version"): "version",
             ("params", "generalized_statements"): "generalized", ("params", "rdf_star"): "rdfStar",
             ("lookup_preset", "max_names"): "maxNames", ("lookup_preset", "max_prefixes"): "maxPrefixes",
             ("lookup_preset", "max_datatypes"): "maxDatatypes"}
ROW_FIELDS = {"physical_type": "physicalType", "logical_type": "logicalType", "stream_name": "streamName", "version": "version",
              "generalized_statements": "generalized", "rdf_star": "rdfStar", "max_name_table_size": "maxNames",
              "max_prefix_table_size": "maxPrefixes", "max_datatype_table_size": "maxDatatypes"}
OPS = {ast.Eq: "{a} == {b}", ast.GtE: "decide ({a} ≥ {b})", ast.LtE: "decide ({a} ≤ {b})", ast.NotEq: "{a} != {b}",
       ast.Gt: "decide ({a} > {b})", ast.Lt: "decide ({a} < {b})"}


def render_validate(cd: ast.ClassDef, tree: ast.Module) -> str:
    fn = next((f for f in cd.body if isinstance(f, ast.FunctionDef) and f.name == "validate_stream_options"), None)
    if fn is None:
        raise Unsupported(f"{SRC}: Decoder.validate_stream_options not found")
    po = next((n for n in tree.body if isinstance(n, ast.ClassDef) and n.name == "ParserOptions"), None)
    if po is None:
        raise Unsupported(f"{SRC}: ParserOptions not found")
    order = [s.target.id for s in po.body if isinstance(s, ast.AnnAssign) and isinstance(s.target, ast.Name)]
    a = fn.args
    if len(a.args) != 2 or a.vararg or a.kwarg or a.kwonlyargs or a.defaults:
        fail(fn, "parameter list")
    row = a.args[1].arg
    groups: dict[str, str] = {}
    lines = [f"def Decoder.validate_stream_options ({row} : Options) : M Jelly.DecState Unit := do"]
    for s in fn.body:
        if isinstance(s, ast.Expr) and isinstance(s.value, ast.Constant) and isinstance(s.value.value, str):
            continue
        # a, b, c = self.options
        if isinstance(s, ast.Assign) and len(s.targets) == 1 and isinstance(s.targets[0], ast.Tuple) and ast.unparse(s.value) == "self.options" \
                and len(s.targets[0].elts) == len(order) and all(isinstance(e, ast.Name) for e in s.targets[0].elts):
            groups = {e.id: g for e, g in zip(s.targets[0].elts, order)}
            continue
        if isinstance(s, ast.Assert) and s.msg is None and isinstance(s.test, ast.Compare) and len(s.test.ops) == 1 and type(s.test.ops[0]) in OPS:
            def side(e):
                if isinstance(e, ast.Attribute) and isinstance(e.value, ast.Name):
                    if e.value.id in groups and (groups[e.value.id], e.attr) in PO_FIELDS:
                        return f"(← get).opts.{PO_FIELDS[(groups[e.value.id], e.attr)]}"
                    if e.value.id == row and e.attr in ROW_FIELDS:
                        return f"{row}.{ROW_FIELDS[e.attr]}"
                fail(e, "operand of an assert")
            lines.append("  pyAssert (" + OPS[type(s.test.ops[0])].format(a=side(s.test.left), b=side(s.test.comparators[0])) + ")")
            continue
        fail(s, "statement")
    if len(lines) == 1:
        lines.append("  pure ()")
    return "\n".join(lines)


def translate() -> str:
    tree = ast.parse((REPO / SRC).read_text())
    cd = next((n for n in tree.body if isinstance(n, ast.ClassDef) and n.name == "Decoder"), None)
    if cd is None:
        raise Unsupported(f"{SRC}: class Decoder not found")
    out = ["import JellyModel.PyPrelude", "import JellyModel.Decode", "import JellyGenerated.LookupGen", "/-!",
           "# GENERATED — do not edit. Translated from pyjelly/parse/decode.py (Decoder.ingest_*_entry / decode_iri / decode_literal) by",
           "harness/gen_translate_dec.py on every check run; `JellyProofs/TranslatedDec.lean` proves them equal to the model's",
           "`LookupDec.assignEntry` on the table concerned, `DecState.decodeIri` and `DecState.decodeLiteral`.", "-/",
           "set_option linter.unusedVariables false", "namespace Jelly.Gen", "open Jelly Jelly.Py", ""]
    for m in METHODS:
        fn = next((f for f in cd.body if isinstance(f, ast.FunctionDef) and f.name == m), None)
        if fn is None:
            raise Unsupported(f"{SRC}: Decoder.{m} not found")
        out.append(f"/-- `Decoder.{m}` ({SRC}:{fn.lineno}) -/")
        out.append(DecMethod(fn).render())
        out.append("")
    vfn = next((f for f in cd.body if isinstance(f, ast.FunctionDef) and f.name == "validate_stream_options"), None)
    out.append(f"/-- `Decoder.validate_stream_options` ({SRC}:{getattr(vfn, 'lineno', '?')}) -/")
    out.append(render_validate(cd, tree))
    out.append("")
    out.append("end Jelly.Gen")
    return "\n".join(out) + "\n"


def main() -> int:
    try:
        text = translate()
    except Unsupported as e:
        print(f"gen_translate_dec: source outside the translated fragment: {e}", file=sys.stderr)
        return 3
    except Exception as e:  # noqa: BLE001
        print(f"gen_translate_dec: source outside the translated fragment (translator error {type(e).__name__}: {e})", file=sys.stderr)
        return 3
    if OUT.exists() and OUT.read_text() == text:
        print("gen_translate_dec: unchanged")
    else:
        OUT.write_text(text)
        print("gen_translate_dec: written", OUT)
    return 0


if __name__ == "__main__":
    sys.exit(main())

"""Parallel self-test against seeded regressions (not a registered check).

usage: eval_seeded_par.py [-j N] <id> ...

Like `eval_seeded.py run`, but every worker has its own scratch worktree of /repo (outside /repo and /verif, removed at the
end) and runs the check of the property with VERIF_REPO pointing at it, so /repo itself is never touched and several seeded
changes are evaluated at once. Build steps of concurrent checks are serialised by the framework's lock; each check
regenerates the tables and translations from ITS repository before it builds. Evidence and replay files written by these runs
are scratch: refresh them on the unchanged tree afterwards. Results are merged into seeded/RESULTS.json.
"""
from __future__ import annotations

import json
import os
import queue
import subprocess
import sys
import threading
import time
from pathlib import Path

VERIF = Path(__file__).resolve().parent.parent
SEEDED = VERIF / "seeded"


def sh(cmd, cwd=None, env=None, timeout=3600):
    p = subprocess.run(cmd, cwd=cwd, env=env, capture_output=True, text=True, timeout=timeout, check=False)
    return p.returncode, p.stdout + p.stderr


def worker(k: int, q: queue.Queue, results: dict, lock: threading.Lock) -> None:
    wt = Path(f"/tmp/evalwt_{os.getpid()}_{k}")
    sh(["git", "-C", "/repo", "worktree", "remove", "--force", str(wt)])
    rc, out = sh(["git", "-C", "/repo", "worktree", "add", "--detach", str(wt), "HEAD"])
    if rc != 0:
        print("worktree failed", out)
        return
    env = dict(os.environ, VERIF_REPO=str(wt))
    try:
        while True:
            try:
                sid = q.get_nowait()
            except queue.Empty:
                return
            d = SEEDED / sid
            meta = json.loads((d / "meta.json").read_text())
            prop = meta["property"]
            rc, out = sh(["git", "apply", str(d / "patch.diff")], cwd=wt)
            if rc != 0:
                with lock:
                    results[sid] = dict(property=prop, error="patch does not apply: " + out[-200:])
                continue
            t0 = time.time()
            try:
                rc, out = sh([str(VERIF / "check"), prop, "--tier", "quick"], cwd=VERIF, env=env)
            finally:
                sh(["git", "checkout", "--", "."], cwd=wt)
                sh(["git", "clean", "-fdq"], cwd=wt)
            viol = [ln for ln in out.split("\n") if ln.startswith("VIOLATION")]
            row = {prop: dict(exit=rc, violation=viol[0] if viol else None, s=round(time.time() - t0, 1))}
            with lock:
                results[sid] = dict(property=prop, caught_by=[prop] if rc == 1 else [], detail=row)
                tag = "(nfi)" if viol and "no-failing" in viol[0] else ""
                print(f"{sid:28s} breaks {prop}  {prop}:{rc}{tag}", flush=True)
    finally:
        sh(["git", "-C", "/repo", "worktree", "remove", "--force", str(wt)])


def main() -> None:
    args = sys.argv[1:]
    n = 4
    if args and args[0] == "-j":
        n = int(args[1])
        args = args[2:]
    q: queue.Queue = queue.Queue()
    for a in args:
        q.put(a)
    results: dict = {}
    lock = threading.Lock()
    ts = [threading.Thread(target=worker, args=(k, q, results, lock)) for k in range(n)]
    for t in ts:
        t.start()
    for t in ts:
        t.join()
    # leave the generated files in the state of the unchanged tree
    for script in ("gen_tables.py", "gen_translate.py", "gen_translate_flows.py", "gen_translate_funcs.py", "gen_translate_enc.py", "gen_translate_dec.py", "gen_translate_stmt.py", "gen_translate_dstmt.py", "gen_translate_stream.py"):
        sh([sys.executable, str(VERIF / "harness" / script)], cwd=VERIF / "harness")
    out = SEEDED / "RESULTS.json"
    merged = json.loads(out.read_text()) if out.exists() else {}
    merged.update(results)
    out.write_text(json.dumps(merged, indent=1))


if __name__ == "__main__":
    main()

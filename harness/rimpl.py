"""The rdflib integration of the REAL pyjelly on protocol requests (mirror of impl.py)."""
from __future__ import annotations

import io

import rdflib
from rdflib import BNode, Dataset, Graph, URIRef
from rdflib import Literal as RLiteral
from rdflib.graph import DATASET_DEFAULT_GRAPH_ID

import impl
from common import err_name, hx, rdflib_stmt_text, rdflib_term_text
from common import bn_id, iri_s, lit_dt, lit_lang, lit_lex  # noqa: E402
from impl import IRI, BlankNode, DefaultGraph, Literal, Opts, Triple
from pyjelly.integrations.rdflib import parse as rparse
from pyjelly.integrations.rdflib import serialize as rser
from pyjelly.serialize.streams import GraphStream, QuadStream, TripleStream

STREAMS = {"T": TripleStream, "Q": QuadStream, "G": GraphStream}
XSD_STRING = "http://www.w3.org/2001/XMLSchema#string"


def to_rdflib(t):
    """Generic term -> rdflib term (RDF 1.1 only)."""
    if isinstance(t, IRI):
        return URIRef(iri_s(t))
    if isinstance(t, BlankNode):
        return BNode(bn_id(t))
    if isinstance(t, Literal):
        return RLiteral(lit_lex(t), lang=lit_lang(t), datatype=None if lit_dt(t) is None else URIRef(lit_dt(t)), normalize=False)
    if t is DefaultGraph:
        return DATASET_DEFAULT_GRAPH_ID
    raise TypeError(t)


def rdf11(st) -> bool:
    """RDF 1.1 statement: s IRI|BNode, p IRI, o IRI|BNode|Literal, g IRI|BNode|default; rdflib-valid."""
    s, p, o = st[:3]
    if not isinstance(s, (IRI, BlankNode)) or not isinstance(p, IRI) or not isinstance(o, (IRI, BlankNode, Literal)):
        return False
    if len(st) > 3 and not (st[3] is DefaultGraph or isinstance(st[3], (IRI, BlankNode))):
        return False
    if len(st) > 3 and isinstance(st[3], IRI) and iri_s(st[3]) == "":
        return False  # rdflib replaces a falsy graph identifier by a fresh blank node
    for t in st:
        if isinstance(t, BlankNode) and bn_id(t) == "":
            return False
        if isinstance(t, Literal) and lit_lang(t) is not None and not lit_lang(t).isascii():
            return False
    return True


def make_stream(cls: str, o: Opts):
    opts = o.real()
    return STREAMS[cls].for_rdflib(options=opts), opts


def ns_token(bindings) -> str:
    return "/".join(hx(p) + "=" + hx(str(i)) for p, i in bindings) or "_"


def observe(cls: str, data):
    """The iteration order rdflib will use, rendered as the request's data token, plus namespaces."""
    is_graph = isinstance(data, Graph)
    if isinstance(data, Dataset):
        list(data.graphs())  # the first call registers the default graph in the store and changes the order of later calls
    ns = list(data.namespaces()) if is_graph else []
    if cls == "T":
        if isinstance(data, Dataset):
            graphs = [list(g) for g in data.graphs()]
        elif is_graph:
            graphs = [list(data)]
        else:
            graphs = [list(data)]
        tok = "+".join(("/".join(rdflib_stmt_text(t) for t in g) or "_") for g in graphs) if graphs else "-"
    elif cls == "Q":
        quads = list(data.quads()) if isinstance(data, Dataset) else list(data)
        quads = [(s, p, o, g.identifier if isinstance(g, Graph) else g) for s, p, o, g in quads]
        tok = "/".join(rdflib_stmt_text(q) for q in quads) or "_"
    else:
        if isinstance(data, Dataset):
            gl = [(g.identifier, list(g)) for g in data.graphs()]
        else:
            ds = Dataset()
            for q in data:
                ds.get_context(q[3]).add((q[0], q[1], q[2]))
            gl = [(g.identifier, list(g)) for g in ds.graphs()]
        tok = "+".join(rdflib_term_text(gid) + "@" + ("/".join(rdflib_stmt_text(t) for t in ts) or "_") for gid, ts in gl) if gl else "-"
    return is_graph, ns, tok


def run_serr(cls: str, o: Opts, data) -> tuple[str, str, bytes | None]:
    """-> (request line, response line, bytes). `data`: Graph | Dataset | list of rdflib tuples."""
    is_graph, ns, tok = observe(cls, data)
    req = f"serr {cls} {o.token()} {int(is_graph)} {ns_token(ns)} {tok}"
    try:
        stream, _ = make_stream(cls, o)
    except Exception as e:  # noqa: BLE001
        return req, "!" + err_name(e), None
    arg = data if is_graph else (x for x in data)
    if not is_graph and cls in "QG":
        arg = (rparse.Quad(*x) for x in data)
    frames: list = []
    err = impl._consume(rser.stream_frames(stream, arg), frames)
    b = impl.frames_bytes(frames, o.delim)
    return req, f"ok {b.hex()} flow={len(stream.flow)} " + ("end" if err is None else "!" + err_name(err)), b


def run_plug(store, o: Opts | None, stream_spec: tuple[str, Opts] | None) -> tuple[str, str, bytes | None]:
    """The rdflib plugin end to end: store.serialize(format='jelly'[, options=][, stream=]).
    -> (request line for the model, response line, bytes)."""
    is_ds = isinstance(store, Dataset)
    if is_ds:
        list(store.graphs())  # see observe()
        gl = [(g.identifier, list(g)) for g in store.graphs()]
        quads = [(s, p, o_, g.identifier if isinstance(g, Graph) else g) for s, p, o_, g in store.quads()]
    else:
        gl = [(store.identifier, list(store))]
        quads = []
    gtok = "+".join(rdflib_term_text(gid) + "@" + ("/".join(rdflib_stmt_text(t) for t in ts) or "_") for gid, ts in gl) if gl else "-"
    qtok = "/".join(rdflib_stmt_text(q) for q in quads) or "_"
    stok = "-" if stream_spec is None else f"{stream_spec[0]}:{stream_spec[1].token()}"
    req = f"plug {int(is_ds)} {'-' if o is None else o.token()} {stok} {ns_token(list(store.namespaces()))} {gtok} {qtok}"
    kw = {}
    try:
        if o is not None:
            kw["options"] = o.real()
        if stream_spec is not None:
            kw["stream"] = make_stream(*stream_spec)[0]
    except Exception as e:  # noqa: BLE001
        return req, "!" + err_name(e), None
    out = io.BytesIO()
    err = None
    try:
        store.serialize(destination=out, format="jelly", **kw)
    except Exception as e:  # noqa: BLE001
        err = e
    b = out.getvalue()
    return req, f"ok {b.hex()} " + ("end" if err is None else "!" + err_name(err)), b


def plugin_serialize(store, **kw) -> bytes:
    out = io.BytesIO()
    store.serialize(destination=out, format="jelly", **kw)
    return out.getvalue()


def rdflib_events_text(evs) -> str:
    out = []
    for ev in evs:
        if isinstance(ev, rparse.Prefix):
            out.append("N" + hx(ev.prefix) + "=" + rdflib_term_text(ev.iri))
        else:
            out.append("S" + rdflib_stmt_text(ev))
    return "_" if not out else " ".join(out)


def run_par_flat(strict: bool, source: str, data: bytes) -> str:
    evs, err = [], None
    try:
        for ev in rparse.parse_jelly_flat(impl.make_source(source, data), logical_type_strict=strict):
            evs.append(ev)
    except Exception as e:  # noqa: BLE001
        err = e
    return rdflib_events_text(evs) + " " + ("end" if err is None else "!" + err_name(err))


def store_quads(store) -> list[str]:
    """Canonical sorted statement texts of a Graph (triples) or Dataset (quads)."""
    if isinstance(store, Dataset):
        return sorted(rdflib_stmt_text((s, p, o, g.identifier if isinstance(g, Graph) else g)) for s, p, o, g in store.quads())
    return sorted(rdflib_stmt_text(t) for t in store)


def run_par_grouped(strict: bool, source: str, data: bytes):
    """-> (list of sorted statement lists per sink, error name or None)."""
    sinks, err = [], None
    try:
        for s in rparse.parse_jelly_grouped(impl.make_source(source, data), logical_type_strict=strict):
            sinks.append(store_quads(s))
    except Exception as e:  # noqa: BLE001
        err = err_name(e)
    return sinks, err


def run_par_graph(source: str, data: bytes):
    try:
        s = rparse.parse_jelly_to_graph(impl.make_source(source, data))
    except Exception as e:  # noqa: BLE001
        return None, err_name(e)
    return s, None

"""Check framework: build + audit of the Lean obligations, correspondence bookkeeping, oracle
failures, known findings, evidence and exit protocol (DESIGN.md §5)."""
from __future__ import annotations

import fcntl
import hashlib
import json
import os
import re
import subprocess
import sys
import time
from collections import Counter
from pathlib import Path

import common
from common import LEAN_DIR, VERIF, run_driver

ALLOWED_AXIOMS = {"propext", "Classical.choice", "Quot.sound"}
FORBIDDEN = re.compile(r"\bsorry\b|\badmit\b|^axiom |native_decide|bv_decide|implemented_by|\bunsafe |maxHeartbeats 0")
TRUSTED_BASE = [
    "Lean 4.33.0 kernel (lake build); axioms allowed: propext, Classical.choice, Quot.sound — anything else fails the audit",
    "lean/JellyModel/Spec.lean as the reading of the Jelly rules (spec/rdf.proto comments + property statements)",
    "harness/gen_tables.py (translator for finite facts), harness/gen_translate.py + gen_translate_flows.py + gen_translate_funcs.py + gen_translate_enc.py + gen_translate_dec.py + gen_translate_stmt.py + gen_translate_dstmt.py + gen_translate_stream.py + lean/JellyModel/PyPrelude*.lean (translators for "
    "the lookup classes, the frame-flow classes, split_iri / delimited_jelly_hint / the options validators and TermEncoder.start_row / end_row / "
    "encode_iri_indices / encode_literal, Decoder.ingest_*_entry / decode_iri / decode_literal, the module-level encode_spo / encode_triple / encode_quad (with the integration's per-term encoder as a parameter assumed to behave like the model's), Decoder.decode_statement / decode_triple / decode_quad (with decode_term as such a parameter; the `is None` test after a repeated-term read treated as dead code), TripleStream.triple / QuadStream.quad / Stream.enroll (the flow's frame_from_bounds as a parameter instantiated per flow class): Python ast -> Lean, and the meaning it gives to OrderedDict / deque / set / bytes / rpartition / exceptions "
    "and to the oneof of an RdfLiteral message) and the differential "
    "harness (correspondence check)",
    "the Lean compiler for the driver executable jellydrv; CPython 3.12; protobuf/upb, rdflib modelled not verified",
]


class ToolingError(Exception):
    pass


class CaseBudgetExceeded(BaseException):
    """raised by the SIGPROF handler installed in check.py when one case used more CPU than Ctx.CASE_CPU_BUDGET"""


def sh(cmd, cwd=None, timeout=3600):
    p = subprocess.run(cmd, cwd=cwd, capture_output=True, text=True, timeout=timeout, check=False)
    return p.returncode, p.stdout + p.stderr


class BuildResult:
    def __init__(self):
        self.tables_ok = True
        self.translator_ok = True
        self.failed_translators: list[str] = []
        self.driver_ok = True
        self.proof_ok = True
        self.log = ""
        self.axioms: dict[str, list[str]] = {}
        self.missing: list[str] = []
        self.forbidden_hits: list[str] = []
        self.failed_modules: list[str] = []
        self.leanchecker: bool | None = None


def strip_comments(text: str) -> str:
    text = re.sub(r"/-.*?-/", "", text, flags=re.S)
    return "\n".join(line.split("--")[0] for line in text.split("\n"))


def build(pid: str, modules: list[str], theorems: list[str], tier: str = "quick") -> BuildResult:
    """Regenerate tables, build model + driver + the property's proof modules, audit axioms."""
    res = BuildResult()
    lock = open(LEAN_DIR / ".build.lock", "w")
    fcntl.flock(lock, fcntl.LOCK_EX)
    try:
        rc, out = sh([sys.executable, str(VERIF / "harness" / "gen_tables.py")], cwd=VERIF / "harness")
        res.log += out
        if rc != 0:
            res.tables_ok = False
        # translator for the lookup classes (Python source -> Lean): a source outside the translated fragment is a broken tie
        # the translators. A source that left a translator's fragment breaks the tie of the properties whose theorems rest on
        # that translation (and on the translations built on it) — not of every property.
        affected = {"gen_translate.py": {"Translated", "TranslatedFlows", "TranslatedEnc", "TranslatedDec", "TranslatedStmt", "TranslatedStream"},
                    "gen_translate_flows.py": {"TranslatedFlows", "TranslatedStream"},
                    "gen_translate_funcs.py": {"TranslatedFuncs", "TranslatedEnc", "TranslatedStmt", "TranslatedStream"},
                    "gen_translate_enc.py": {"TranslatedEnc", "TranslatedStmt", "TranslatedStream"},
                    "gen_translate_dec.py": {"TranslatedDec"}, "gen_translate_stmt.py": {"TranslatedStmt", "TranslatedStream"},
                    "gen_translate_dstmt.py": {"TranslatedDStmt"}, "gen_translate_stream.py": {"TranslatedStream"}}
        for script, mods in affected.items():
            rc, out = sh([sys.executable, str(VERIF / "harness" / script)], cwd=VERIF / "harness")
            res.log += out
            if rc != 0:
                res.failed_translators.append(script)
                if mods & set(modules):
                    res.tables_ok = False
                    res.translator_ok = False
        rc, out = sh(["lake", "build", "JellyModel", "jellydrv"], cwd=LEAN_DIR)
        res.log += out
        if rc != 0:
            res.driver_ok = False
            return res
        targets = [f"JellyProofs.{m}" for m in modules]
        if targets:
            rc, out = sh(["lake", "build", *targets], cwd=LEAN_DIR)
            res.log += out
            if rc != 0:
                res.proof_ok = False
                res.failed_modules = sorted(set(re.findall(r"- (JellyProofs\.[\w.]+)", out)))
        # forbidden constructs in the proof and model sources
        for p in list((LEAN_DIR / "JellyProofs").rglob("*.lean")) + list((LEAN_DIR / "JellyModel").rglob("*.lean")):
            for i, line in enumerate(strip_comments(p.read_text()).split("\n"), 1):
                if FORBIDDEN.search(line):
                    res.forbidden_hits.append(f"{p.relative_to(LEAN_DIR)}:{i}: {line.strip()[:120]}")
        if res.forbidden_hits:
            res.proof_ok = False
        # axiom audit
        if res.proof_ok and theorems:
            audit = LEAN_DIR / ".lake" / f"audit_{pid}.lean"
            audit.write_text("".join(f"import JellyProofs.{m}\n" for m in modules) +
                             "".join(f"#print axioms {t}\n" for t in theorems))
            rc, out = sh(["lake", "env", "lean", str(audit)], cwd=LEAN_DIR)
            res.log += out
            for t in theorems:
                short = t
                m = re.search(rf"'{re.escape(short)}' depends on axioms: \[(.*?)\]", out, flags=re.S)
                if m:
                    res.axioms[t] = [a.strip() for a in m.group(1).replace("\n", " ").split(",") if a.strip()]
                elif re.search(rf"'{re.escape(short)}' does not depend on any axioms", out):
                    res.axioms[t] = []
                else:
                    res.missing.append(t)
            bad = {t: a for t, a in res.axioms.items() if not set(a) <= ALLOWED_AXIOMS}
            if res.missing or bad:
                res.proof_ok = False
                res.log += f"\naudit: missing={res.missing} disallowed={bad}\n"
        # thorough: independent re-check of the compiled proof modules by leanchecker
        if res.proof_ok and tier == "thorough" and modules:
            rc, out = sh(["lake", "env", "leanchecker", *[f"JellyProofs.{m}" for m in modules]], cwd=LEAN_DIR, timeout=3600)
            res.log += out
            res.leanchecker = rc == 0
            if rc != 0:
                res.proof_ok = False
                res.log += "\nleanchecker rejected the compiled proofs\n"
    finally:
        fcntl.flock(lock, fcntl.LOCK_UN)
        lock.close()
    return res


class Ctx:
    def __init__(self, pid: str, tier: str, seed: int):
        self.pid, self.tier, self.seed = pid, tier, seed
        if tier != "quick":
            self.CASE_CPU_BUDGET = 3600.0
        self.t0 = time.time()
        self.evaluations = 0
        self.keys: set[str] = set()
        self.samples: list = []
        self.dist: Counter = Counter()
        self.disagreements: list[dict] = []
        self.class_diffs: list[dict] = []
        self.failures: list[dict] = []       # oracle failures not explained by a known finding
        self.known_hits: dict[str, dict] = {}  # known-finding id -> first witness seen this run
        self.corr_checked = 0
        self.notes: list[str] = []
        self.exhaustive = False
        self.extra: dict = {}

    def quick(self) -> bool:
        return self.tier == "quick"

    def n(self, quick: int, thorough: int) -> int:
        # thorough counts in props.py are 10x quick; the scale deepens them further (default 4 => 40x quick)
        return quick if self.tier == "quick" else thorough * int(os.environ.get("VERIF_THOROUGH_SCALE", "4"))

    def rng(self, *salt):
        return common.rng(self.pid, *salt)

    # seconds of CPU of this process between two calls of case(). Harness-side work (generating reference streams, waiting for
    # the model driver) also runs between two cases, so the budget is a multiple of what a WHOLE check uses on the unchanged
    # tree: quick checks use 5..60 s of CPU in total, thorough ones up to ~15 min
    CASE_CPU_BUDGET = 240.0

    def case(self, key: object, nontrivial: bool = True, sample=None):
        # every case re-arms a CPU-time budget: code under test that spins for ever (or for minutes) inside one case is
        # reported as a failure of that case (check.py) instead of the check never ending
        try:
            import signal
            signal.setitimer(signal.ITIMER_PROF, self.CASE_CPU_BUDGET)
            self.last_case = repr(key)[:600]
        except Exception:  # noqa: BLE001
            pass
        self.evaluations += 1
        if nontrivial:
            self.keys.add(hashlib.sha1(repr(key).encode()).hexdigest()[:16])
        if sample is not None and len(self.samples) < 5:
            self.samples.append(sample)

    def compare(self, suite: str, q: str, a: str, b: str, label=None) -> None:
        """One correspondence line: implementation response `a` against model response `b`.

        Outputs, the accept/reject decision and the point of rejection must agree exactly. WHICH ordinary exception class
        a rejection uses is not part of any property: a difference in the class alone is recorded in the evidence
        (`error_class_differences`) and does not break the tie. Fatal outcomes (anything that is not an ordinary
        `Exception`, MemoryError, RecursionError, a hang) are never folded."""
        self.corr_checked += 1
        if a == b:
            return
        if canon_errors(a) == canon_errors(b):
            self.dist[f"error_class_differs:{suite}"] += 1
            if len(self.class_diffs) < 10:
                self.class_diffs.append(dict(suite=suite, request=q[:600], impl=a[-200:], model=b[-200:]))
            return
        self.dist[f"disagree:{suite}"] += 1
        if len(self.disagreements) < 20:
            self.disagreements.append(dict(suite=suite, request=q[:4000], impl=a[:4000], model=b[:4000], label=label))

    def corr(self, suite: str, reqs: list[str], impl: list[str], labels: list | None = None) -> list[str]:
        """Correspondence: run the model on `reqs`, compare with the implementation's responses."""
        model = run_driver(reqs)
        for i, (q, a, b) in enumerate(zip(reqs, impl, model)):
            self.compare(suite, q, a, b, None if labels is None else labels[i])
        return model

    def fail(self, what: str, replay: dict, known: str | None = None):
        """An oracle failure on the REAL code. `known` = id of the known finding whose signature it matches."""
        if known is not None:
            self.dist[f"known:{known}"] += 1
            self.known_hits.setdefault(known, dict(what=what, replay=replay))
        else:
            self.dist["oracle_failure"] += 1
            if len(self.failures) < 10:
                self.failures.append(dict(what=what, replay=replay))


_FATAL = {"MemoryError", "RecursionError", "SystemExit", "KeyboardInterrupt", "GeneratorExit", "Timeout", "SystemError"}
_ERR_TOKEN = re.compile(r"(?<!!)!([A-Za-z_][A-Za-z0-9_]*)")


def canon_errors(line: str) -> str:
    """Fold the class name of every ordinary exception token `!Name` to `!E` (fatal ones and `!!Name` are kept)."""
    return _ERR_TOKEN.sub(lambda m: m.group(0) if m.group(1) in _FATAL else "!E", line)


def run_corpus(ctx: Ctx) -> None:
    """Past failing / disagreeing requests (minimised by hand where useful) run first: model vs real code."""
    p = VERIF / "corpus" / f"{ctx.pid}.txt"
    if not p.exists():
        return
    import replay

    import signal

    class _CorpusTimeout(BaseException):
        pass

    def _alarm(*_):
        raise _CorpusTimeout

    reqs = [ln.strip() for ln in p.read_text().split("\n") if ln.strip() and not ln.startswith("#")]
    real, kept = [], []
    old_handler = signal.signal(signal.SIGALRM, _alarm)
    old_prof = signal.signal(signal.SIGPROF, _alarm)
    for q in reqs:
        # corpus requests run the real code in this process: bound each one in time (and the process is bounded in address
        # space, see check.py), so that a change that makes the parser hang or balloon is reported, not suffered. The bound is
        # on CPU time (20 s) so that a loaded machine does not turn into an alarm; a generous wall-clock bound catches sleeping
        signal.alarm(180)
        signal.setitimer(signal.ITIMER_PROF, 20.0)
        try:
            a = replay.run_request(q)
        except _CorpusTimeout:
            a = "!!HANG"
        except MemoryError:
            a = "!!MemoryError"
        except Exception as e:  # noqa: BLE001
            a = "!!" + type(e).__name__
        finally:
            signal.setitimer(signal.ITIMER_PROF, 0)
            signal.alarm(0)
        if a is not None:
            kept.append(q)
            real.append(a)
    signal.signal(signal.SIGALRM, old_handler)
    signal.signal(signal.SIGPROF, old_prof)
    model = [m.replace("~", "") for m in run_driver(kept)]
    for q, a, m in zip(kept, real, model):
        ctx.dist["corpus_requests"] += 1
        ctx.compare("CORPUS", q, a, m)
        if a in ("!!HANG", "!!MemoryError"):
            ctx.fail(f"a corpus request does not terminate promptly / exhausts memory on the real code ({a[2:]})", dict(request=q[:3000]))


def load_known(pid: str) -> list[dict]:
    p = VERIF / "known_findings.json"
    if not p.exists():
        return []
    return [e for e in json.loads(p.read_text())["findings"] if e["property"] == pid]


def write_replay(pid: str, name: str, data: dict) -> str:
    d = VERIF / "replays"
    d.mkdir(exist_ok=True)
    p = d / f"{pid}_{name}.json"
    p.write_text(json.dumps(data, indent=1, default=str))
    return str(p.relative_to(VERIF))


def finish(ctx: Ctx, b: BuildResult, spec: dict) -> int:
    """Evidence + exit protocol."""
    pid = ctx.pid
    known = {e["id"]: e for e in load_known(pid)}
    obligations = list(spec["theorems"]) + list(spec.get("table_theorems", []))
    discharged = [t for t in obligations if t in b.axioms and set(b.axioms[t]) <= ALLOWED_AXIOMS] if b.proof_ok else []
    violations = 0
    lines: list[str] = []
    # known findings observed this run
    for kid, hit in ctx.known_hits.items():
        e = known.get(kid)
        if e is None or e.get("status") != "known":
            # matches a 'fixed' entry or an unknown id: a fixed entry suppresses nothing
            ctx.failures.insert(0, dict(what=f"{hit['what']} (matches finding {kid}, which is not listed as known)",
                                        replay=hit["replay"]))
        else:
            lines.append(f"KNOWN-FINDING: property={pid} {e['id']}: {e['description']}")
    tie_broken = (not b.proof_ok) or (not b.tables_ok) or bool(ctx.disagreements)
    if ctx.failures:
        violations = len(ctx.failures)
        f = ctx.failures[0]
        try:  # shrink the failing request where the generic predicate applies (never affects the verdict)
            import replay as _replay
            rq = f["replay"].get("request") if isinstance(f["replay"], dict) else None
            small = _replay.minimise(rq) if isinstance(rq, str) and len(rq) < 20000 else None
            if small:
                f["replay"]["minimised_request"] = small
        except Exception:  # noqa: BLE001
            pass
        path = write_replay(pid, "violation", dict(property=pid, kind="failing-input", what=f["what"], replay=f["replay"],
                                                   seed=ctx.seed, tier=ctx.tier))
        lines.append(f"VIOLATION property={pid} replay={path}")
    elif tie_broken:
        violations = 1
        path = write_replay(pid, "tie_broken", dict(
            property=pid, kind="no-failing-input-found",
            proof_build_ok=b.proof_ok, tables_ok=b.tables_ok, translator_ok=b.translator_ok, failed_translators=b.failed_translators,
            failed_modules=b.failed_modules,
            missing_theorems=b.missing, forbidden=b.forbidden_hits,
            disallowed_axioms={t: a for t, a in b.axioms.items() if not set(a) <= ALLOWED_AXIOMS},
            first_disagreements=ctx.disagreements[:3], build_log_tail=b.log[-3000:], seed=ctx.seed, tier=ctx.tier))
        lines.append(f"VIOLATION property={pid} replay={path} no-failing-input-found")
    ev = dict(
        property_id=pid, tier=ctx.tier, seed=ctx.seed, level="proof",
        coverage=dict(
            obligations=max(1, len(obligations)), discharged=len(discharged),
            checker_cmd=f"cd lean && lake build {' '.join('JellyProofs.' + m for m in spec['modules'])} && lake env lean .lake/audit_{pid}.lean  (#print axioms per theorem)",
            trusted_base=TRUSTED_BASE + spec.get("trusted_extra", []),
            theorems={t: b.axioms.get(t) for t in obligations},
            evaluations=ctx.evaluations, distinct_nontrivial=len(ctx.keys),
            rule=spec.get("rule", ""), samples=ctx.samples[:5] or [spec.get("rule", "n/a")],
            correspondence_lines_compared=ctx.corr_checked, disagreements=len(ctx.disagreements),
            distribution=dict(ctx.dist), error_class_differences=ctx.class_diffs, exhaustive=ctx.exhaustive, leanchecker_recheck=b.leanchecker, known_findings_observed=sorted(ctx.known_hits),
            **ctx.extra),
        assumptions=spec.get("assumptions", []) + ctx.notes,
        wall_s=round(time.time() - ctx.t0, 2), violations=violations)
    (VERIF / "evidence").mkdir(exist_ok=True)
    (VERIF / "evidence" / f"{pid}.json").write_text(json.dumps(ev, indent=1, default=str))
    for ln in lines:
        print(ln)
    print(f"{pid}: tier={ctx.tier} seed={ctx.seed} obligations={len(discharged)}/{len(obligations)} "
          f"evaluations={ctx.evaluations} distinct={len(ctx.keys)} corr={ctx.corr_checked} "
          f"disagreements={len(ctx.disagreements)} failures={len(ctx.failures)} known={sorted(ctx.known_hits)} "
          f"wall={ev['wall_s']}s")
    return 1 if violations else 0

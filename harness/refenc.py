"""An independent reference encoder that makes arbitrary LEGAL choices (property C04), and a
catalogue of single-violation injections (property C16).

It shares nothing with pyjelly's serializer: own tables, random eviction victim, random IRI split
point, explicit or zero ids, early/redundant entries, repeats used or not, arbitrary frame cuts,
empty frames, repeated identical options rows, frame metadata. It uses `rdf_pb2` only as a
protobuf message builder. Every stream it produces must be accepted by the Lean referee
(`Spec.runRows`) with the intended denotation before it is used — otherwise the generator is
wrong and the check aborts with exit 2.
"""
from __future__ import annotations

import io
import random

from google.protobuf.proto import serialize_length_prefixed

from common import events_text
from common import bn_id, iri_s, lit_dt, lit_lang, lit_lex  # noqa: E402
from impl import IRI, BlankNode, DefaultGraph, Literal, Quad, Triple, jelly

XSD_STRING = "http://www.w3.org/2001/XMLSchema#string"


class Table:
    def __init__(self, size: int):
        self.size = size
        self.slots: list[str | None] = [None] * size
        self.last_assigned = 0
        self.last_reused = 0

    def find(self, v: str) -> list[int]:
        return [i + 1 for i, x in enumerate(self.slots) if x == v]


class CannotEncode(Exception):
    pass


class RefEncoder:
    def __init__(self, r: random.Random, *, physical: int, sizes=(8, 4, 4), version: int = 1, logical: int = 0,
                 name: str = "", generalized: bool = True, rdf_star: bool = True,
                 p_zero: float = 0.6, p_repeat: float = 0.6, p_redundant: float = 0.08, p_early: float = 0.05):
        self.r = r
        self.physical, self.version = physical, version
        self.names, self.prefixes, self.dts = Table(sizes[0]), Table(sizes[1]), Table(sizes[2])
        self.p_zero, self.p_repeat, self.p_redundant, self.p_early = p_zero, p_repeat, p_redundant, p_early
        self.rows: list = []
        self.events: list = []
        self.rep: dict[str, object] = {}
        self.pinned: dict[int, set[int]] = {}
        self.stats = dict(entries=0, zero_ids=0, explicit_ids=0, repeats=0, evictions=0, redundant=0, early=0,
                          quoted=0, splits_nonstandard=0)
        self.options = jelly.RdfStreamOptions(
            stream_name=name, physical_type=physical, generalized_statements=generalized, rdf_star=rdf_star,
            max_name_table_size=sizes[0], max_prefix_table_size=sizes[1], max_datatype_table_size=sizes[2],
            logical_type=logical, version=version)
        self.rows.append(jelly.RdfStreamRow(options=self.options))
        self.open_graph = None

    # -- tables ---------------------------------------------------------------------------
    def _pins(self, t: Table) -> set[int]:
        return self.pinned.setdefault(id(t), set())

    def _entry_row(self, t: Table, idx: int, v: str):
        wire = idx
        if idx == t.last_assigned + 1 and self.r.random() < self.p_zero:
            wire = 0
            self.stats["zero_ids"] += 1
        else:
            self.stats["explicit_ids"] += 1
        t.slots[idx - 1] = v
        t.last_assigned = idx
        self.stats["entries"] += 1
        if t is self.names:
            return jelly.RdfStreamRow(name=jelly.RdfNameEntry(id=wire, value=v))
        if t is self.prefixes:
            return jelly.RdfStreamRow(prefix=jelly.RdfPrefixEntry(id=wire, value=v))
        return jelly.RdfStreamRow(datatype=jelly.RdfDatatypeEntry(id=wire, value=v))

    def ensure(self, t: Table, v: str) -> int:
        """Make `v` resident, return its index; the slot is pinned for the current statement."""
        if t.size == 0:
            raise CannotEncode
        pins = self._pins(t)
        found = t.find(v)
        if found:
            idx = self.r.choice(found)
            if self.r.random() < self.p_redundant and idx not in pins:
                # legal but wasteful: send the same entry again
                self.rows.append(self._entry_row(t, idx, v))
                self.stats["redundant"] += 1
            pins.add(idx)
            return idx
        free = [i + 1 for i, x in enumerate(t.slots) if x is None and (i + 1) not in pins]
        nxt = t.last_assigned + 1
        if free and (self.r.random() < 0.8):
            idx = nxt if (nxt in free and self.r.random() < 0.8) else self.r.choice(free)
        else:
            cands = [i for i in range(1, t.size + 1) if i not in pins]
            if not cands:
                raise CannotEncode
            idx = self.r.choice(cands)
            if t.slots[idx - 1] is not None:
                self.stats["evictions"] += 1
        self.rows.append(self._entry_row(t, idx, v))
        pins.add(idx)
        return idx

    def _zero(self) -> bool:
        z = self.r.random() < self.p_zero
        self.stats["zero_ids" if z else "explicit_ids"] += 1
        return z

    # -- terms ----------------------------------------------------------------------------
    def split(self, iri: str) -> tuple[str, str]:
        if self.prefixes.size == 0:
            return "", iri
        x = self.r.random()
        if x < 0.6:
            for sep in "#/":
                i = iri.rfind(sep)
                if i >= 0:
                    return iri[: i + 1], iri[i + 1:]
            return "", iri
        self.stats["splits_nonstandard"] += 1
        k = self.r.randint(0, len(iri))
        return iri[:k], iri[k:]

    def iri_ids(self, iri: str) -> jelly.RdfIri:
        pfx, nm = self.split(iri)
        msg = jelly.RdfIri()
        # prefix
        if pfx == "" and self.prefixes.last_reused == 0:
            pid = 0
        else:
            try:
                pidx = self.ensure(self.prefixes, pfx)
            except CannotEncode:
                if self.prefixes.last_reused == 0:
                    pfx, nm, pidx = "", iri, None
                else:
                    raise
            if pidx is None:
                pid = 0
            else:
                pid = 0 if (pidx == self.prefixes.last_reused and self._zero()) else pidx
                self.prefixes.last_reused = pidx
        nidx = self.ensure(self.names, nm)
        nid = 0 if (nidx == self.names.last_reused + 1 and self._zero()) else nidx
        self.names.last_reused = nidx
        msg.prefix_id = pid
        msg.name_id = nid
        return msg

    def fill_literal(self, lit: Literal, msg: jelly.RdfLiteral) -> None:
        msg.lex = lit_lex(lit)
        if lit_lang(lit):
            msg.langtag = lit_lang(lit)
        elif lit_dt(lit) and lit_dt(lit) != XSD_STRING:
            idx = self.ensure(self.dts, lit_dt(lit))
            self.dts.last_reused = idx
            msg.datatype = idx

    def fill_spo(self, t, msg, slot: str) -> None:
        if isinstance(t, IRI):
            getattr(msg, f"{slot}_iri").CopyFrom(self.iri_ids(iri_s(t)))
        elif isinstance(t, BlankNode):
            setattr(msg, f"{slot}_bnode", bn_id(t))
        elif isinstance(t, Literal):
            self.fill_literal(t, getattr(msg, f"{slot}_literal"))
        elif isinstance(t, Triple):
            self.stats["quoted"] += 1
            q = getattr(msg, f"{slot}_triple_term")
            self.fill_spo(t.s, q, "s")
            self.fill_spo(t.p, q, "p")
            self.fill_spo(t.o, q, "o")
        else:
            raise CannotEncode

    def fill_graph(self, t, msg) -> None:
        if t is DefaultGraph:
            msg.g_default_graph.CopyFrom(jelly.RdfDefaultGraph())
        elif isinstance(t, IRI):
            msg.g_iri.CopyFrom(self.iri_ids(iri_s(t)))
        elif isinstance(t, BlankNode):
            msg.g_bnode = bn_id(t)
        elif isinstance(t, Literal):
            self.fill_literal(t, msg.g_literal)
        else:
            raise CannotEncode

    # -- rows -----------------------------------------------------------------------------
    def _begin(self):
        self.pinned = {}
        self._mark = (len(self.rows), self._snapshot())

    def _snapshot(self):
        return [(list(t.slots), t.last_assigned, t.last_reused) for t in (self.names, self.prefixes, self.dts)], dict(self.rep), dict(self.stats)

    def _rollback(self):
        n, (tabs, rep, stats) = self._mark
        del self.rows[n:]
        for t, (slots, la, lr) in zip((self.names, self.prefixes, self.dts), tabs):
            t.slots, t.last_assigned, t.last_reused = slots, la, lr
        self.rep, self.stats = rep, stats

    def _norm(self, t):
        if isinstance(t, Literal) and lit_dt(t) == XSD_STRING:
            return Literal(lit_lex(t), lit_lang(t), None)
        if isinstance(t, Triple):
            return Triple(*(self._norm(x) for x in t))
        return t

    def statement(self, terms) -> bool:
        """Append one triple/quad (or triple inside the open graph). False if it cannot be encoded."""
        self._begin()
        try:
            quad = self.physical == 2
            msg = jelly.RdfQuad() if quad else jelly.RdfTriple()
            for slot, key, t in zip("spo", ("subject", "predicate", "object"), terms[:3]):
                if key in self.rep and self.rep[key] == self._norm(t) and self.r.random() < self.p_repeat:
                    self.stats["repeats"] += 1
                    continue
                self.fill_spo(t, msg, slot)
                self.rep[key] = self._norm(t)
            if quad:
                g = terms[3]
                if "graph" in self.rep and self.rep["graph"] == self._norm(g) and self.r.random() < self.p_repeat:
                    self.stats["repeats"] += 1
                else:
                    self.fill_graph(g, msg)
                    self.rep["graph"] = self._norm(g)
                self.rows.append(jelly.RdfStreamRow(quad=msg))
                self.events.append(Quad(*(self._norm(t) for t in terms[:4])))
            else:
                self.rows.append(jelly.RdfStreamRow(triple=msg))
                if self.physical == 3:
                    self.events.append(Quad(*(self._norm(t) for t in terms[:3]), self._norm(self.open_graph)))
                else:
                    self.events.append(Triple(*(self._norm(t) for t in terms[:3])))
            return True
        except CannotEncode:
            self._rollback()
            return False

    def graph_start(self, g) -> bool:
        self._begin()
        try:
            msg = jelly.RdfGraphStart()
            self.fill_graph(g, msg)
            self.rows.append(jelly.RdfStreamRow(graph_start=msg))
            self.open_graph = g
            return True
        except CannotEncode:
            self._rollback()
            return False

    def graph_end(self) -> None:
        self.rows.append(jelly.RdfStreamRow(graph_end=jelly.RdfGraphEnd()))
        self.open_graph = None

    def namespace(self, name: str, iri: str) -> bool:
        from pyjelly.integrations.generic.generic_sink import Prefix

        self._begin()
        try:
            decl = jelly.RdfNamespaceDeclaration(name=name, value=self.iri_ids(iri))
            self.rows.append(jelly.RdfStreamRow(namespace=decl))
            self.events.append(Prefix(name, IRI(iri)))
            return True
        except CannotEncode:
            self._rollback()
            return False

    def early_entry(self, value: str) -> None:
        """An entry nobody asked for yet (legal)."""
        self.pinned = {}
        t = self.r.choice([self.names, self.prefixes, self.dts])
        if t.size:
            self._begin()
            try:
                self.ensure(t, value)
                self.stats["early"] += 1
            except CannotEncode:
                self._rollback()


# -------------------------------------------------------------------------------------------
# framing
# -------------------------------------------------------------------------------------------

def cut_frames(r: random.Random, rows: list, *, empty_prob=0.15, repeat_options_prob=0.1, metadata_prob=0.15,
               cuts: list[int] | None = None, allow_leading_empty=True):
    """Cut a row list into frames at random; returns list of RdfStreamFrame."""
    rows = list(rows)
    opt_row = rows[0]
    # repeated identical options rows at random later positions
    k = 1
    out_rows = [rows[0]]
    for row in rows[1:]:
        if r.random() < repeat_options_prob / 3:
            out_rows.append(opt_row)
        out_rows.append(row)
        k += 1
    rows = out_rows
    if cuts is None:
        n = len(rows)
        ncuts = r.randint(0, min(n - 1, 6))
        cuts = sorted(r.sample(range(1, n), ncuts)) if n > 1 and ncuts else []
    frames = []
    prev = 0
    for c in [*cuts, len(rows)]:
        if allow_leading_empty or frames:
            while r.random() < empty_prob:
                frames.append(_empty_frame(r, may_carry_metadata=bool(frames)))
        f = jelly.RdfStreamFrame(rows=rows[prev:c])
        if r.random() < metadata_prob:
            f.metadata["k"] = bytes([r.randint(0, 255) for _ in range(r.randint(0, 4))])
            if r.random() < 0.3:
                f.metadata["ü"] = b"x"
        frames.append(f)
        prev = c
    while r.random() < empty_prob:
        frames.append(_empty_frame(r, may_carry_metadata=True))
    return frames


def _empty_frame(r: random.Random, may_carry_metadata: bool):
    """A frame without rows; when it is not the first frame of the stream it sometimes carries metadata (a checkpoint or
    end-of-stream marker). A metadata-only FIRST frame is left to the directed C07 case (known finding at 10 bytes)."""
    f = jelly.RdfStreamFrame()
    if may_carry_metadata and r.random() < 0.4:
        f.metadata[r.choice(["ck", "eos", "k"])] = bytes([r.randint(0, 255) for _ in range(r.randint(0, 3))])
    return f


def frames_to_bytes(frames, delimited: bool) -> bytes:
    out = io.BytesIO()
    if delimited:
        for f in frames:
            serialize_length_prefixed(f, out)
    else:
        assert len(frames) == 1
        out.write(frames[0].SerializeToString(deterministic=True))
    return out.getvalue()


def build_valid_stream(r: random.Random, g, *, physical: int | None = None, n_stmts: int | None = None):
    """One random valid stream. Returns dict(bytes, delimited, frames, rows, events, enc)."""
    physical = physical or r.choice([1, 2, 3])
    sizes = r.choice([(8, 0, 0), (8, 1, 1), (8, 2, 2), (9, 3, 1), (16, 4, 4), (8, 4, 0), (32, 8, 8), (4096, 4096, 4096),
                      (4000, 150, 32)])
    version = r.choice([1, 1, 2])
    logical = r.choice({1: [0, 1, 3, 13], 2: [0, 2, 4, 14, 114], 3: [0, 2, 4, 14, 114]}[physical])
    enc = RefEncoder(r, physical=physical, sizes=sizes, version=version, logical=logical,
                     name=r.choice(["", "s", "näme"]), p_zero=r.choice([0.0, 0.5, 1.0]),
                     p_repeat=r.choice([0.0, 0.6, 1.0]))
    g.typed = sizes[2] != 0
    n = n_stmts if n_stmts is not None else r.randint(0, 10)
    prev = None
    for _ in range(n):
        if version >= 2 and r.random() < 0.12:
            enc.namespace(r.choice(["", "ex", "ü"]), iri_s(g.iri()))
        if r.random() < enc.p_early:
            enc.early_entry(r.choice(["zz", "http://early/", ""]))
        if physical == 3:
            if enc.open_graph is None or r.random() < 0.3:
                if enc.open_graph is not None and r.random() < 0.8:
                    enc.graph_end()
                gname = g.term("g")
                if not enc.graph_start(gname):
                    continue
            st = g.triple(prev)
        elif physical == 2:
            st = g.quad(prev)
        else:
            st = g.triple(prev)
        if enc.statement(st):
            prev = st
    if physical == 3 and enc.open_graph is not None and r.random() < 0.8:
        enc.graph_end()
    delimited = r.random() < 0.75
    if delimited:
        frames = cut_frames(r, enc.rows)
    else:
        frames = [jelly.RdfStreamFrame(rows=enc.rows)]
    return dict(bytes=frames_to_bytes(frames, delimited), delimited=delimited, frames=frames, rows=enc.rows,
                events=list(enc.events), events_text=events_text(enc.events), enc=enc,
                cfg=dict(physical=physical, sizes=sizes, version=version, logical=logical))


# -------------------------------------------------------------------------------------------
# C16: single-violation injections on a valid row list
# -------------------------------------------------------------------------------------------

def _clone(row):
    c = jelly.RdfStreamRow()
    c.CopyFrom(row)
    return c


def _first_iri(msg):
    """First RdfIri reachable in a statement-like message (depth first), or None."""
    for fd, val in msg.ListFields():
        if fd.message_type is not None and fd.message_type.name == "RdfIri":
            return val
        if fd.message_type is not None and fd.message_type.name == "RdfTriple":
            r = _first_iri(val)
            if r is not None:
                return r
    return None


def _first_literal_with_dt(msg):
    for fd, val in msg.ListFields():
        if fd.message_type is not None and fd.message_type.name == "RdfLiteral" and val.HasField("datatype"):
            return val
        if fd.message_type is not None and fd.message_type.name == "RdfTriple":
            r = _first_literal_with_dt(val)
            if r is not None:
                return r
    return None


def _first_literal(msg):
    for fd, val in msg.ListFields():
        if fd.message_type is not None and fd.message_type.name == "RdfLiteral":
            return val
    return None


VIOLATIONS = [
    "entry_id_beyond_size", "name_ref_beyond_size", "prefix_ref_beyond_size", "name_ref_unfilled",
    "datatype_ref_zero", "datatype_ref_beyond_size", "datatype_ref_disabled_table",
    "repeat_without_previous", "repeat_in_quoted", "missing_options", "options_not_first",
    "forbidden_row_kind", "triple_outside_graph", "unsupported_version", "unsupported_physical_type",
    "graph_start_without_term", "empty_row", "prefix_ref_disabled_table", "implicit_entry_id_past_last_slot",
    "datatype_ref_unfilled", "prefix_ref_unfilled",
]


def inject(r: random.Random, stream: dict, kind: str):
    """Return (rows', position) with ONE violation of class `kind` injected, or None if this
    stream offers no site for it. `position` is the index of the offending row in rows'."""
    rows = [_clone(x) for x in stream["rows"]]
    cfg = stream["cfg"]
    n_sz, p_sz, d_sz = cfg["sizes"]
    physical = cfg["physical"]
    stmt_idx = [i for i, x in enumerate(rows) if x.WhichOneof("row") in ("triple", "quad")]
    body = lambda x: getattr(x, x.WhichOneof("row"))  # noqa: E731

    if kind == "entry_id_beyond_size":
        cands = [i for i, x in enumerate(rows) if x.WhichOneof("row") in ("name", "prefix", "datatype")]
        if not cands:
            return None
        i = r.choice(cands)
        which = rows[i].WhichOneof("row")
        size = {"name": n_sz, "prefix": p_sz, "datatype": d_sz}[which]
        body(rows[i]).id = size + r.choice([1, 2, 1000, 2**32 - 1 - size])
        return rows, i
    if kind == "implicit_entry_id_past_last_slot":
        # an entry sent to the LAST slot, followed by an entry with id 0 (= previous id + 1 = size + 1)
        which, size = r.choice([("name", n_sz), ("prefix", p_sz), ("datatype", d_sz)])
        if size == 0:
            return None
        mk = {"name": lambda i, v: jelly.RdfStreamRow(name=jelly.RdfNameEntry(id=i, value=v)),
              "prefix": lambda i, v: jelly.RdfStreamRow(prefix=jelly.RdfPrefixEntry(id=i, value=v)),
              "datatype": lambda i, v: jelly.RdfStreamRow(datatype=jelly.RdfDatatypeEntry(id=i, value=v))}[which]
        i = r.randint(1, len(rows))
        rows.insert(i, mk(size, "last-slot"))
        rows.insert(i + 1, mk(0, "INTRUDER"))
        return rows, i + 1
    if kind in ("name_ref_beyond_size", "prefix_ref_beyond_size", "name_ref_unfilled", "prefix_ref_disabled_table"):
        r.shuffle(stmt_idx)
        for i in stmt_idx:
            iri = _first_iri(body(rows[i]))
            if iri is None:
                continue
            if kind == "name_ref_beyond_size":
                iri.name_id = n_sz + r.choice([1, 7, 2**31])
            elif kind == "prefix_ref_beyond_size":
                iri.prefix_id = p_sz + r.choice([1, 7, 2**31])
            elif kind == "prefix_ref_disabled_table":
                if p_sz != 0:
                    return None
                iri.prefix_id = r.choice([1, 3])
            else:
                # a slot that no entry row before position i has filled
                filled = set()
                last = 0
                for x in rows[:i]:
                    if x.WhichOneof("row") == "name":
                        idx = x.name.id or last + 1
                        filled.add(idx)
                        last = idx
                free = [k for k in range(1, n_sz + 1) if k not in filled]
                if not free:
                    continue
                iri.name_id = r.choice(free)
            return rows, i
        return None
    if kind in ("datatype_ref_unfilled", "prefix_ref_unfilled"):
        which, size = ("datatype", d_sz) if kind == "datatype_ref_unfilled" else ("prefix", p_sz)
        r.shuffle(stmt_idx)
        for i in stmt_idx:
            site = _first_literal_with_dt(body(rows[i])) if which == "datatype" else _first_iri(body(rows[i]))
            if site is None:
                continue
            # a slot within the declared size that no entry row before position i has filled
            filled, last = set(), 0
            for x in rows[:i]:
                if x.WhichOneof("row") == which:
                    idx = getattr(x, which).id or last + 1
                    filled.add(idx)
                    last = idx
            free = [k for k in range(1, size + 1) if k not in filled]
            if not free:
                continue
            if which == "datatype":
                site.datatype = r.choice(free)
            else:
                site.prefix_id = r.choice(free)
            return rows, i
        return None
    if kind in ("datatype_ref_zero", "datatype_ref_beyond_size"):
        r.shuffle(stmt_idx)
        for i in stmt_idx:
            lit = _first_literal_with_dt(body(rows[i]))
            if lit is None:
                continue
            lit.datatype = 0 if kind == "datatype_ref_zero" else d_sz + r.choice([1, 9])
            return rows, i
        return None
    if kind == "datatype_ref_disabled_table":
        if d_sz != 0:
            return None
        r.shuffle(stmt_idx)
        for i in stmt_idx:
            lit = _first_literal(body(rows[i]))
            if lit is None or lit.langtag:
                continue
            lit.datatype = r.choice([1, 2])
            return rows, i
        return None
    if kind == "repeat_without_previous":
        if not stmt_idx:
            return None
        i = stmt_idx[0]
        b = body(rows[i])
        oneofs = ["subject", "predicate", "object"] + (["graph"] if rows[i].WhichOneof("row") == "quad" else [])
        f = b.WhichOneof(r.choice(oneofs))
        b.ClearField(f)
        return rows, i
    if kind == "repeat_in_quoted":
        r.shuffle(stmt_idx)
        for i in stmt_idx:
            b = body(rows[i])
            for fd, val in b.ListFields():
                if fd.message_type is not None and fd.message_type.name == "RdfTriple":
                    f = val.WhichOneof(r.choice(["subject", "predicate", "object"]))
                    val.ClearField(f)
                    return rows, i
        return None
    if kind == "missing_options":
        return rows[1:], 0
    if kind == "options_not_first":
        if len(rows) < 2:
            return None
        return [rows[1], rows[0], *rows[2:]], 0
    if kind == "forbidden_row_kind":
        if physical == 1:
            bad = r.choice([jelly.RdfStreamRow(quad=jelly.RdfQuad(s_bnode="a", p_bnode="b", o_bnode="c", g_bnode="d")),
                            jelly.RdfStreamRow(graph_start=jelly.RdfGraphStart(g_bnode="g")),
                            jelly.RdfStreamRow(graph_end=jelly.RdfGraphEnd())])
        elif physical == 2:
            bad = r.choice([jelly.RdfStreamRow(triple=jelly.RdfTriple(s_bnode="a", p_bnode="b", o_bnode="c")),
                            jelly.RdfStreamRow(graph_start=jelly.RdfGraphStart(g_bnode="g")),
                            jelly.RdfStreamRow(graph_end=jelly.RdfGraphEnd())])
        else:
            bad = jelly.RdfStreamRow(quad=jelly.RdfQuad(s_bnode="a", p_bnode="b", o_bnode="c", g_bnode="d"))
        i = r.randint(1, len(rows))
        rows.insert(i, bad)
        return rows, i
    if kind == "triple_outside_graph":
        if physical != 3:
            return None
        # positions where no graph is open
        open_ = False
        sites = []
        for i, x in enumerate(rows):
            if not open_ and i >= 1:
                sites.append(i)
            w = x.WhichOneof("row")
            if w == "graph_start":
                open_ = True
            elif w == "graph_end":
                open_ = False
        if not open_:
            sites.append(len(rows))
        if not sites:
            return None
        i = r.choice(sites)
        rows.insert(i, jelly.RdfStreamRow(triple=jelly.RdfTriple(s_bnode="a", p_bnode="b", o_bnode="c")))
        return rows, i
    if kind == "unsupported_version":
        rows[0].options.version = r.choice([3, 4, 10000])
        return rows, 0
    if kind == "unsupported_physical_type":
        rows[0].options.physical_type = 0
        rows[0].options.logical_type = 0
        return rows, 0
    if kind == "graph_start_without_term":
        if physical != 3:
            return None
        i = r.randint(1, len(rows))
        rows.insert(i, jelly.RdfStreamRow(graph_start=jelly.RdfGraphStart()))
        return rows, i
    if kind == "empty_row":
        i = r.randint(1, len(rows))
        rows.insert(i, jelly.RdfStreamRow())
        return rows, i
    raise ValueError(kind)

"""Translator, part 6: the statement level of the writer -> lean/JellyGenerated/StmtGen.lean.

    pyjelly/serialize/encode.py : encode_spo, encode_triple, encode_quad, encode_namespace_declaration (module-level functions),
                                  TermEncoder.encode_iri

These carry the repeated-term elision of C19 (a slot equal to the previous statement's is left out), the roll-back of C20 (the
repeated terms are put back when a statement is refused) and the row bracket of C18 around every statement. They are
translated statement by statement onto the model's `EncState` (term encoder + the four repeated terms):

* the iterator `terms` is a list threaded through (`next(terms)` on an empty list raises the parameter `exc`, the flavour of
  StopIteration the caller sees); `terms = iter(terms)` is the identity;
* `repeated_terms[Slot.k]` is the field `rep.k`; `previous = list(repeated_terms)` a copy; `repeated_terms[:] = previous` puts it back;
* the statement message being filled in is the record `PStmt` (four optional wire terms);
* `term_encoder.encode_spo(t, Slot.k, statement)` / `term_encoder.encode_graph(t, statement)` — methods of the integration's
  encoder subclass, not translated — are the PARAMETERS `enc` / `encG`: they run on the term encoder, return the extra rows and
  the wire term, and the wire term is stored in slot `k` of the statement. The theorems take as hypothesis that `enc` / `encG`
  behave like the model's `TermEnc.spo` / `TermEnc.graph` (that part stays with the differential correspondence);
* `term_encoder.start_row()` / `end_row()` are the TRANSLATED methods of `EncGen.lean`.

Anything else in these functions is outside the fragment (exit 3: the tie is broken, the check searches for a failing input).
"""
from __future__ import annotations

import ast
import sys
from pathlib import Path

import common  # noqa: F401
from gen_translate import Unsupported, fail

REPO = Path(common.REPO)
OUT = Path(__file__).resolve().parent.parent / "lean" / "JellyGenerated" / "StmtGen.lean"
SRC = "pyjelly/serialize/encode.py"
FUNCS = ["encode_spo", "encode_triple", "encode_quad"]
SLOTS = {"subject": "s", "predicate": "p", "object": "o", "graph": "g"}
ZOOM = "zoom (·.te) (fun st v => { st with te := v })"


class Fn:
    def __init__(self, fn: ast.FunctionDef):
        self.fn = fn
        self.lines: list[str] = []
        self.tmp = 0
        names = [a.arg for a in fn.args.args]
        anns = [ast.unparse(a.annotation) if a.annotation is not None else "" for a in fn.args.args]
        if fn.args.vararg or fn.args.kwarg or fn.args.kwonlyargs or fn.args.defaults:
            fail(fn, "parameter list")
        self.terms = self.enc = self.rep = self.stmt_param = None
        for n, a in zip(names, anns):
            if a in ("Iterator[object]", "Iterable[object]"):
                self.terms = n
            elif a == "TermEncoder":
                self.enc = n
            elif a == "list[object | None]":
                self.rep = n
            elif a == "Statement":
                self.stmt_param = n
            else:
                fail(fn, f"parameter {n}: {a}")
        if None in (self.terms, self.enc, self.rep):
            fail(fn, "parameters")
        self.stmts: dict[str, str] = {}      # local/param holding a statement message -> "triple" | "quad" | "param"
        if self.stmt_param:
            self.stmts[self.stmt_param] = "param"
        self.rowlists: set[str] = set()      # locals holding a list of rows
        self.termvars: set[str] = set()      # locals holding a term taken from the iterator
        self.copies: set[str] = set()        # locals holding a copy of the repeated terms
        self.rowmsgs: dict[str, str] = {}    # local holding jelly.RdfStreamRow(<kind>=<stmt>) -> Lean row term
        self.declared: set[str] = set()

    def fresh(self) -> str:
        self.tmp += 1
        return f"t{self.tmp}__"

    def emit(self, ind: int, s: str) -> None:
        self.lines.append("  " * ind + s)

    def slot_of(self, e) -> str:
        if isinstance(e, ast.Subscript) and isinstance(e.value, ast.Name) and e.value.id == self.rep and isinstance(e.slice, ast.Attribute) \
                and isinstance(e.slice.value, ast.Name) and e.slice.value.id == "Slot" and e.slice.attr in SLOTS:
            return SLOTS[e.slice.attr]
        fail(e, "repeated-terms slot")

    def set_rows(self, ind: int, name: str, term: str) -> None:
        if name in self.declared:
            self.emit(ind, f"{name} := {term}")
        else:
            fail(self.fn, f"row list {name} not declared")

    def spo_call(self, c: ast.Call) -> bool:
        return isinstance(c, ast.Call) and isinstance(c.func, ast.Name) and c.func.id == "encode_spo" and not c.keywords and len(c.args) == 4 \
            and [getattr(a, "id", None) for a in c.args[:3]] == [self.terms, self.enc, self.rep] and getattr(c.args[3], "id", None) in self.stmts

    def stmt(self, ind: int, s: ast.stmt) -> None:  # noqa: C901, PLR0911, PLR0912, PLR0915
        if isinstance(s, ast.Expr) and isinstance(s.value, ast.Constant) and isinstance(s.value.value, str):
            return
        # rows: list[...] = []
        if isinstance(s, ast.AnnAssign) and isinstance(s.target, ast.Name) and isinstance(s.value, ast.List) and not s.value.elts:
            self.set_rows(ind, s.target.id, "([] : List Row)")
            return
        if isinstance(s, ast.Assign) and len(s.targets) == 1 and isinstance(s.targets[0], ast.Name):
            tg, v = s.targets[0].id, s.value
            # terms = iter(terms)
            if isinstance(v, ast.Call) and isinstance(v.func, ast.Name) and v.func.id == "iter" and len(v.args) == 1 \
                    and getattr(v.args[0], "id", None) == self.terms and tg == self.terms:
                return
            # x = next(terms)
            if isinstance(v, ast.Call) and isinstance(v.func, ast.Name) and v.func.id == "next" and len(v.args) == 1 \
                    and getattr(v.args[0], "id", None) == self.terms and not v.keywords:
                t = self.fresh()
                self.emit(ind, f"let {t} ← liftE (pyNext exc {self.terms})")
                self.emit(ind, f"{tg} := {t}.1")
                self.emit(ind, f"{self.terms} := {t}.2")
                return
            # triple = jelly.RdfTriple() / quad = jelly.RdfQuad()
            if isinstance(v, ast.Call) and ast.unparse(v.func) in ("jelly.RdfTriple", "jelly.RdfQuad") and not v.args and not v.keywords:
                self.emit(ind, f"{tg} := ({{}} : PStmt)")
                return
            # previous = list(repeated_terms)
            if isinstance(v, ast.Call) and isinstance(v.func, ast.Name) and v.func.id == "list" and len(v.args) == 1 and getattr(v.args[0], "id", None) == self.rep:
                self.emit(ind, f"{tg} := (← get).rep")
                return
            # extra_rows = term_encoder.encode_spo(x, Slot.k, statement) / term_encoder.encode_graph(x, statement)
            if isinstance(v, ast.Call) and isinstance(v.func, ast.Attribute) and getattr(v.func.value, "id", None) == self.enc and not v.keywords:
                if v.func.attr == "encode_spo" and len(v.args) == 3 and getattr(v.args[0], "id", None) in self.termvars \
                        and getattr(v.args[2], "id", None) in self.stmts and isinstance(v.args[1], ast.Attribute) \
                        and getattr(v.args[1].value, "id", None) == "Slot" and v.args[1].attr in ("subject", "predicate", "object"):
                    k, st, fnm = SLOTS[v.args[1].attr], v.args[2].id, "enc"
                elif v.func.attr == "encode_graph" and len(v.args) == 2 and getattr(v.args[0], "id", None) in self.termvars \
                        and getattr(v.args[1], "id", None) in self.stmts:
                    k, st, fnm = "g", v.args[1].id, "encG"
                else:
                    fail(s, "call on the term encoder")
                t = self.fresh()
                self.emit(ind, f"let {t} ← {ZOOM} ({fnm} {v.args[0].id})")
                self.set_rows(ind, tg, f"{t}.1")
                self.emit(ind, f"{st} := {{ {st} with {k} := some {t}.2 }}")
                return
            # rows = encode_spo(terms, term_encoder, repeated_terms, statement)
            if self.spo_call(v):
                st = v.args[3].id
                t = self.fresh()
                self.emit(ind, f"let {t} ← encode_spo enc encG exc {self.terms} {st}")
                self.set_rows(ind, tg, f"{t}.1")
                self.emit(ind, f"{self.terms} := {t}.2.1")
                self.emit(ind, f"{st} := {t}.2.2")
                return
            # row = jelly.RdfStreamRow(triple=triple)
            if isinstance(v, ast.Call) and ast.unparse(v.func) == "jelly.RdfStreamRow" and not v.args and len(v.keywords) == 1 \
                    and getattr(v.keywords[0].value, "id", None) in self.stmts and v.keywords[0].arg == self.stmts[v.keywords[0].value.id]:
                st, kind = v.keywords[0].value.id, v.keywords[0].arg
                self.rowmsgs[tg] = f"Row.triple {st}.s {st}.p {st}.o" if kind == "triple" else f"Row.quad {st}.s {st}.p {st}.o {st}.g"
                return
            fail(s, "assignment")
        # repeated_terms[Slot.k] = x
        if isinstance(s, ast.Assign) and len(s.targets) == 1 and isinstance(s.targets[0], ast.Subscript) and isinstance(s.value, ast.Name) \
                and isinstance(s.targets[0].slice, ast.Attribute):
            k = self.slot_of(s.targets[0])
            if s.value.id not in self.termvars:
                fail(s, "value stored in the repeated terms")
            self.emit(ind, f"modify fun st => {{ st with rep := {{ st.rep with {k} := some {s.value.id} }} }}")
            return
        # repeated_terms[:] = previous
        if isinstance(s, ast.Assign) and len(s.targets) == 1 and isinstance(s.targets[0], ast.Subscript) and getattr(s.targets[0].value, "id", None) == self.rep \
                and isinstance(s.targets[0].slice, ast.Slice) and s.targets[0].slice.lower is None and s.targets[0].slice.upper is None \
                and s.targets[0].slice.step is None and getattr(s.value, "id", None) in self.copies:
            self.emit(ind, f"modify fun st => {{ st with rep := {s.value.id} }}")
            return
        # if repeated_terms[Slot.k] != x:
        if isinstance(s, ast.If) and not s.orelse and isinstance(s.test, ast.Compare) and len(s.test.ops) == 1 and isinstance(s.test.ops[0], ast.NotEq) \
                and getattr(s.test.comparators[0], "id", None) in self.termvars:
            k = self.slot_of(s.test.left)
            self.emit(ind, f"if (← get).rep.{k} != some {s.test.comparators[0].id} then")
            for b in s.body:
                self.stmt(ind + 1, b)
            return
        if isinstance(s, ast.Expr) and isinstance(s.value, ast.Call) and isinstance(s.value.func, ast.Attribute) and not s.value.keywords:
            c = s.value
            # rows.extend(extra_rows) / rows.append(row)
            if getattr(c.func.value, "id", None) in self.rowlists and len(c.args) == 1 and isinstance(c.args[0], ast.Name):
                lst = c.func.value.id
                if c.func.attr == "extend" and c.args[0].id in self.rowlists:
                    self.emit(ind, f"{lst} := {lst} ++ {c.args[0].id}")
                    return
                if c.func.attr == "append" and c.args[0].id in self.rowmsgs:
                    self.emit(ind, f"{lst} := {lst} ++ [{self.rowmsgs[c.args[0].id]}]")
                    return
            # term_encoder.start_row() / end_row()
            if getattr(c.func.value, "id", None) == self.enc and c.func.attr in ("start_row", "end_row") and not c.args:
                self.emit(ind, f"{ZOOM} TermEncoder.{c.func.attr}")
                return
            fail(s, "call")
        # try: ... except Exception: ...; raise
        if isinstance(s, ast.Try) and not s.finalbody and not s.orelse and len(s.handlers) == 1 and getattr(s.handlers[0].type, "id", None) == "Exception" \
                and not s.handlers[0].name and s.handlers[0].body and isinstance(s.handlers[0].body[-1], ast.Raise) and s.handlers[0].body[-1].exc is None:
            self.emit(ind, "try")
            for b in s.body:
                self.stmt(ind + 1, b)
            self.emit(ind, "catch e__ =>")
            for b in s.handlers[0].body[:-1]:
                self.stmt(ind + 1, b)
            self.emit(ind + 1, "throw e__")
            return
        if isinstance(s, ast.Return) and isinstance(s.value, ast.Name) and s.value.id in self.rowlists:
            if self.stmt_param:
                self.emit(ind, f"return ({s.value.id}, {self.terms}, {self.stmt_param})")
            else:
                self.emit(ind, f"return {s.value.id}")
            return
        fail(s, "statement")

    def classify_locals(self) -> None:
        for node in ast.walk(self.fn):
            tg = v = None
            if isinstance(node, ast.AnnAssign) and isinstance(node.target, ast.Name):
                tg, v = node.target.id, node.value
            elif isinstance(node, ast.Assign) and len(node.targets) == 1 and isinstance(node.targets[0], ast.Name):
                tg, v = node.targets[0].id, node.value
            if tg is None or tg == self.terms:
                continue
            if isinstance(v, ast.List):
                self.rowlists.add(tg)
            elif isinstance(v, ast.Call) and isinstance(v.func, ast.Name) and v.func.id == "next":
                self.termvars.add(tg)
            elif isinstance(v, ast.Call) and isinstance(v.func, ast.Name) and v.func.id == "list":
                self.copies.add(tg)
            elif isinstance(v, ast.Call) and isinstance(v.func, ast.Name) and v.func.id == "encode_spo":
                self.rowlists.add(tg)
            elif isinstance(v, ast.Call) and isinstance(v.func, ast.Attribute) and v.func.attr in ("encode_spo", "encode_graph"):
                self.rowlists.add(tg)
            elif isinstance(v, ast.Call) and ast.unparse(v.func) == "jelly.RdfTriple":
                self.stmts[tg] = "triple"
            elif isinstance(v, ast.Call) and ast.unparse(v.func) == "jelly.RdfQuad":
                self.stmts[tg] = "quad"

    def render(self) -> str:
        self.classify_locals()
        if self.stmt_param:
            head = (f"def {self.fn.name} (enc encG : Term → M TermEnc (List Row × WTerm)) (exc : PyErr) ({self.terms} : List Term) "
                    f"({self.stmt_param} : PStmt) : M EncState (List Row × List Term × PStmt) := do")
        else:
            head = f"def {self.fn.name} (enc encG : Term → M TermEnc (List Row × WTerm)) (exc : PyErr) ({self.terms} : List Term) : M EncState (List Row) := do"
        self.lines = [head]
        self.emit(1, f"let mut {self.terms} := {self.terms}")
        if self.stmt_param:
            self.emit(1, f"let mut {self.stmt_param} := {self.stmt_param}")
        for n in sorted(self.rowlists):
            self.emit(1, f"let mut {n} : List Row := []")
            self.declared.add(n)
        for n in sorted(self.termvars):
            self.emit(1, f"let mut {n} : Term := default")
        for n in sorted(self.copies):
            self.emit(1, f"let mut {n} : Repeated := {{}}")
        for n, k in sorted(self.stmts.items()):
            if k != "param":
                self.emit(1, f"let mut {n} : PStmt := {{}}")
        for s in self.fn.body:
            self.stmt(1, s)
        return "\n".join(self.lines)


# -- TermEncoder.encode_iri and encode_namespace_declaration (the writer's side of a namespace declaration) -----------------
def render_encode_iri(tree: ast.Module) -> str:
    cd = next((n for n in tree.body if isinstance(n, ast.ClassDef) and n.name == "TermEncoder"), None)
    fn = next((f for f in (cd.body if cd else []) if isinstance(f, ast.FunctionDef) and f.name == "encode_iri"), None)
    if fn is None:
        raise Unsupported(f"{SRC}: TermEncoder.encode_iri not found")
    a = fn.args
    if [x.arg for x in a.args[1:]] == [] or len(a.args) != 3 or a.vararg or a.kwarg or a.kwonlyargs or a.defaults:
        fail(fn, "parameter list")
    sparam, mparam = a.args[1].arg, a.args[2].arg
    if ast.unparse(a.args[1].annotation) != "str" or ast.unparse(a.args[2].annotation) != "jelly.RdfIri":
        fail(fn, "parameter annotations")
    body = [s for s in fn.body if not (isinstance(s, ast.Expr) and isinstance(s.value, ast.Constant))]
    if len(body) != 4:
        fail(fn, "shape")
    s0, s1, s2, s3 = body
    if not (isinstance(s0, ast.Assign) and isinstance(s0.targets[0], ast.Tuple) and len(s0.targets[0].elts) == 3 and all(isinstance(e, ast.Name) for e in s0.targets[0].elts)
            and isinstance(s0.value, ast.Call) and ast.unparse(s0.value.func) == "self.encode_iri_indices" and len(s0.value.args) == 1
            and getattr(s0.value.args[0], "id", None) == sparam and not s0.value.keywords):
        fail(s0, "call of encode_iri_indices")
    rows, pidx, nidx = (e.id for e in s0.targets[0].elts)
    proj = {rows: "t1__.1", pidx: "t1__.2.1", nidx: "t1__.2.2"}
    lines = [f"def TermEncoder.encode_iri ({sparam} : String) : M Jelly.TermEnc (List Row × (Nat × Nat)) := do",
             f"  let t1__ ← TermEncoder.encode_iri_indices {sparam}",
             f"  let mut {mparam}__ : Nat × Nat := (0, 0)"]
    for st in (s1, s2):
        if not (isinstance(st, ast.Assign) and isinstance(st.targets[0], ast.Attribute) and getattr(st.targets[0].value, "id", None) == mparam
                and st.targets[0].attr in ("prefix_id", "name_id") and getattr(st.value, "id", None) in (pidx, nidx)):
            fail(st, "field of the IRI message")
        if st.targets[0].attr == "prefix_id":
            lines.append(f"  {mparam}__ := ({proj[st.value.id]}, {mparam}__.2)")
        else:
            lines.append(f"  {mparam}__ := ({mparam}__.1, {proj[st.value.id]})")
    if not (isinstance(s3, ast.Return) and getattr(s3.value, "id", None) == rows):
        fail(s3, "return")
    lines.append(f"  return ({proj[rows]}, {mparam}__)")
    return "\n".join(lines)


def render_namespace(tree: ast.Module) -> str:
    fn = next((f for f in tree.body if isinstance(f, ast.FunctionDef) and f.name == "encode_namespace_declaration"), None)
    if fn is None:
        raise Unsupported(f"{SRC}: encode_namespace_declaration not found")
    a = fn.args
    names = [x.arg for x in a.args]
    anns = [ast.unparse(x.annotation) if x.annotation is not None else "" for x in a.args]
    if anns != ["str", "str", "TermEncoder"] or a.vararg or a.kwarg or a.kwonlyargs or a.defaults:
        fail(fn, "parameter list")
    pname, pvalue, penc = names
    body = [s for s in fn.body if not (isinstance(s, ast.Expr) and isinstance(s.value, ast.Constant))]
    lines = [f"def encode_namespace_declaration ({pname} : String) ({pvalue} : String) : M Jelly.TermEnc (List Row) := do"]
    msg = rows = decl = rowmsg = None
    for st in body:
        # iri = jelly.RdfIri()
        if isinstance(st, ast.Assign) and isinstance(st.targets[0], ast.Name) and isinstance(st.value, ast.Call) and ast.unparse(st.value.func) == "jelly.RdfIri" \
                and not st.value.args and not st.value.keywords and msg is None:
            msg = st.targets[0].id
            lines.append(f"  let mut {msg}__ : Nat × Nat := (0, 0)")
            continue
        if isinstance(st, ast.Expr) and isinstance(st.value, ast.Call) and getattr(getattr(st.value.func, "value", None), "id", None) == penc \
                and st.value.func.attr in ("start_row", "end_row") and not st.value.args:
            lines.append(f"  TermEncoder.{st.value.func.attr}")
            continue
        # [*rows] = term_encoder.encode_iri(value, iri=iri)   /   rows = list(term_encoder.encode_iri(value, iri))
        call = st.value if isinstance(st, ast.Assign) else None
        as_list = isinstance(call, ast.Call) and getattr(call.func, "id", None) == "list" and len(call.args) == 1 and not call.keywords
        if as_list:
            call = call.args[0]
        if isinstance(st, ast.Assign) and isinstance(call, ast.Call) and getattr(getattr(call.func, "value", None), "id", None) == penc \
                and call.func.attr == "encode_iri" and msg is not None:
            tg = st.targets[0]
            if not as_list and isinstance(tg, ast.List) and len(tg.elts) == 1 and isinstance(tg.elts[0], ast.Starred) and isinstance(tg.elts[0].value, ast.Name):
                rows = tg.elts[0].value.id
            elif as_list and isinstance(tg, ast.Name):
                rows = tg.id
            else:
                fail(st, "target of encode_iri")
            st = ast.Assign(targets=st.targets, value=call)
            given = dict(zip(("iri_string", "iri"), st.value.args))
            for k in st.value.keywords:
                given[k.arg] = k.value
            if set(given) != {"iri_string", "iri"} or getattr(given["iri_string"], "id", None) != pvalue or getattr(given["iri"], "id", None) != msg:
                fail(st, "arguments of encode_iri")
            lines.append(f"  let t1__ ← TermEncoder.encode_iri {pvalue}")
            lines.append(f"  let mut {rows} : List Row := t1__.1")
            lines.append(f"  {msg}__ := t1__.2")
            continue
        # declaration = jelly.RdfNamespaceDeclaration(name=name, value=iri)
        if isinstance(st, ast.Assign) and isinstance(st.targets[0], ast.Name) and isinstance(st.value, ast.Call) \
                and ast.unparse(st.value.func) == "jelly.RdfNamespaceDeclaration" and not st.value.args:
            kw = {k.arg: getattr(k.value, "id", None) for k in st.value.keywords}
            if kw != {"name": pname, "value": msg}:
                fail(st, "namespace declaration message")
            decl = st.targets[0].id
            continue
        # row = jelly.RdfStreamRow(namespace=declaration)
        if isinstance(st, ast.Assign) and isinstance(st.targets[0], ast.Name) and isinstance(st.value, ast.Call) and ast.unparse(st.value.func) == "jelly.RdfStreamRow" \
                and not st.value.args and len(st.value.keywords) == 1 and st.value.keywords[0].arg == "namespace" and getattr(st.value.keywords[0].value, "id", None) == decl and decl:
            rowmsg = st.targets[0].id
            continue
        if isinstance(st, ast.Expr) and isinstance(st.value, ast.Call) and isinstance(st.value.func, ast.Attribute) and st.value.func.attr == "append" \
                and getattr(st.value.func.value, "id", None) == rows and rows and len(st.value.args) == 1 and getattr(st.value.args[0], "id", None) == rowmsg and rowmsg:
            lines.append(f"  {rows} := {rows} ++ [Row.namespace {pname} (some {msg}__)]")
            continue
        if isinstance(st, ast.Return) and getattr(st.value, "id", None) == rows and rows:
            lines.append(f"  return {rows}")
            continue
        fail(st, "statement")
    return "\n".join(lines)


def translate() -> str:
    tree = ast.parse((REPO / SRC).read_text())
    out = ["import JellyModel.PyPreludeStmt", "import JellyGenerated.EncGen", "/-!",
           "# GENERATED — do not edit. Translated from pyjelly/serialize/encode.py (encode_spo / encode_triple / encode_quad) by",
           "harness/gen_translate_stmt.py on every check run; `JellyProofs/TranslatedStmt.lean` proves them equal to the model's",
           "`encodeTriple` / `encodeQuad`.", "-/", "set_option linter.unusedVariables false", "namespace Jelly.Gen", "open Jelly Jelly.Py", ""]
    for name in FUNCS:
        fn = next((f for f in tree.body if isinstance(f, ast.FunctionDef) and f.name == name), None)
        if fn is None:
            raise Unsupported(f"{SRC}: {name} not found")
        out.append(f"/-- `{name}` ({SRC}:{fn.lineno}) -/")
        out.append(Fn(fn).render())
        out.append("")
    out += ["/-- `TermEncoder.encode_iri`: the ids of `encode_iri_indices` stored in the IRI message (its two fields are the result) -/",
            render_encode_iri(tree), "", "/-- `encode_namespace_declaration` -/", render_namespace(tree), ""]
    out.append("end Jelly.Gen")
    return "\n".join(out) + "\n"


def main() -> int:
    try:
        text = translate()
    except Unsupported as e:
        print(f"gen_translate_stmt: source outside the translated fragment: {e}", file=sys.stderr)
        return 3
    except Exception as e:  # noqa: BLE001
        print(f"gen_translate_stmt: source outside the translated fragment (translator error {type(e).__name__}: {e})", file=sys.stderr)
        return 3
    if OUT.exists() and OUT.read_text() == text:
        print("gen_translate_stmt: unchanged")
    else:
        OUT.write_text(text)
        print("gen_translate_stmt: written", OUT)
    return 0


if __name__ == "__main__":
    sys.exit(main())

"""Translator, part 8: the statement methods of the writer's streams -> lean/JellyGenerated/StreamGen.lean.

    pyjelly/serialize/streams.py : TripleStream.triple, QuadStream.quad, Stream.enroll (+ Stream.stream_options),
                                   Stream.namespace_declaration, GraphStream.graph

They join the translated pieces: the rows `encode_triple` / `encode_quad` (StmtGen.lean) return are ALL appended to the flow
(`self.flow.extend`), and the flow is asked for a frame after every statement (`self.flow.frame_from_bounds()`, dynamic
dispatch: the method of whatever flow class the stream holds — a PARAMETER here, instantiated with the translated method of each
of the six classes of FlowsGen.lean in the theorems). Pattern-directed; names are free; anything else is outside the fragment.

* `self.encoder` + `self.repeated_terms` are the model's `enc : EncState`; `self.flow` is `flow : Flow`;
* `encode_triple(terms, term_encoder=self.encoder, repeated_terms=self.repeated_terms)` is the translated function run on `enc`;
* `self.flow.extend(rows)` / `self.flow.append(row)` (`UserList`) append to `flow.rows`;
* `encode_options(...)` in `stream_options` is not translated: the options row is the parameter `optsRow`.
"""
from __future__ import annotations

import ast
import sys
from pathlib import Path

import common  # noqa: F401
from gen_translate import Unsupported, fail

REPO = Path(common.REPO)
OUT = Path(__file__).resolve().parent.parent / "lean" / "JellyGenerated" / "StreamGen.lean"
SRC = "pyjelly/serialize/streams.py"
ZE = "zoom (·.enc) (fun s v => { s with enc := v })"
ZF = "zoom (·.flow) (fun s v => { s with flow := v })"


def body_of(fn: ast.FunctionDef) -> list[ast.stmt]:
    return [s for s in fn.body if not (isinstance(s, ast.Expr) and isinstance(s.value, ast.Constant) and isinstance(s.value.value, str))]


def render_statement_method(cls: str, fn: ast.FunctionDef, encoder_fn: str) -> str:
    a = fn.args
    if len(a.args) != 2 or a.vararg or a.kwarg or a.kwonlyargs or a.defaults:
        fail(fn, "parameter list")
    terms = a.args[1].arg
    b = body_of(fn)
    if len(b) != 3:
        fail(fn, "shape")
    s0, s1, s2 = b
    # new_rows = encode_triple(terms, term_encoder=self.encoder, repeated_terms=self.repeated_terms)
    if not (isinstance(s0, ast.Assign) and len(s0.targets) == 1 and isinstance(s0.targets[0], ast.Name) and isinstance(s0.value, ast.Call)
            and getattr(s0.value.func, "id", None) == encoder_fn):
        fail(s0, f"call of {encoder_fn}")
    c = s0.value
    given = {}
    for name, v in zip(("terms", "term_encoder", "repeated_terms"), c.args):
        given[name] = v
    for k in c.keywords:
        if k.arg in given or k.arg not in ("terms", "term_encoder", "repeated_terms"):
            fail(s0, "arguments")
        given[k.arg] = k.value
    if len(given) != 3 or ast.unparse(given["terms"]) != terms or ast.unparse(given["term_encoder"]) != "self.encoder" \
            or ast.unparse(given["repeated_terms"]) != "self.repeated_terms":
        fail(s0, "arguments")
    rows = s0.targets[0].id
    # self.flow.extend(new_rows)
    if not (isinstance(s1, ast.Expr) and isinstance(s1.value, ast.Call) and ast.unparse(s1.value.func) == "self.flow.extend"
            and len(s1.value.args) == 1 and getattr(s1.value.args[0], "id", None) == rows and not s1.value.keywords):
        fail(s1, "flow.extend")
    # return self.flow.frame_from_bounds()
    if not (isinstance(s2, ast.Return) and isinstance(s2.value, ast.Call) and ast.unparse(s2.value.func) == "self.flow.frame_from_bounds"
            and not s2.value.args and not s2.value.keywords):
        fail(s2, "return")
    return "\n".join([
        f"def {cls}.{fn.name} (enc encG : Term → M TermEnc (List Row × WTerm)) (exc : PyErr) (frame_from_bounds : M Flow (Option Frame)) "
        f"({terms} : List Term) : M Stream (Option Frame) := do",
        f"  let {rows} ← {ZE} ({encoder_fn} enc encG exc {terms})",
        f"  {ZF} (flowExtend {rows})",
        f"  return (← {ZF} frame_from_bounds)"])


def render_enroll(enroll: ast.FunctionDef, stream_options: ast.FunctionDef) -> str:
    # stream_options: self.flow.append(encode_options(...))
    b = body_of(stream_options)
    if not (len(b) == 1 and isinstance(b[0], ast.Expr) and isinstance(b[0].value, ast.Call) and ast.unparse(b[0].value.func) == "self.flow.append"
            and len(b[0].value.args) == 1 and isinstance(b[0].value.args[0], ast.Call) and getattr(b[0].value.args[0].func, "id", None) == "encode_options"):
        fail(stream_options, "stream_options")
    # enroll: if not self.enrolled: self.stream_options(); self.enrolled = True
    e = body_of(enroll)
    if not (len(e) == 1 and isinstance(e[0], ast.If) and not e[0].orelse and ast.unparse(e[0].test) == "not self.enrolled" and len(e[0].body) == 2):
        fail(enroll, "enroll")
    c0, c1 = e[0].body
    if not (isinstance(c0, ast.Expr) and isinstance(c0.value, ast.Call) and ast.unparse(c0.value.func) == "self.stream_options" and not c0.value.args):
        fail(c0, "enroll body")
    if not (isinstance(c1, ast.Assign) and ast.unparse(c1.targets[0]) == "self.enrolled" and isinstance(c1.value, ast.Constant) and c1.value.value is True):
        fail(c1, "enroll body")
    return "\n".join([
        "def Stream.stream_options (optsRow : Row) : M Stream Unit := do",
        f"  {ZF} (flowExtend [optsRow])",
        "",
        "def Stream.enroll (optsRow : Row) : M Stream Unit := do",
        "  if (!(← get).enrolled) then",
        "    Stream.stream_options optsRow",
        "    modify fun s => { s with enrolled := true }"])


def render_namespace_declaration(fn: ast.FunctionDef) -> str:
    """rows = encode_namespace_declaration(name=name, value=iri, term_encoder=self.encoder); self.flow.extend(rows)"""
    a = fn.args
    if len(a.args) != 3 or a.vararg or a.kwarg or a.kwonlyargs or a.defaults or [ast.unparse(x.annotation) for x in a.args[1:]] != ["str", "str"]:
        fail(fn, "parameter list")
    pname, piri = a.args[1].arg, a.args[2].arg
    b = body_of(fn)
    if len(b) != 2:
        fail(fn, "shape")
    s0, s1 = b
    if not (isinstance(s0, ast.Assign) and len(s0.targets) == 1 and isinstance(s0.targets[0], ast.Name) and isinstance(s0.value, ast.Call)
            and getattr(s0.value.func, "id", None) == "encode_namespace_declaration"):
        fail(s0, "call of encode_namespace_declaration")
    given = dict(zip(("name", "value", "term_encoder"), s0.value.args))
    for k in s0.value.keywords:
        if k.arg in given:
            fail(s0, "arguments")
        given[k.arg] = k.value
    if set(given) != {"name", "value", "term_encoder"} or getattr(given["name"], "id", None) != pname or getattr(given["value"], "id", None) != piri \
            or ast.unparse(given["term_encoder"]) != "self.encoder":
        fail(s0, "arguments")
    rows = s0.targets[0].id
    if not (isinstance(s1, ast.Expr) and isinstance(s1.value, ast.Call) and ast.unparse(s1.value.func) == "self.flow.extend"
            and len(s1.value.args) == 1 and getattr(s1.value.args[0], "id", None) == rows and not s1.value.keywords):
        fail(s1, "flow.extend")
    return "\n".join([
        f"def Stream.namespace_declaration ({pname} : String) ({piri} : String) : M Stream Unit := do",
        f"  let {rows} ← zoom (·.enc.te) (fun s v => {{ s with enc := {{ s.enc with te := v }} }}) (encode_namespace_declaration {pname} {piri})",
        f"  {ZF} (flowExtend {rows})"])


def render_graph(fn: ast.FunctionDef) -> str:  # noqa: C901, PLR0912, PLR0915
    """GraphStream.graph: a generator; the frames it yields are collected in the second component of the state (so that the
    ones yielded before an exception are kept, as a consumer of the generator keeps them); the `for` over the triples is a
    structural recursion over the list (`GraphStream.graph__loop`)."""
    a = fn.args
    if len(a.args) != 3 or a.vararg or a.kwarg or a.kwonlyargs or a.defaults:
        fail(fn, "parameter list")
    gid, graph = a.args[1].arg, a.args[2].arg
    ZT = "onStream (zoom (·.enc.te) (fun s v => { s with enc := { s.enc with te := v } })"
    pre, post, loop = [], [], None
    msg = rows = None
    rowmsgs: dict[str, str] = {}
    cur = pre

    def walrus_yield(st) -> str | None:
        """if frame := <call>: yield frame  ->  the call"""
        if isinstance(st, ast.If) and not st.orelse and isinstance(st.test, ast.NamedExpr) and isinstance(st.test.target, ast.Name) and len(st.body) == 1 \
                and isinstance(st.body[0], ast.Expr) and isinstance(st.body[0].value, ast.Yield) and getattr(st.body[0].value.value, "id", None) == st.test.target.id:
            return ast.unparse(st.test.value)
        return None

    for st in body_of(fn):
        if isinstance(st, ast.Assign) and isinstance(st.targets[0], ast.Name) and isinstance(st.value, ast.Call) and ast.unparse(st.value.func) == "jelly.RdfGraphStart" \
                and not st.value.args and not st.value.keywords and msg is None:
            msg = st.targets[0].id
            cur.append(f"  let mut {msg} : PStmt := {{}}")
            continue
        if isinstance(st, ast.Expr) and isinstance(st.value, ast.Call) and ast.unparse(st.value.func) in ("self.encoder.start_row", "self.encoder.end_row") and not st.value.args:
            cur.append(f"  {ZT} TermEncoder.{st.value.func.attr})")
            continue
        # [*graph_rows] = self.encoder.encode_graph(graph_id, graph_start)
        if isinstance(st, ast.Assign) and isinstance(st.value, ast.Call) and ast.unparse(st.value.func) == "self.encoder.encode_graph" and msg is not None \
                and [getattr(x, "id", None) for x in st.value.args] == [gid, msg] and not st.value.keywords:
            tg = st.targets[0]
            if not (isinstance(tg, ast.List) and len(tg.elts) == 1 and isinstance(tg.elts[0], ast.Starred) and isinstance(tg.elts[0].value, ast.Name)):
                fail(st, "target of encode_graph")
            rows = tg.elts[0].value.id
            cur.append(f"  let t1__ ← {ZT} (encG {gid}))")
            cur.append(f"  let mut {rows} : List Row := t1__.1")
            cur.append(f"  {msg} := {{ {msg} with g := some t1__.2 }}")
            continue
        # start_row = jelly.RdfStreamRow(graph_start=graph_start) / end_row = jelly.RdfStreamRow(graph_end=jelly.RdfGraphEnd())
        if isinstance(st, ast.Assign) and isinstance(st.targets[0], ast.Name) and isinstance(st.value, ast.Call) and ast.unparse(st.value.func) == "jelly.RdfStreamRow" \
                and not st.value.args and len(st.value.keywords) == 1:
            k = st.value.keywords[0]
            if k.arg == "graph_start" and getattr(k.value, "id", None) == msg and msg:
                rowmsgs[st.targets[0].id] = f"Row.graphStart {msg}.g"
                continue
            if k.arg == "graph_end" and ast.unparse(k.value) == "jelly.RdfGraphEnd()":
                rowmsgs[st.targets[0].id] = "Row.graphEnd"
                continue
            fail(st, "row")
        if isinstance(st, ast.Expr) and isinstance(st.value, ast.Call) and isinstance(st.value.func, ast.Attribute) and len(st.value.args) == 1 and not st.value.keywords:
            c = st.value
            if c.func.attr == "append" and getattr(c.func.value, "id", None) == rows and rows and getattr(c.args[0], "id", None) in rowmsgs:
                cur.append(f"  {rows} := {rows} ++ [{rowmsgs[c.args[0].id]}]")
                continue
            if ast.unparse(c.func) == "self.flow.extend" and getattr(c.args[0], "id", None) == rows and rows:
                cur.append(f"  onStream ({ZF} (flowExtend {rows}))")
                continue
            if ast.unparse(c.func) == "self.flow.append" and getattr(c.args[0], "id", None) in rowmsgs:
                cur.append(f"  onStream ({ZF} (flowExtend [{rowmsgs[c.args[0].id]}]))")
                continue
            fail(st, "call")
        # for triple in graph: if frame := self.triple(triple): yield frame
        if isinstance(st, ast.For) and not st.orelse and isinstance(st.target, ast.Name) and getattr(st.iter, "id", None) == graph and loop is None and len(st.body) == 1:
            call = walrus_yield(st.body[0])
            if call != f"self.triple({st.target.id})":
                fail(st, "loop body")
            loop = st.target.id
            cur.append(f"  GraphStream.graph__loop enc encG exc frame_from_bounds {graph}")
            cur = post
            continue
        call = walrus_yield(st)
        if call == "self.flow.frame_from_bounds()":
            cur.append(f"  let t9__ ← onStream ({ZF} frame_from_bounds)")
            cur.append("  if t9__.isSome then")
            cur.append("    yieldFrame (← liftE (optGet t9__))")
            continue
        fail(st, "statement")
    if loop is None:
        fail(fn, "no loop over the triples")
    head = "(enc encG : Term → M TermEnc (List Row × WTerm)) (exc : PyErr) (frame_from_bounds : M Flow (Option Frame))"
    return "\n".join([
        f"def GraphStream.graph__loop {head} : List (List Term) → M (Stream × List Frame) Unit",
        "  | [] => pure ()",
        f"  | {loop} :: rest__ => do",
        f"    let t8__ ← onStream (TripleStream.triple enc encG exc frame_from_bounds {loop})",
        "    if t8__.isSome then",
        "      yieldFrame (← liftE (optGet t8__))",
        "    GraphStream.graph__loop enc encG exc frame_from_bounds rest__",
        "",
        f"def GraphStream.graph {head} ({gid} : Term) ({graph} : List (List Term)) : M (Stream × List Frame) Unit := do",
        *pre, *post])


def translate() -> str:
    tree = ast.parse((REPO / SRC).read_text())

    def cls(name):
        cd = next((n for n in tree.body if isinstance(n, ast.ClassDef) and n.name == name), None)
        if cd is None:
            raise Unsupported(f"{SRC}: class {name} not found")
        return cd

    def meth(cd, name):
        fn = next((f for f in cd.body if isinstance(f, ast.FunctionDef) and f.name == name), None)
        if fn is None:
            raise Unsupported(f"{SRC}: {cd.name}.{name} not found")
        return fn

    out = ["import JellyModel.PyPreludeStream", "import JellyGenerated.StmtGen", "/-!",
           "# GENERATED — do not edit. Translated from pyjelly/serialize/streams.py (TripleStream.triple / QuadStream.quad / Stream.enroll) by",
           "harness/gen_translate_stream.py on every check run; `JellyProofs/TranslatedStream.lean` proves them equal to the model's",
           "`Stream.triple` / `Stream.quad` / `Stream.enroll`.", "-/", "set_option linter.unusedVariables false", "namespace Jelly.Gen", "open Jelly Jelly.Py", ""]
    t = meth(cls("TripleStream"), "triple")
    out += [f"/-- `TripleStream.triple` ({SRC}:{t.lineno}) -/", render_statement_method("TripleStream", t, "encode_triple"), ""]
    q = meth(cls("QuadStream"), "quad")
    out += [f"/-- `QuadStream.quad` ({SRC}:{q.lineno}) -/", render_statement_method("QuadStream", q, "encode_quad"), ""]
    st = cls("Stream")
    out += [f"/-- `Stream.stream_options` / `Stream.enroll` ({SRC}:{meth(st, 'enroll').lineno}) -/", render_enroll(meth(st, "enroll"), meth(st, "stream_options")), ""]
    gr = meth(cls("GraphStream"), "graph")
    out += [f"/-- `GraphStream.graph` ({SRC}:{gr.lineno}) -/", render_graph(gr), ""]
    nd = meth(st, "namespace_declaration")
    out += [f"/-- `Stream.namespace_declaration` ({SRC}:{nd.lineno}) -/", render_namespace_declaration(nd), ""]
    out.append("end Jelly.Gen")
    return "\n".join(out) + "\n"


def main() -> int:
    try:
        text = translate()
    except Unsupported as e:
        print(f"gen_translate_stream: source outside the translated fragment: {e}", file=sys.stderr)
        return 3
    except Exception as e:  # noqa: BLE001
        print(f"gen_translate_stream: source outside the translated fragment (translator error {type(e).__name__}: {e})", file=sys.stderr)
        return 3
    if OUT.exists() and OUT.read_text() == text:
        print("gen_translate_stream: unchanged")
    else:
        OUT.write_text(text)
        print("gen_translate_stream: written", OUT)
    return 0


if __name__ == "__main__":
    sys.exit(main())

"""Write /verif/MANIFEST.json from the registry (one source of truth for claimed properties)."""
from __future__ import annotations

import json
from pathlib import Path

import manifest_text as mt
from registry import REGISTRY

VERIF = Path(__file__).resolve().parent.parent
ALL = [f"C{i:02d}" for i in range(1, 21)]

checks = []
for pid in ALL:
    if pid not in REGISTRY or not REGISTRY[pid].get("claimed", True):
        continue
    spec = REGISTRY[pid]
    checks.append(dict(
        property_id=pid,
        quick_cmd=f"./check {pid} --tier quick",
        thorough_cmd=f"./check {pid} --tier thorough",
        evidence_file=f"evidence/{pid}.json",
        replay_cmd_template=f"./check {pid} --replay {{path}}",
        engine="lean4-model+correspondence",
        level_claimed=dict(category="proof", text=mt.LEVEL[pid], design_ref=f"DESIGN.md §6 {pid}"),
        level_note=mt.NOTE.get(pid, mt.NOTE_DEFAULT),
        technique=mt.TECHNIQUE.get(pid, mt._T_DEFAULT),
    ))

manifest = dict(
    version=1,
    setup_cmd="/venv/bin/python harness/gen_tables.py && /venv/bin/python harness/gen_translate.py && /venv/bin/python harness/gen_translate_flows.py && /venv/bin/python harness/gen_translate_funcs.py && /venv/bin/python harness/gen_translate_enc.py && /venv/bin/python harness/gen_translate_dec.py && /venv/bin/python harness/gen_translate_stmt.py && /venv/bin/python harness/gen_translate_dstmt.py && /venv/bin/python harness/gen_translate_stream.py && cd lean && lake build",
    hooks=dict(
        guard="PYJELLY_VERIF",
        enable="no source hooks are needed or installed: every observation is made in-process from the harness "
               "(stream.flow, encoder tables, byte-source doubles, counting generators); the harness sets PYJELLY_VERIF=1 "
               "for its own processes only",
        baseline_off_cmd="cd /repo && /venv/bin/python -m pytest -ra -q -p no:cacheprovider --timeout=900 --continue-on-collection-errors",
        source_commits=[],
        add_only=True,
    ),
    engines=[dict(name="lean4-model+correspondence", path="lean/ + harness/", serves_properties=sorted(p for p in REGISTRY if REGISTRY[p].get('claimed', True)),
                  kind_free_text="Lean 4 executable model with machine-checked theorems; finite tables regenerated from the live "
                                 "code and proved equal by decide; the lookup classes and the frame-flow classes translated from the Python sources to Lean on every "
                                 "run and proved equal to the model; compiled model driver diffed byte-for-byte against the real "
                                 "pyjelly on generated inputs; property oracles on the real code")],
    checks=checks,
    notes="Fix commits in /repo (see known_findings.json, status fixed) repair C06, C11a, C14 (x2), C15/C02, C16 (x2). "
          "Exit 2 = tooling failure. See DESIGN.md.",
    not_applicable=[dict(property_id=p, reason=mt.NOT_YET.get(p, "not claimed yet: its check is still under construction (DESIGN.md §9); the technique applies"))
                    for p in ALL if p not in REGISTRY or not REGISTRY[p].get('claimed', True)],
)
(VERIF / "MANIFEST.json").write_text(json.dumps(manifest, indent=1, ensure_ascii=False) + "\n")
print("claimed:", sorted(REGISTRY), "unclaimed:", [p for p in ALL if p not in REGISTRY or not REGISTRY[p].get('claimed', True)])

"""Copy a sub-agent's seeded change into /verif/seeded/<id>/ with a meta.json skeleton.
usage: import_seeded.py <base dir e.g. /tmp/mut2> <prop> <k> <id>"""
import json, shutil, sys
from pathlib import Path
base, prop, k, sid = sys.argv[1:5]
src = Path(f"{base}/{prop}/out/{k}")
dst = Path(f"/verif/seeded/{sid}")
dst.mkdir(parents=True, exist_ok=True)
for n in ("patch.diff", "demo.py", "notes.md"):
    shutil.copy(src / n, dst / n)
meta = dict(property=prop, author_worktree=f"{base}/{prop}", origin="fresh sub-agent given only the property text and a scratch worktree",
            needs_to_manifest=(src / "notes.md").read_text()[:1500], confirmed=None, ran=[])
(dst / "meta.json").write_text(json.dumps(meta, indent=1))
print(dst)

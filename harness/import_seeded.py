"""Copy a sub-agent's seeded change into /verif/seeded/<id>/ with a meta.json skeleton."""
import json, shutil, sys
from pathlib import Path
prop, k = sys.argv[1], sys.argv[2]
src = Path(f"/tmp/mut/{prop}/out/{k}")
dst = Path(f"/verif/seeded/{prop}-{k}")
dst.mkdir(parents=True, exist_ok=True)
for n in ("patch.diff", "demo.py", "notes.md"):
    shutil.copy(src / n, dst / n)
meta = dict(property=prop, author_worktree=f"/tmp/mut/{prop}", origin="fresh sub-agent given only the property text and a scratch worktree",
            needs_to_manifest=(src / "notes.md").read_text()[:1500], confirmed=None, ran=[])
(dst / "meta.json").write_text(json.dumps(meta, indent=1))
print(dst)

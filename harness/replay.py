"""Re-run one protocol request on the REAL code (and on the model): used by `./check Cxx --replay file`
and by the corpus of past failing requests that every check runs first."""
from __future__ import annotations

import json
from pathlib import Path

import common
import impl
from common import parse_sink, parse_stmt, parse_stmts, parse_term


def opts_from_token(tok: str) -> impl.Opts:
    kv = dict(p.split("=", 1) for p in tok.split(";") if "=" in p)
    o = impl.Opts(fs=int(kv.get("fs", 250)), lt=int(kv.get("lt", 0)), gen=kv.get("gen") == "1", star=kv.get("star") == "1",
                  delim=kv.get("delim", "1") == "1", ns=kv.get("ns") == "1", name=bytes.fromhex(kv.get("name", "")).decode(),
                  pn=int(kv.get("pn", 4000)), pp=int(kv.get("pp", 150)), pd=int(kv.get("pd", 32)))
    if "flow" in kv:
        k, l, f = kv["flow"].split(":")
        o.flow = (k, int(l), int(f))
    return o


def run_request(line: str) -> str | None:
    """The real code's response to a protocol request, or None for requests this replayer does not cover."""
    toks = [t for t in line.strip().split(" ") if t]
    cmd = toks[0]
    if cmd == "lk":
        return impl.run_lk(toks[1], int(toks[2]), [bytes.fromhex(k[1:]).decode() for k in toks[3:]])
    if cmd == "hint":
        return impl.run_hint(bytes.fromhex(toks[1]) if len(toks) > 1 else b"")
    if cmd == "par":
        data = bytes.fromhex(toks[5]) if len(toks) > 5 else b""
        if toks[3] == "0" and toks[1] == "flat":
            import rimpl
            return rimpl.run_par_flat(toks[2] == "1", toks[4], data)
        return impl.run_par(toks[1], toks[2] == "1", toks[4], data)
    if cmd == "ser":
        cls, entry, otok, data = toks[1], toks[2], toks[3], toks[4]
        o = None if otok == "-" else opts_from_token(otok)
        if entry == "frames":
            if data.startswith("gen:"):
                return impl.run_ser_frames(cls, o, parse_stmts(data[4:]), is_sink=False)[0]
            return impl.run_ser_frames(cls, o, parse_sink(data[5:]), is_sink=True)[0]
        if entry == "flat":
            return impl.run_ser_flat(o, parse_stmts(data))[0]
        if entry == "grouped":
            return impl.run_ser_grouped(o, [] if data == "_" else [parse_sink(x) for x in data.split("+")])[0]
    if cmd == "step":
        ops = []
        for t in toks[3:]:
            if t in ("enroll", "flush", "opts"):
                ops.append((t,))
            elif t[:2] in ("t:", "q:"):
                ops.append((t[0], tuple(parse_stmt(t[2:]))))
            elif t.startswith("g:"):
                gid, sts = t[2:].split("@")
                ops.append(("g", parse_term(gid)[0], [tuple(x) for x in parse_stmts(sts)]))
            elif t.startswith("ns:"):
                k, v = t[3:].split("=")
                ops.append(("ns", bytes.fromhex(k).decode(), bytes.fromhex(v).decode()))
        return impl.run_step(toks[1], opts_from_token(toks[2]), ops)
    if cmd == "trace":
        import props
        return props._real_trace(toks[1], opts_from_token(toks[2]), parse_stmts(toks[3]))[0]
    return None


def _still_wrong(req: str) -> bool:
    """Generic 'this request still exhibits a problem' predicate used for shrinking: the real code and the model disagree on
    it, or (for `ser … frames … gen:`) the referee does not accept the real bytes with the input as their denotation."""
    from framework import canon_errors

    real = run_request(req)
    if real is None:
        return False
    model = common.run_driver([req])[0].replace("~", "")
    if canon_errors(real) != canon_errors(model):
        return True
    toks = req.split(" ")
    if toks[0] == "ser" and toks[2] == "frames" and toks[4].startswith("gen:") and real.startswith("ok ") and real.endswith(" end"):
        import props

        o = opts_from_token(toks[3])
        stmts = parse_stmts(toks[4][4:])
        b = bytes.fromhex(real.split(" ")[1])
        verdict, evs, _ = props.parse_spec_response(common.run_driver([props.spec_line(b, o.delim)])[0])
        want = " ".join("S" + common.stmt_text(x) for x in props.expected_events(stmts, toks[1])) or "_"
        return verdict != "ok" or evs != want
    return False


def minimise(req: str, budget_s: float = 8.0, max_evals: int = 80) -> str | None:
    """Greedy one-at-a-time shrinking of the statement list (`ser … gen:`) or of the op list (`step …`) of a failing request,
    keeping it failing in the sense of `_still_wrong`. Returns the smaller request, or None if nothing could be removed."""
    import time

    t0, evals = time.time(), [0]

    def wrong(r: str) -> bool:
        evals[0] += 1
        try:
            return _still_wrong(r)
        except Exception:  # noqa: BLE001
            return False

    toks = req.split(" ")
    if toks[0] == "ser" and len(toks) == 5 and toks[4].startswith("gen:"):
        head, items, join = toks[:4], toks[4][4:].split("/"), lambda xs: " ".join(head + ["gen:" + ("/".join(xs) if xs else "_")])
    elif toks[0] == "ser" and len(toks) == 5 and toks[2] == "flat":
        head, items, join = toks[:4], toks[4].split("/"), lambda xs: " ".join(head + ["/".join(xs) if xs else "_"])
    elif toks[0] == "ser" and len(toks) == 5 and ("~" in toks[4]):
        # sinks: [sink:]<identifier>~<bindings>~<statements>, several joined by "+": shrink the statements of every sink
        pre = "sink:" if toks[4].startswith("sink:") else ""
        sinks = [x.split("~") for x in toks[4][len(pre):].split("+")]
        if any(len(x) != 3 for x in sinks):
            return None
        items = [(k, st) for k, x in enumerate(sinks) for st in (x[2].split("/") if x[2] != "_" else [])]

        def join(xs, sinks=sinks, pre=pre, head=toks[:4]):
            out = []
            for k, x in enumerate(sinks):
                mine = [st for kk, st in xs if kk == k]
                out.append("~".join([x[0], x[1], "/".join(mine) if mine else "_"]))
            return " ".join(head + [pre + "+".join(out)])
    elif toks[0] == "step" and len(toks) > 4:
        head, items, join = toks[:3], toks[3:], lambda xs: " ".join(head + xs)
    else:
        return None
    if not wrong(join(items)):
        return None
    changed, i = False, 0
    while i < len(items) and time.time() - t0 < budget_s and evals[0] < max_evals:
        if items[i] in ("enroll",):
            i += 1
            continue
        cand = items[:i] + items[i + 1:]
        if cand and wrong(join(cand)):
            items, changed = cand, True
        else:
            i += 1
    return join(items) if changed else None


def replay_file(path: str) -> int:
    d = json.loads(Path(path).read_text())
    reqs = []
    rep = d.get("replay") or {}
    if isinstance(rep, dict) and "request" in rep:
        reqs.append(rep["request"])
    for x in d.get("first_disagreements", []) or []:
        reqs.append(x["request"])
    print(json.dumps({k: v for k, v in d.items() if k not in ("build_log_tail",)}, indent=1)[:3000])
    for q in reqs:
        real = run_request(q)
        model = common.run_driver([q])[0].replace("~", "")
        print("REQUEST", q[:500])
        print(" REAL ", (real or "<not replayable>")[:1500])
        print(" MODEL", model[:1500])
        print(" AGREE" if real == model else " DIFFER")
    if isinstance(rep, dict) and "bytes" in rep:
        b = bytes.fromhex(rep["bytes"])
        print("BYTES", len(b))
        for entry in ("flat", "grouped", "graph"):
            print(f" REAL par {entry}:", impl.run_par(entry, False, "seek", b)[:800])
        print(" REFEREE:", common.run_driver([f"spec 1 {b.hex()}"])[0][:800])
    return 0

"""Shared plumbing of the verification harness.

* puts the repository under test FIRST on sys.path and asserts that pyjelly resolves there
  (a mypyc-compiled pyjelly in site-packages would otherwise shadow the working tree);
* canonical text encoding of terms / statements / events, identical to JellyModel/Text.lean;
* the model driver (`jellydrv`) as a batch line-protocol process;
* PRNG derived from VERIF_SEED.
"""
from __future__ import annotations

import os
import random
import subprocess
import sys
import time
from pathlib import Path

VERIF = Path(__file__).resolve().parent.parent
REPO = Path(os.environ.get("VERIF_REPO", "/repo")).resolve()
LEAN_DIR = VERIF / "lean"
DRIVER = LEAN_DIR / ".lake" / "build" / "bin" / "jellydrv"

# the guard variable reserved for source hooks (no hook is needed: everything is observable in-process)
os.environ.setdefault("PYJELLY_VERIF", "1")


def ensure_repo_first() -> None:
    repo = str(REPO)
    if sys.path[0] != repo:
        sys.path[:] = [p for p in sys.path if p != repo]
        sys.path.insert(0, repo)
    for name in list(sys.modules):
        if name == "pyjelly" or name.startswith("pyjelly."):
            mod = sys.modules[name]
            f = getattr(mod, "__file__", None) or ""
            if f and not f.startswith(repo):
                del sys.modules[name]
    import pyjelly  # noqa: PLC0415
    import pyjelly.parse.decode  # noqa: PLC0415
    import pyjelly.serialize.encode  # noqa: PLC0415

    for mod in (pyjelly, pyjelly.parse.decode, pyjelly.serialize.encode):
        f = mod.__file__ or ""
        if not f.startswith(repo) or not f.endswith(".py"):
            raise SystemExit(f"harness error: {mod.__name__} resolves to {f}, not to the working tree {repo}")


ensure_repo_first()

# rdflib logs a traceback for every literal whose lexical form does not fit its datatype; silence it
import logging  # noqa: E402

logging.getLogger("rdflib").setLevel(logging.CRITICAL)
logging.getLogger("rdflib.term").setLevel(logging.CRITICAL)


def seed() -> int:
    try:
        return int(os.environ.get("VERIF_SEED", "0"))
    except ValueError:
        return 0


def tier() -> str:
    t = os.environ.get("VERIF_TIER", "quick")
    return t if t in ("quick", "thorough") else "quick"


def rng(*salt: object) -> random.Random:
    return random.Random(f"{seed()}|" + "|".join(map(str, salt)))


# ---------------------------------------------------------------------------------------------
# canonical text (mirror of JellyModel/Text.lean)
# ---------------------------------------------------------------------------------------------

def hx(s: str | bytes) -> str:
    if isinstance(s, str):
        s = s.encode("utf-8")
    return s.hex()


def opt(s: str | None) -> str:
    return "-" if s is None else "h" + hx(s)


class Unsupported:
    """Stands for any object the term encoders have no case for."""

    def __repr__(self) -> str:
        return "Unsupported()"


UNSUPPORTED = Unsupported()


def _attr(t: object, *names: str):
    """Content of a generic-sink term whatever its fields are called (`_iri` today; a refactoring that renames the private
    attribute or turns the class into a record must not turn a check into a tooling failure)."""
    for n in names:
        if hasattr(t, n):
            return getattr(t, n)
    if isinstance(t, tuple) and len(t) >= 1 and len(names) and names[-1].isdigit():
        return t[int(names[-1])]
    raise AttributeError(f"{type(t).__name__} has none of {names}")


def iri_s(t):
    return _attr(t, "_iri", "iri", "value", "0")


def bn_id(t):
    return _attr(t, "_identifier", "identifier", "id", "label", "0")


def lit_lex(t):
    return _attr(t, "_lex", "lex", "lexical", "0")


def lit_lang(t):
    return _attr(t, "_langtag", "langtag", "language", "lang", "1")


def lit_dt(t):
    return _attr(t, "_datatype", "datatype", "2")


class FailureMarker:
    """Stands in the place of a term in the 'statement' a failed parse is reported as (see props.real_parse_flat)."""

    def __init__(self, name: str) -> None:
        self.name = name

    def __repr__(self) -> str:
        return "!" + self.name


class ParseFailure(tuple):
    """What a parse that raised is turned into by the oracles: one pseudo-statement that equals nothing expected."""


def term_text(t: object) -> str:
    from pyjelly.integrations.generic.generic_sink import IRI, BlankNode, DefaultGraph, Literal, Triple

    if isinstance(t, FailureMarker):
        return "!" + t.name

    if isinstance(t, IRI):
        if not isinstance(iri_s(t), str):
            return "?IRI(" + term_text(iri_s(t)) + ")"
        return "I" + hx(iri_s(t))
    if isinstance(t, BlankNode):
        return "B" + hx(bn_id(t))
    if isinstance(t, Literal):
        return "L" + hx(lit_lex(t)) + ":" + opt(lit_lang(t)) + ":" + opt(lit_dt(t))
    if isinstance(t, Triple):
        return "T(" + term_text(t.s) + ";" + term_text(t.p) + ";" + term_text(t.o) + ")"
    if t is DefaultGraph:
        return "D"
    if isinstance(t, Unsupported):
        return "U"
    if t is None:
        return "?None"
    return "?" + type(t).__name__


def stmt_text(st) -> str:
    return ",".join(term_text(t) for t in st)


def stmts_text(sts) -> str:
    sts = list(sts)
    return "_" if not sts else "/".join(stmt_text(s) for s in sts)


def event_text(ev) -> str:
    from pyjelly.integrations.generic.generic_sink import Prefix

    if isinstance(ev, Prefix):
        return "N" + hx(ev.prefix) + "=" + term_text(ev.iri)
    return "S" + stmt_text(ev)


def events_text(evs) -> str:
    evs = list(evs)
    return "_" if not evs else " ".join(event_text(e) for e in evs)


def sink_text(sink) -> str:
    ns = "/".join(hx(p) + "=" + term_text(t) for p, t in sink.namespaces)
    return "{" + ns + "|" + "/".join(stmt_text(s) for s in sink.store) + "}"


_INTENDED: dict[int, tuple] = {}   # id(sink) -> (sink, identifier, bindings, statements) as the harness MEANT them


def intend(sink, identifier, bindings, stmts):
    """Remember what the harness put into a sink it built. The request for the model is rendered from this record, not by
    reading the sink back: a sink that shares state with other sinks would otherwise tell the model its polluted content."""
    _INTENDED[id(sink)] = (sink, identifier, list(bindings), list(stmts))
    return sink


def sink_arg(sink) -> str:
    """Sink as a request argument: id~ns~stmts."""
    rec = _INTENDED.get(id(sink))
    if rec is not None and rec[0] is sink:
        _, identifier, bindings, stmts = rec
        ns = "/".join(hx(p) + "=" + term_text(t) for p, t in bindings) or "_"
        return term_text(identifier) + "~" + ns + "~" + stmts_text(stmts)
    ns = "/".join(hx(p) + "=" + term_text(t) for p, t in sink.namespaces) or "_"
    return term_text(sink.identifier) + "~" + ns + "~" + stmts_text(sink.store)


def err_name(e: BaseException) -> str:
    return type(e).__name__


# ---------------------------------------------------------------------------------------------
# rdflib terms in the same text (term homomorphism h of DESIGN §6 C15)
# ---------------------------------------------------------------------------------------------

def rdflib_term_text(t: object) -> str:
    import rdflib
    from rdflib.graph import DATASET_DEFAULT_GRAPH_ID

    if t is None:
        return "?None"
    if isinstance(t, rdflib.Literal):
        dt = None if t.datatype is None else str(t.datatype)
        return "L" + hx(str(t)) + ":" + opt(t.language) + ":" + opt(dt)
    if isinstance(t, rdflib.BNode):
        return "B" + hx(str(t))
    if isinstance(t, rdflib.URIRef):
        if t == DATASET_DEFAULT_GRAPH_ID:
            return "D"
        return "I" + hx(str(t))
    if isinstance(t, rdflib.Graph):
        return rdflib_term_text(t.identifier)
    if isinstance(t, Unsupported):
        return "U"
    return "?" + type(t).__name__


def rdflib_stmt_text(st, graph_pos_default: bool = True) -> str:
    import rdflib
    from rdflib.graph import DATASET_DEFAULT_GRAPH_ID

    parts = []
    for i, t in enumerate(st):
        if i == 3:
            parts.append(rdflib_term_text(t))
        else:
            # the default-graph IRI is an ordinary IRI in s/p/o position
            if isinstance(t, rdflib.URIRef) and t == DATASET_DEFAULT_GRAPH_ID:
                parts.append("I" + hx(str(t)))
            else:
                parts.append(rdflib_term_text(t))
    return ",".join(parts)


# ---------------------------------------------------------------------------------------------
# model driver
# ---------------------------------------------------------------------------------------------

class DriverError(RuntimeError):
    pass


def run_driver(lines: list[str], timeout: float = 600.0) -> list[str]:
    """Send all request lines to a fresh jellydrv process, return the response lines."""
    if not DRIVER.exists():
        raise DriverError(f"model driver not built: {DRIVER}")
    if not lines:
        return []
    for ln in lines:
        if "\n" in ln:
            raise DriverError("request contains newline")
    data = ("\n".join(lines) + "\n").encode("utf-8")
    t0 = time.time()
    p = subprocess.run([str(DRIVER)], input=data, capture_output=True, timeout=timeout, check=False)
    if p.returncode != 0:
        raise DriverError(f"driver exited with {p.returncode}: {p.stderr[-2000:]!r}")
    out = p.stdout.decode("utf-8").split("\n")
    if out and out[-1] == "":
        out.pop()
    if len(out) != len(lines):
        raise DriverError(f"driver answered {len(out)} lines for {len(lines)} requests ({time.time()-t0:.1f}s)")
    return out


# ---------------------------------------------------------------------------------------------
# parsing canonical text back into generic objects (for --replay and the corpus)
# ---------------------------------------------------------------------------------------------

def _unhex(s: str) -> str:
    return bytes.fromhex(s).decode("utf-8")


def _take_hex(s: str, i: int) -> tuple[str, int]:
    j = i
    while j < len(s) and s[j] in "0123456789abcdef":
        j += 1
    return s[i:j], j


def _take_opt(s: str, i: int):
    if s[i] == "-":
        return None, i + 1
    assert s[i] == "h", s[i:]
    h, j = _take_hex(s, i + 1)
    return _unhex(h), j


def parse_term(s: str, i: int = 0):
    from pyjelly.integrations.generic.generic_sink import IRI, BlankNode, DefaultGraph, Literal, Triple

    c = s[i]
    if c == "I":
        h, j = _take_hex(s, i + 1)
        return IRI(_unhex(h)), j
    if c == "B":
        h, j = _take_hex(s, i + 1)
        return BlankNode(_unhex(h)), j
    if c == "D":
        return DefaultGraph, i + 1
    if c == "U":
        return UNSUPPORTED, i + 1
    if c == "L":
        h, j = _take_hex(s, i + 1)
        assert s[j] == ":"
        lang, j = _take_opt(s, j + 1)
        assert s[j] == ":"
        dt, j = _take_opt(s, j + 1)
        return Literal(_unhex(h), lang, dt), j
    if c == "T":
        assert s[i + 1] == "("
        a, j = parse_term(s, i + 2)
        assert s[j] == ";"
        b, j = parse_term(s, j + 1)
        assert s[j] == ";"
        d, j = parse_term(s, j + 1)
        assert s[j] == ")"
        return Triple(a, b, d), j + 1
    raise ValueError(f"bad term text at {i}: {s[i:i+20]!r}")


def parse_stmt(s: str):
    from pyjelly.integrations.generic.generic_sink import Quad, Triple

    if s == "":
        return ()
    terms, i = [], 0
    while True:
        t, i = parse_term(s, i)
        terms.append(t)
        if i >= len(s):
            break
        assert s[i] == ",", s[i:]
        i += 1
    if len(terms) == 3:
        return Triple(*terms)
    if len(terms) == 4:
        return Quad(*terms)
    return tuple(terms)


def parse_stmts(s: str):
    return [] if s == "_" else [parse_stmt(x) for x in s.split("/")]


def parse_sink(s: str):
    from pyjelly.integrations.generic.generic_sink import GenericStatementSink

    idt, ns, st = s.split("~")
    sink = GenericStatementSink(identifier=parse_term(idt)[0])
    if ns != "_":
        for b in ns.split("/"):
            k, v = b.split("=")
            sink.bind(_unhex(k), parse_term(v)[0])
    for x in parse_stmts(st):
        sink.add(x)
    return sink

"""Shared plumbing of the verification harness.

* puts the repository under test FIRST on sys.path and asserts that pyjelly resolves there
  (a mypyc-compiled pyjelly in site-packages would otherwise shadow the working tree);
* canonical text encoding of terms / statements / events, identical to JellyModel/Text.lean;
* the model driver (`jellydrv`) as a batch line-protocol process;
* PRNG derived from VERIF_SEED.
"""
from __future__ import annotations

import os
import random
import subprocess
import sys
import time
from pathlib import Path

VERIF = Path(__file__).resolve().parent.parent
REPO = Path(os.environ.get("VERIF_REPO", "/repo")).resolve()
LEAN_DIR = VERIF / "lean"
DRIVER = LEAN_DIR / ".lake" / "build" / "bin" / "jellydrv"

# the guard variable reserved for source hooks (no hook is needed: everything is observable in-process)
os.environ.setdefault("PYJELLY_VERIF", "1")


def ensure_repo_first() -> None:
    repo = str(REPO)
    if sys.path[0] != repo:
        sys.path[:] = [p for p in sys.path if p != repo]
        sys.path.insert(0, repo)
    for name in list(sys.modules):
        if name == "pyjelly" or name.startswith("pyjelly."):
            mod = sys.modules[name]
            f = getattr(mod, "__file__", None) or ""
            if f and not f.startswith(repo):
                del sys.modules[name]
    import pyjelly  # noqa: PLC0415
    import pyjelly.parse.decode  # noqa: PLC0415
    import pyjelly.serialize.encode  # noqa: PLC0415

    for mod in (pyjelly, pyjelly.parse.decode, pyjelly.serialize.encode):
        f = mod.__file__ or ""
        if not f.startswith(repo) or not f.endswith(".py"):
            raise SystemExit(f"harness error: {mod.__name__} resolves to {f}, not to the working tree {repo}")


ensure_repo_first()

# rdflib logs a traceback for every literal whose lexical form does not fit its datatype; silence it
import logging  # noqa: E402

logging.getLogger("rdflib").setLevel(logging.CRITICAL)
logging.getLogger("rdflib.term").setLevel(logging.CRITICAL)


def seed() -> int:
    try:
        return int(os.environ.get("VERIF_SEED", "0"))
    except ValueError:
        return 0


def tier() -> str:
    t = os.environ.get("VERIF_TIER", "quick")
    return t if t in ("quick", "thorough") else "quick"


def rng(*salt: object) -> random.Random:
    return random.Random(f"{seed()}|" + "|".join(map(str, salt)))


# ---------------------------------------------------------------------------------------------
# canonical text (mirror of JellyModel/Text.lean)
# ---------------------------------------------------------------------------------------------

def hx(s: str | bytes) -> str:
    if isinstance(s, str):
        s = s.encode("utf-8")
    return s.hex()


def opt(s: str | None) -> str:
    return "-" if s is None else "h" + hx(s)


class Unsupported:
    """Stands for any object the term encoders have no case for."""

    def __repr__(self) -> str:
        return "Unsupported()"


UNSUPPORTED = Unsupported()


def term_text(t: object) -> str:
    from pyjelly.integrations.generic.generic_sink import IRI, BlankNode, DefaultGraph, Literal, Triple

    if isinstance(t, IRI):
        if not isinstance(t._iri, str):
            return "?IRI(" + term_text(t._iri) + ")"
        return "I" + hx(t._iri)
    if isinstance(t, BlankNode):
        return "B" + hx(t._identifier)
    if isinstance(t, Literal):
        return "L" + hx(t._lex) + ":" + opt(t._langtag) + ":" + opt(t._datatype)
    if isinstance(t, Triple):
        return "T(" + term_text(t.s) + ";" + term_text(t.p) + ";" + term_text(t.o) + ")"
    if t is DefaultGraph:
        return "D"
    if isinstance(t, Unsupported):
        return "U"
    if t is None:
        return "?None"
    return "?" + type(t).__name__


def stmt_text(st) -> str:
    return ",".join(term_text(t) for t in st)


def stmts_text(sts) -> str:
    sts = list(sts)
    return "_" if not sts else "/".join(stmt_text(s) for s in sts)


def event_text(ev) -> str:
    from pyjelly.integrations.generic.generic_sink import Prefix

    if isinstance(ev, Prefix):
        return "N" + hx(ev.prefix) + "=" + term_text(ev.iri)
    return "S" + stmt_text(ev)


def events_text(evs) -> str:
    evs = list(evs)
    return "_" if not evs else " ".join(event_text(e) for e in evs)


def sink_text(sink) -> str:
    ns = "/".join(hx(p) + "=" + term_text(t) for p, t in sink.namespaces)
    return "{" + ns + "|" + "/".join(stmt_text(s) for s in sink.store) + "}"


def sink_arg(sink) -> str:
    """Sink as a request argument: id~ns~stmts."""
    ns = "/".join(hx(p) + "=" + term_text(t) for p, t in sink.namespaces) or "_"
    return term_text(sink.identifier) + "~" + ns + "~" + stmts_text(sink.store)


def err_name(e: BaseException) -> str:
    return type(e).__name__


# ---------------------------------------------------------------------------------------------
# rdflib terms in the same text (term homomorphism h of DESIGN §6 C15)
# ---------------------------------------------------------------------------------------------

def rdflib_term_text(t: object) -> str:
    import rdflib
    from rdflib.graph import DATASET_DEFAULT_GRAPH_ID

    if t is None:
        return "?None"
    if isinstance(t, rdflib.Literal):
        dt = None if t.datatype is None else str(t.datatype)
        return "L" + hx(str(t)) + ":" + opt(t.language) + ":" + opt(dt)
    if isinstance(t, rdflib.BNode):
        return "B" + hx(str(t))
    if isinstance(t, rdflib.URIRef):
        if t == DATASET_DEFAULT_GRAPH_ID:
            return "D"
        return "I" + hx(str(t))
    if isinstance(t, rdflib.Graph):
        return rdflib_term_text(t.identifier)
    if isinstance(t, Unsupported):
        return "U"
    return "?" + type(t).__name__


def rdflib_stmt_text(st, graph_pos_default: bool = True) -> str:
    import rdflib
    from rdflib.graph import DATASET_DEFAULT_GRAPH_ID

    parts = []
    for i, t in enumerate(st):
        if i == 3:
            parts.append(rdflib_term_text(t))
        else:
            # the default-graph IRI is an ordinary IRI in s/p/o position
            if isinstance(t, rdflib.URIRef) and t == DATASET_DEFAULT_GRAPH_ID:
                parts.append("I" + hx(str(t)))
            else:
                parts.append(rdflib_term_text(t))
    return ",".join(parts)


# ---------------------------------------------------------------------------------------------
# model driver
# ---------------------------------------------------------------------------------------------

class DriverError(RuntimeError):
    pass


def run_driver(lines: list[str], timeout: float = 600.0) -> list[str]:
    """Send all request lines to a fresh jellydrv process, return the response lines."""
    if not DRIVER.exists():
        raise DriverError(f"model driver not built: {DRIVER}")
    if not lines:
        return []
    for ln in lines:
        if "\n" in ln:
            raise DriverError("request contains newline")
    data = ("\n".join(lines) + "\n").encode("utf-8")
    t0 = time.time()
    p = subprocess.run([str(DRIVER)], input=data, capture_output=True, timeout=timeout, check=False)
    if p.returncode != 0:
        raise DriverError(f"driver exited with {p.returncode}: {p.stderr[-2000:]!r}")
    out = p.stdout.decode("utf-8").split("\n")
    if out and out[-1] == "":
        out.pop()
    if len(out) != len(lines):
        raise DriverError(f"driver answered {len(out)} lines for {len(lines)} requests ({time.time()-t0:.1f}s)")
    return out

"""Which Lean obligations and which check function belong to which property."""
from __future__ import annotations

T = "Jelly."
# generated-from-source = model, for pyjelly/serialize/lookup.py and pyjelly/parse/lookup.py (JellyProofs/Translated.lean)
TRANSLATED_FLOWS = [T + "Translated." + n for n in ['manual_to_stream_frame', 'manual_frame_from_bounds', 'manual_frame_from_graph', 'manual_frame_from_dataset', 'manual_init', 'bounded_to_stream_frame', 'bounded_frame_from_bounds', 'bounded_frame_from_graph', 'bounded_frame_from_dataset', 'bounded_init', 'flatTriples_to_stream_frame', 'flatTriples_frame_from_bounds', 'flatTriples_frame_from_graph', 'flatTriples_frame_from_dataset', 'flatTriples_init', 'flatQuads_to_stream_frame', 'flatQuads_frame_from_bounds', 'flatQuads_frame_from_graph', 'flatQuads_frame_from_dataset', 'flatQuads_init', 'graphs_to_stream_frame', 'graphs_frame_from_bounds', 'graphs_frame_from_graph', 'graphs_frame_from_dataset', 'graphs_init', 'datasets_to_stream_frame', 'datasets_frame_from_bounds', 'datasets_frame_from_graph', 'datasets_frame_from_dataset', 'datasets_init', 'default_frame_size', 'class_logical_types']]
TRANSLATED = [T + "Translated." + n for n in ["make_last_to_evict_eq","insert_eq","entry_index_eq","term_index_eq","name_term_index_eq","prefix_term_index_eq","datatype_term_index_eq","lookup_new","lookup_enc_new","lookup_dec_new","assign_entry_eq","at_eq","decode_prefix_eq","decode_name_eq","decode_datatype_eq","C05_translated"]]

REGISTRY: dict[str, dict] = {
    "C05": dict(
        modules=["C05", "Tables", "C07Grouped", "Translated", "TranslatedFuncs", "TranslatedEnc", "TranslatedDec"],
        theorems=[T + "Translated.decode_iri_eq", T + "Translated.decode_literal_eq", T + "Translated.ingest_rows_eq", T + "Translated.encode_iri_indices_eq", T + "Translated.split_iri_eq", T + "C05_mirror_history", T + "C05_prefix_disabled", T + "C05_term_level_iris", *TRANSLATED],
        table_theorems=[T + "tables_constants"],
        rule="LOOKUP: all key histories up to a length over alphabets of size+2 for sizes 1..3 (exhaustive up to the "
             "stated length), random long histories for sizes 0..8, 16, 4096; TermEncoder→Decoder histories. "
             "Non-trivial = the history has more distinct keys than slots (evictions occur).",
    ),
    "C08": dict(
        modules=["C08", "Tables", "Plugin", "TranslatedFuncs"],
        theorems=[T + "Translated.hint_eq", T + "C08_hint_delimited", T + "C08_hint_single", T + "C08_hint_prefix", T + "C08_plugin_detected", T + "plugin_framing_follows_stream"],
        table_theorems=[T + "tables_hint3", T + "tables_hint_short"],
        rule="HINT: detector tabulated over headers (quick: 16 representative byte values per position = 4096 headers; "
             "thorough: all 2^24) and checked to depend only on the three ==0x0A bits; paired delimited/non-delimited "
             "real outputs with stream names driving the options row / first frame through lengths 8..12 and 126..130; "
             "reference-encoder streams. Non-trivial = a real output pair or a valid reference stream.",
    ),
    "C09": dict(
        modules=["C08", "Tables"],
        theorems=[T + "C09_schedule_independent", T + "C09_any_two_schedules", T + "C09_regression_witness", T + "readHeaderLoop_eq", T + "C08_hint_prefix"],
        table_theorems=[T + "tables_hint_short"],
        rule="IO: valid reference-encoder streams parsed from RawIOBase doubles under read schedules {1…,2…,3,5,"
             "7-1-1,random,whole,1-1-5} x default chunk {1,3,4096}, from BufferedReader(file) and gzip, against BytesIO; "
             "buffered non-seekable sources over the same schedules; seekable sources positioned after a preamble at buffer "
             "boundaries; model under the schedules 1 / 2 / 3 / 8 / 1,1,1 / 2,1 / 1,2,5. Non-trivial = every stream (all have ≥1 statement row).",
        assumptions=["CPython io: BufferedReader.read(n) returns n bytes unless EOF; raw read(k) returns 1..k bytes unless EOF "
                     "(modelled as a schedule, validated by the IO suite); real sockets, EINTR and non-blocking None returns are "
                     "runtime behaviour the model cannot exhibit"],
    ),
    "C10": dict(
        modules=["C10", "C04Bytes"],
        theorems=[T + "C10_frames_prefix", T + "C10_events_prefix", T + "C10_short_yields_nothing", T + "C10_complete_frames_delivered"],
        rule="IO: valid delimited reference-encoder streams cut at EVERY byte offset 0..len (streams ≤ 400 bytes are cut "
             "exhaustively), real parse_jelly_flat on the cut bytes vs the untruncated parse; model compared on every "
             "7th offset and all frame ends in quick, all offsets in thorough. Non-trivial = every stream.",
    ),
    "C13": dict(
        modules=["C13", "Tables", "C02Full", "TranslatedFuncs", "TranslatedDec"],
        theorems=[T + "Translated.validate_stream_options_eq", T + "Translated.validate_type_compatibility_eq", T + "Translated.stream_types_flat_eq", T + "Translated.lookup_preset_post_init_eq", T + "Translated.stream_parameters_version_eq", T + "C13_header_fidelity_bytes", T + "C13_header_fidelity", T + "C13_version", T + "C13_type_pairs_agree", T + "C13_writer_rejects",
                  T + "C13_reader_rejects_small_names", T + "C13_strict_gates", T + "C13_logical_type_irrelevant",
                  T + "C13_logical_type_irrelevant_state", T + "C13_reader_rejects_oversized",
                  T + "C13_reader_rejects_new_version", T + "C13_infer_flow_table"],
        table_theorems=[T + "tables_type_compat", T + "tables_stream_new", T + "tables_params_version",
                        T + "tables_preset_accept", T + "tables_flat", T + "tables_enums", T + "tables_constants"],
        rule="HEADER: stream class x 8 logical types x presets x flags x Unicode stream names x delimited/non-delimited, "
             "header read back with get_options_and_frames; all 4x8 physical/logical pairs on read; strict gates over 8 "
             "logical types x 3 physical types x {flat,grouped} x strict{T,F}; name table 7, tables 4097 / 2^32-1, "
             "version 3 on read. Non-trivial = a configuration the writer accepts, or a gate/pair case.",
    ),
    "C04": dict(
        modules=["C04", "C04Bytes", "TranslatedDec", "TranslatedDStmt"],
        theorems=[T + "Translated.validate_stream_options_eq", T + "Translated.decode_triple_eq", T + "Translated.decode_quad_eq", T + "Translated.modelDec_like", T + "Translated.decode_iri_eq", T + "Translated.decode_literal_eq", T + "Translated.ingest_rows_eq", T + "C04_decoder_refines_spec", T + "C04_bytes_delimited", T + "C04_bytes_single"],
        rule="PARSE: streams from the harness's independent reference encoder making arbitrary legal choices (random "
             "eviction victim, random IRI split point, explicit vs zero ids, early/redundant entries, repeats used or not, "
             "random frame cuts, empty frames, repeated options rows, metadata; physical types 1-3, versions 1-2, tables "
             "8..4096 / 0..4096), each first accepted by the Lean referee with the intended denotation; real flat/grouped/"
             "to_graph parsers vs that denotation; model parser vs real parser. Non-trivial = stream with ≥2 events.",
    ),
    "C16": dict(
        modules=["C04", "C04Bytes", "TranslatedDec", "TranslatedDStmt"],
        theorems=[T + "Translated.validate_stream_options_eq", T + "Translated.decode_triple_eq", T + "Translated.decode_quad_eq", T + "Translated.modelDec_like", T + "Translated.decode_iri_eq", T + "Translated.decode_literal_eq", T + "Translated.ingest_rows_eq", T + "C16_rejects_at_offending_row", T + "C16_bad_header_rejected", T + "C16_frames"],
        rule="PARSE: valid reference-encoder streams with ONE injected violation per catalogued class at a random site "
             "(18 classes), confirmed invalid by the Lean referee (with the class it reports); real parse_jelly_flat must "
             "raise and what it yielded before must be the referee's denotation of the valid prefix. Non-trivial = every "
             "injected stream the referee rejects.",
    ),
    "C06": dict(
        modules=["C06", "C13", "Tables", "TranslatedFlows", "TranslatedStream"],
        theorems=[T + "Translated.stream_triple_eq", T + "Translated.stream_quad_eq", T + "Translated.stream_enroll_eq", T + "Translated.stream_graph_eq", T + "Translated.graph_loop_eq", T + "Translated.stream_graph_flatQuads", T + "Translated.stream_graph_graphs", T + "Translated.stream_graph_manual", T + "Translated.stream_triple_flatTriples", T + "Translated.stream_triple_manual", T + "Translated.stream_triple_bounded", T + "Translated.stream_triple_graphs", T + "Translated.stream_quad_flatQuads", T + "Translated.stream_quad_manual", T + "Translated.stream_quad_datasets", *TRANSLATED_FLOWS, T + "C06_nothing_left_in_flow", T + "C06_rows_independent_of_flow", T + "C06_no_empty_frame",
                  T + "C13_infer_flow_table"],
        table_theorems=[T + "tables_stream_new", T + "tables_flow_mk", T + "tables_flow_for_type"],
        rule="SER over the configuration lattice {Triple,Quad,Graph}Stream x 8 logical types x delimited{T,F} x flow in "
             "{inferred, each of the 6 FrameFlow classes x frame_size{default,3}} x frame_size{1,2,3,7,250} (quick: 500 sampled "
             "points; thorough: all 936) via stream_frames with sink and generator input, plus flat_/grouped_stream_to_file "
             "and sink.serialize; oracle: accepted => flow empty on return and written bytes parse back to the input. "
             "Non-trivial = a configuration the serializer accepts.",
    ),
    "C11": dict(
        modules=["C06", "C10", "C04Bytes", "TranslatedFlows", "TranslatedStream"],
        theorems=[T + "Translated.stream_triple_eq", T + "Translated.stream_quad_eq", T + "Translated.stream_enroll_eq", T + "Translated.stream_graph_eq", T + "Translated.graph_loop_eq", T + "Translated.stream_graph_flatQuads", T + "Translated.stream_graph_graphs", T + "Translated.stream_graph_manual", T + "Translated.bounded_frame_from_bounds", T + "Translated.flatTriples_frame_from_bounds", T + "Translated.flatQuads_frame_from_bounds",
                  T + "Translated.flatTriples_to_stream_frame", T + "Translated.flatQuads_to_stream_frame", T + "Translated.flatTriples_init",
                  T + "Translated.flatQuads_init", T + "C11_trace_faithful", T + "C11_pending_below_frame_size", T + "C11_no_lookahead", T + "C11_parse_live",
                  T + "C10_complete_frames_delivered", T + "C10_events_prefix", T + "C10_frames_prefix"],
        rule="SERSTEP: pull/yield traces of stream_frames(stream, instrumented generator) for Triple/Quad/GraphStream, frame "
             "sizes {1,2,3,5,7,250}, compared with the model's trace; oracle (i) pending < frame_size at pulls >= 2, (ii) one "
             "frame at most between pulls, (iii) statement rows handed out == statements pulled at every yield. Parse side: "
             "raw and buffered non-seekable sources that stall (raise) after every frame boundary; oracle: everything of the "
             "delivered frames is yielded before the stall. Non-trivial = trace with >= 2 statements / every stall point.",
        assumptions=["actual blocking is represented as 'requests bytes not yet delivered' (the source raises); real sockets "
                     "are runtime behaviour the model cannot exhibit"],
    ),
    "C12": dict(
        modules=["C06", "TranslatedFuncs"],
        theorems=[T + "C12_isolation", T + "Translated.split_iri_eq"],
        rule="SER byte-exact against the pure model for a seed-derived workload set, re-run (a) after other streams were "
             "created and abandoned mid-way, (b) with generator steps of 4 serializers + parsers interleaved at random, (c) in "
             "4-8 threads, (d) in fresh subprocesses with PYTHONHASHSEED in {0,1,2,12345,...}; static AST scan of pyjelly for "
             "mutation sites of module/class-level mutable objects. Non-trivial = every workload.",
        assumptions=["thread interleavings are sampled at API-call granularity; bytecode-level preemption inside a call is "
                     "runtime behaviour the model cannot exhibit (claimed partial)"],
    ),
    "C18": dict(
        modules=["C18", "C18Full", "C18Bytes", "C03", "Translated", "TranslatedEnc", "TranslatedStmt"],
        theorems=[T + "Translated.encode_triple_eq", T + "Translated.encode_quad_eq", T + "Translated.encode_spo_exec", T + "Translated.modelEnc_like", T + "Translated.start_row_eq", T + "Translated.end_row_eq", T + "Translated.insert_eq", T + "Translated.make_last_to_evict_eq", T + "Translated.entry_index_eq", T + "C18_triples", T + "C18_quads", T + "C18_graphs", T + "C18_prefix_on_error",
                  T + "C18_triples_bytes", T + "C18_quads_bytes", T + "C18_graphs_bytes",
                  T + "C18_regression_prefix", T + "C18_regression_datatype", T + "C18_regression_name", T + "C18_regression_fits",
                  T + "C03_triples", T + "C03_quads", T + "C03_graphs"],
        rule="SER with presets whose prefix (1..3), datatype (1..3) or name (8..26, nested quoted triples) table has between "
             "one slot more and three slots fewer than ONE statement needs, surrounded by fitting statements; real bytes judged "
             "by the Lean referee (denotation == input, or the writer raised); the same through the rdflib serializer with explicit "
             "xsd:string literals. Non-trivial = the statement overflows a table.",
    ),
    "C20": dict(
        modules=["C18", "C20Full", "C20Graph", "C14Full", "TranslatedEnc", "Translated", "TranslatedStmt"],
        theorems=[T + "Translated.encode_triple_eq", T + "Translated.encode_quad_eq", T + "Translated.encode_spo_exec", T + "Translated.modelEnc_like", T + "Translated.start_row_eq", T + "Translated.end_row_eq", T + "Translated.make_last_to_evict_eq", T + "Translated.insert_eq", T + "C20_triples", T + "C20_quads", T + "C20_graphs", T + "C20_refuses_after_dirty_rejection", T + "broken_refuses", T + "idle_irrelevant",
                  T + "C20_regression_witness", T + "C20_rejection_leaves_flow_untouched", T + "C20_clean_rejection_leaves_no_trace",
                  T + "C20_prefix_valid", T + "C20_prefix_accepted"],
        rule="SERSTEP: Triple/Quad/GraphStream driven statement by statement by a catch-and-continue loop, each statement made "
             "unencodable with probability 0.35 at a random slot by one of: unsupported term, typed literal with disabled "
             "datatype table, short tuple, unsupported term nested in a quoted triple, unsupported graph name; flushes at "
             "random points; real frames judged by the Lean referee against the accepted statements. Non-trivial = at least "
             "one rejection.",
    ),
    "C17": dict(
        modules=["C10"],
        theorems=[T + "C17_frames_bounded", T + "C17_tables_capped", T + "C17_oversized_refused", T + "C17_tables_never_grow",
                  T + "C10_short_yields_nothing"],
        rule="PARSE on (25%) random bytes of length 0..100, (40%) valid reference streams with 1-4 bit flips / deletions / "
             "insertions / splices, (35%) structure-aware hostile streams (declared table sizes up to 2^32-1, frame lengths up "
             "to 2^64-1, quoted triples nested up to 400 deep, options rows in odd places, over-long varints, invalid UTF-8, "
             "ids near 2^32, groups and wrong wire types); real flat/grouped parsers run in a subprocess with a 3 GB address-"
             "space cap and a 10 s alarm per input, recording outcome, peak RSS and time; the model must predict the exact "
             "outcome (events and exception class). Non-trivial = input longer than 2 bytes.",
        assumptions=["that the upb C parser and CPython themselves neither crash nor allocate by declared length is runtime "
                     "behaviour: observed by the watchdog, not proved (claimed partial)"],
    ),
    "C03": dict(
        modules=["C03", "C06", "C01Bytes", "WireRoundTrip", "TranslatedEnc"],
        theorems=[T + "Translated.encode_iri_indices_eq", T + "Translated.encode_literal_eq", T + "Translated.datatype_term_index_exec", T + "Translated.entry_index_exec", T + "Translated.name_term_index_exec", T + "Translated.prefix_term_index_exec", T + "C03_triples", T + "C03_quads", T + "C03_graphs", T + "C06_rows_independent_of_flow",
                  T + "C03_bytes_delimited", T + "written_rows_wireWF", T + "wire_delimited_roundtrip", T + "wire_single_concat",
                  T + "namespace_run"],
        rule="SER (generic integration: stream_frames with sink/generator input, flat_/grouped_stream_to_file; namespace "
             "declarations on/off; 3 stream classes; presets down to 8/1/1 and 8/0/0; frame sizes 1..250; delimited and not) "
             "byte-exact against the model, then the REAL bytes are decoded by the Lean wire parser + Spec.runRows (no pyjelly, "
             "no rdf_pb2): accepted? denotation == input (namespaces first, then statements)? Non-trivial = accepted "
             "configuration with >= 2 statements.",
    ),
    "C07": dict(
        modules=["C07", "C06", "C07Grouped", "TranslatedFlows", "TranslatedStream"],
        theorems=[T + "Translated.stream_triple_eq", T + "Translated.stream_quad_eq", T + "Translated.stream_enroll_eq", T + "Translated.stream_graph_eq", T + "Translated.graph_loop_eq", T + "Translated.stream_graph_flatQuads", T + "Translated.stream_graph_graphs", T + "Translated.stream_graph_manual", T + "Translated.graphs_frame_from_graph", T + "Translated.datasets_frame_from_dataset", T + "Translated.graphs_to_stream_frame",
                  T + "Translated.datasets_to_stream_frame", T + "C07_known_metadata_only_first_frame", T + "C07_grouped_triples_valid", T + "C07_grouped_quads_valid", T + "C07_frames_eq_rows", T + "C07_repartition", T + "C07_grouped_one_per_frame",
                  T + "C07_grouped_concat_eq_flat", T + "C07_one_frame_per_nonempty_sink", T + "C06_rows_independent_of_flow"],
        rule="PARSE on reference-encoder row sequences re-cut into frames at EVERY single position and at random multi-cuts "
             "with empty frames and metadata: flat(recut) == flat(one frame); grouped: one sink per frame, concatenation == "
             "flat, frame_metadata seen while building sink i == metadata of frame i; grouped serialization with grouped "
             "logical types over 1..5 sinks sharing one stream: frames written == non-empty sinks and round trip. "
             "Non-trivial = row sequence with > 2 rows.",
        assumptions=["the ContextVar carrying frame metadata is not modelled in Lean; that part of (b) is oracle-only"],
    ),
    "C01": dict(
        modules=["C01", "C01Bytes", "C03", "C04", "C06", "C07", "TranslatedEnc", "TranslatedDec", "TranslatedStmt", "TranslatedDStmt"],
        theorems=[T + "Translated.decode_triple_eq", T + "Translated.decode_quad_eq", T + "Translated.modelDec_like", T + "Translated.encode_triple_eq", T + "Translated.encode_quad_eq", T + "Translated.decode_iri_eq", T + "Translated.decode_literal_eq", T + "Translated.ingest_rows_eq", T + "Translated.encode_iri_indices_eq", T + "Translated.encode_literal_eq", T + "C01_triples_bytes_delimited", T + "C01_triples_bytes_single", T + "C01_quads_bytes", T + "C01_graphs_bytes",
                  T + "written_rows_wireWF", T + "C01_triples_frames", T + "C01_quads_frames", T + "C01_graphs_frames", T + "C01_parseFrames_is_parseCore",
                  T + "C03_triples", T + "C03_quads", T + "C03_graphs", T + "C04_decoder_refines_spec", T + "C07_frames_eq_rows",
                  T + "C06_nothing_left_in_flow", T + "C06_rows_independent_of_flow"],
        rule="SER+PARSE: generic serializer cases within the sizing hypothesis (each statement fits the tables), all entry "
             "points (stream_frames with sink/generator, flat_/grouped_stream_to_file), 3 classes, presets down to 8/0/0 and "
             "8/1/1, frame sizes 1..250, delimited and non-delimited; real parse_jelly_flat of the real bytes == input sequence "
             "(order, duplicates, xsd:string ≡ plain); bytes and parse results also compared with the model. The generator's "
             "sizing predicate is cross-checked against the Lean predicate stmtFits. Non-trivial = >= 2 statements.",
    ),
    "C19": dict(
        modules=["C19", "C03", "TranslatedEnc", "TranslatedStmt"],
        theorems=[T + "Translated.encode_triple_eq", T + "Translated.encode_quad_eq", T + "Translated.encode_spo_exec", T + "Translated.modelEnc_like", T + "Translated.encode_iri_indices_eq", T + "Translated.encode_literal_eq", T + "Translated.datatype_term_index_exec", T + "Translated.entry_index_exec", T + "Translated.name_term_index_exec", T + "Translated.prefix_term_index_exec", T + "C19_triples", T + "C19_quads", T + "C19_graphs", T + "C19_each_name_once", T + "C03_triples"],
        rule="SPEC audit on the REAL bytes of generic serializer cases (3 classes, all entry points, namespace declarations, "
             "presets down to 8/0/0 and 8/1/1, frame sizes 1..250): the Lean referee's counters redundant-entry, missed-repeat, "
             "missed-zero (and split-graph for GraphStream) must all be 0. Inputs with xsd:string-typed literals are left out "
             "(Python == and the format disagree on whether such a literal repeats the plain one). Non-trivial = accepted "
             "case with >= 2 statements.",
    ),
    "C02": dict(
        modules=["C03", "C04", "C15", "C07", "C02Full", "Plugin"],
        theorems=[T + "C02_plugin_graph", T + "C02_plugin_dataset", T + "C01_rflat_triples", T + "C02_graphs_dataset", T + "C02_triples_dataset", T + "C03_triples", T + "C03_quads", T + "C03_graphs",
                  T + "C04_decoder_refines_spec", T + "C02_graphs_loops_agree", T + "C15_serializers_agree_triples", T + "C15_serializers_agree_quads",
                  T + "C15_integrations_agree_rows", T + "C07_frames_eq_rows"],
        rule="rdflib Graph (TRIPLES) / Dataset (QUADS or GRAPHS physical type) of RDF 1.1 data, presets down to 8/1/1, frame "
             "sizes 1..250, flat and grouped logical types, delimited and (flat) non-delimited; serialized through the stream "
             "functions (byte-exact against the model fed with rdflib's observed iteration order) and through "
             "Graph.serialize(format='jelly', options=, stream=); read back with parse_jelly_to_graph, Graph.parse and the "
             "plugin; compared as sets of statements (xsd:string ≡ plain). Non-trivial = >= 2 statements.",
        assumptions=["rdflib is modelled as an abstract term algebra (URIRef/BNode/Literal constructors, ==, Graph/Dataset "
                     "iteration, plugin dispatch); its iteration order is observed, not predicted"],
    ),
    "C14": dict(
        modules=["C15", "C03", "C14Full", "TranslatedStmt", "TranslatedStream"],
        theorems=[T + "Translated.stream_namespace_declaration_eq", T + "Translated.encode_namespace_declaration_eq", T + "Translated.encode_iri_app", T + "C14_triples_sink", T + "C14_quads_sink", T + "C14_statements_unaffected", T + "C14_no_namespace_rows_when_off", T + "C14_version_two_iff_enabled", T + "C14_no_bindings_same_rows",
                  T + "C14_namespace_row_decoding", T + "namespace_run"],
        rule="generic sinks with 0..5 bindings (empty prefix, IRIs with and without separators, non-ASCII, re-bound prefixes) x "
             "statements x 3 stream classes x presets down to 8/1/1 (declarations evict statement entries): Prefix events == "
             "bindings in order; sink.namespaces after parse; re-serialisation reproduces them; statements identical with the "
             "option on/off; no namespace row when off (also judged by the Lean referee); rdflib Graph/Dataset bindings incl. "
             "the 29 defaults. Non-trivial = at least one binding.",
    ),
    "C15": dict(
        modules=["C15", "C07"],
        theorems=[T + "C15_to_graph_eq_flat", T + "C07_grouped_concat_eq_flat", T + "C15_integrations_agree_row",
                  T + "C15_integrations_agree_rows", T + "C15_integrations_agree_frames", T + "C15_serializers_agree_triples",
                  T + "C15_serializers_agree_quads"],
        rule="the same RDF 1.1 bytes (from the reference encoder and from pyjelly) through all six parse entry points: generic "
             "flat == grouped concatenated == to_graph; rdflib flat == generic flat term for term; rdflib grouped/to_graph as "
             "sets; both serializers on corresponding generator input with the same options: byte-identical. Non-trivial = "
             "every stream / serializer pair with >= 2 statements.",
        assumptions=["rdflib's term constructors are an injective renaming of the generic terms on RDF 1.1 data (checked by the "
                     "term-for-term comparison); Literal(lex, normalize=False) keeps lex"],
    ),
}

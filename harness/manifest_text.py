"""Level texts for MANIFEST.json."""
NOTE_DEFAULT = ("Trusted: Lean kernel + axioms propext/Classical.choice/Quot.sound (audited per theorem on every run); "
                "the model is hand-written and tied to /repo by (1) finite tables regenerated from the live code and proved "
                "equal by decide, (2) a byte-exact differential between the real Python and the compiled model driver on "
                "generated inputs — outside the tables the tie is testing, as strong as its generators. protobuf/upb, rdflib "
                "and CPython io are modelled, not verified.")
NOTE = {}
TECHNIQUE = {}
NOT_YET = {}
LEVEL = {
    "C05": "Theorem C05_mirror_history: for every table size 1..4096, each index rule and EVERY finite key history the joint "
           "writer/reader run never fails, resolves every wire index to the intended string, keeps live entries ≤ size and all "
           "ids in [0,size] (induction over the history with a mirror invariant; stronger than the stated 1..8 bound). "
           "C05_prefix_disabled covers the disabled table. Tied to lookup.py by the LOOKUP differential on LookupEncoder/"
           "LookupDecoder and on TermEncoder→Decoder histories. C05_term_level_iris lifts it to the term level: for every "
           "name table ≥ 8, every prefix/datatype table size ≤ 4096 and EVERY finite IRI history, the real term encoder's "
           "entry rows + (prefix_id, name_id) pair, fed to the decoder, reconstruct every IRI (zero-delta ids on both sides).",
    "C08": "Theorems C08_hint_delimited / C08_hint_single: every delimited stream whose first frame is empty or starts with a "
           "row, and every bare frame starting with its options row, is classified correctly from its first three bytes, for "
           "all frame/row lengths including 10=0x0A (case analysis on the varint head). The detector itself is tabulated from "
           "the live code and proved equal to the model's (tables_hint3/short); thorough tabulates all 2^24 headers.",
    "C09": "C09_partial (proved): on a raw non-seekable source whose first read delivers ≥3 bytes (or whose input is <3 bytes) "
           "the parse equals the in-memory parse; after the header probe nothing depends on the schedule. The full statement is "
           "FALSE on the current code: C09_counterexample (kernel-checked) + real witness = known finding C09-short-first-read. "
           "Partial: real sockets/EINTR are runtime behaviour outside the model.",
    "C10": "Theorems C10_frames_prefix / C10_events_prefix / C10_short_yields_nothing: for ARBITRARY bytes detected as delimited "
           "and every cut offset, what the flat parser yields from the cut stream is a prefix of what it yields from the whole "
           "(applied twice: nothing invented or reordered, and every fully delivered frame is delivered). Tied by cutting real "
           "streams at every byte offset.",
    "C13": "Theorems C13_header_fidelity_bytes (from the BYTES of any successful run, both framings, the reader extracts exactly the "
           "options written and the framing mode), C13_header_fidelity (what the reader is told = what was written, all classes/types/sizes/Unicode names/"
           "flags, both framings), C13_version, C13_type_pairs_agree + tables_type_compat (writer, reader and spec agree on the "
           "whole 4x8 table, regenerated from the live code), C13_writer_rejects, reader rejections (names<8, >4096, version>2), "
           "C13_strict_gates, C13_logical_type_irrelevant(_state), C13_infer_flow_table + tables_stream_new.",
    "C04": "Theorem C04_decoder_refines_spec: for ALL row sequences (hence every legal producer, not the outputs of some encoder) "
           "that the reference decoder Spec.runRows accepts with denotation evs, the model of pyjelly's Decoder set up from the "
           "first options row delivers exactly evs in order without raising (simulation relation = equal tables/delta bases/"
           "repeated terms/open graph; induction over rows and over nested terms). C04_bytes_delimited / C04_bytes_single lift it to "
           "BYTES for the canonical protobuf encoding of any frame list (empty frames anywhere, any cuts): parseFlat of the bytes "
           "= the denotation. Non-canonical protobuf encodings are upb behaviour covered by the wire-parse model + "
           "correspondence only.",
    "C16": "Theorems C16_rejects_at_offending_row (every catalogued violation after a valid prefix makes the decoder raise AT that "
           "row, having delivered exactly the denotation of the valid prefix) and C16_bad_header_rejected (missing options row, "
           "unsupported physical type, version > 2, names < 8, tables > 4096 never yield an event), C16_frames (the same through "
           "any frame cuts). Two classes were genuine "
           "defects, repaired by fix: commits (triple outside a graph; datatype reference with a disabled table).",
    "C06": "Theorems (for EVERY stream — any class, logical type, delimited flag, inferred or explicit flow, frame size — and every "
           "input): C06_nothing_left_in_flow (a normal return of stream_frames leaves the flow empty), "
           "C06_rows_independent_of_flow (the flow only decides where the row sequence is cut: rows, encoder state and outcome "
           "are the same under any two flows), C06_no_empty_frame; the configuration lattice itself is pinned by "
           "C13_infer_flow_table and the generated tables (tables_stream_new, tables_flow_mk). 'Parses back to the input' is "
           "C01/C03's theorem; here it is the oracle. The full statement was false before the fix: commit (final flush).",
    "C11": "Write side: C11_trace_faithful (the trace model replays the same run as the serializer model), "
           "C11_pending_below_frame_size, C11_no_lookahead for Triple/QuadStream with a bounded flow (induction over the input). "
           "Parse side: C11_parse_live / C10_complete_frames_delivered (what the parser yields from the bytes that have arrived is a "
           "prefix of what it yields from any continuation: the statements of delivered frames never wait for later bytes). Known findings (not repaired): GraphStream fed from a quad generator reads ahead a whole graph run "
           "(C11-graphs-lookahead); a BufferedReader over a non-seekable source is wrapped in a second BufferedReader and "
           "over-reads (C11-double-buffer). The frame_size-ignored defect was repaired (fix: commit). Partial: real blocking.",
    "C12": "In the model serialization is a function, so determinism is definitional; C12_isolation proves that two independent "
           "state machines advanced under ANY schedule produce what they produce alone. Whether Python's steps act on one "
           "component only is established by the byte-exact correspondence under adversarial conditions (abandoned streams, "
           "interleaved generators, threads, hash seeds) and a static scan for mutation of shared objects. Partial.",
    "C18": "The property is FALSE on the current code; no theorem can close it. Proved: three kernel-checked counterexamples "
           "(C18_counterexample_prefix/_datatype/_name: the writer succeeds, the reference decoder accepts, the data differ) "
           "and the positive part C03_triples/_quads/_graphs (= C18_partial: when every statement fits the tables the output decodes to the input). The check replays overflow "
           "cases on the real code; every failure must match the known finding's signature (the model predicts the same bytes "
           "AND the statement does not fit), anything else is a new violation. Partial.",
    "C20": "The property is FALSE on the current code. Proved: C20_counterexample (kernel-checked: after a rejected statement the "
           "next one decodes to different data), C20_rejection_leaves_flow_untouched (nothing of a rejected statement reaches "
           "the flow, so what was written before stays a valid prefix — the last sentence of the property, for all inputs), "
           "C20_clean_rejection_leaves_no_trace, C20_prefix_valid + C20_prefix_accepted (when a statement is rejected after a prefix "
           "of well-formed fitting statements, everything handed out or buffered so far is accepted by the reference decoder "
           "and denotes exactly the accepted prefix). The check's failures must match the known finding's signature (model predicts "
           "the same output AND the rejection changed encoder state). Partial.",
    "C17": "Theorems on the model parser (a total Lean function, so every input has an outcome): C17_frames_bounded (the frame "
           "loop delivers at most one frame per input byte), C17_tables_capped / C17_oversized_refused (a decoder only ever "
           "exists with tables of ≤ 4096 slots; larger declarations are refused before allocation), C17_tables_never_grow, "
           "C10_short_yields_nothing. Crash/hang/memory of the C parser and CPython are runtime behaviour: observed by the "
           "watchdogged differential (the model must predict the exact outcome of every fuzzed input). Partial.",
    "C03": "Theorems C03_triples / C03_quads / C03_graphs: for EVERY constructible stream of each class and every sequence of "
           "well-formed statements each of which fits the tables (stmtFits), serialization succeeds and the rows written are "
           "accepted by the reference decoder Spec.runRows (written from the format rules, no shared code) and denote exactly "
           "the input, in order (simulation writer/spec: exact lookup mirror, delta bases, repeated terms; LRU argument that no "
           "entry referenced by a statement is evicted within it). With C06_rows_independent_of_flow this holds for every "
           "frame size/flow. C03_bytes_delimited lifts it to bytes: splitting the written bytes with the Lean wire parser and "
           "applying the rules yields exactly the input (written_rows_wireWF: every id written is <= 4096 < 2^32; "
           "wire_delimited_roundtrip). Namespace rows: namespace_run. The referee run on the REAL bytes is the outside "
           "decoder the property asks for.",
    "C07": "Theorems C07_frames_eq_rows / C07_repartition (decoding frames == decoding the concatenated rows, for every frame "
           "list incl. empty frames; hence any two partitions agree), C07_grouped_one_per_frame, C07_grouped_concat_eq_flat "
           "(for every byte string and source kind), C07_one_frame_per_nonempty_sink (grouped serialization), "
           "C06_rows_independent_of_flow (state carried across frames: one stream, rows independent of cuts). "
           "C07_grouped_triples_valid / C07_grouped_quads_valid: grouped_stream_to_frames over ANY list of sinks sharing one "
           "stream (tables and repeated terms carried from sink to sink) is valid for the reference decoder and denotes the "
           "concatenation of the sinks' statements.",
    "C02": "C02_graphs_dataset / C02_triples_dataset: a Dataset written graph by graph through a GraphStream (any enumeration order, "
           "empty graphs, repeated names) or a Graph/Dataset written through a TripleStream is valid for the reference decoder "
           "and denotes every statement under its graph name. The rdflib serializer is the generic writer model under other loops: C02_graphs_loops_agree and "
           "C15_serializers_agree_* prove the rdflib loops equal the generic ones on corresponding input, so C03_* (valid, "
           "denotes the input) and C04 (decoder returns the denotation; C15_integrations_agree_rows: the rdflib adapter "
           "behaves like the generic one on RDF 1.1 rows) carry over; sets instead of sequences because rdflib's enumeration "
           "order is arbitrary (the theorems hold for every order). rdflib itself is modelled, not verified. Two genuine "
           "defects repaired by fix: commits (lexical normalisation; URIRef-keyed lookups).",
    "C14": "Theorems: C14_triples_sink / C14_quads_sink (a sink with bindings written with declarations on: the rows are valid and "
           "denote first the declarations — same prefix, same IRI, same order — then the statements, including when "
           "declarations evict statement entries from small tables), C14_statements_unaffected (option on vs off: same "
           "statement events), C14_no_namespace_rows_when_off (every stream class, sink or generator input), C14_version_two_iff_enabled, "
           "C14_no_bindings_same_rows, C14_namespace_row_decoding, namespace_run (a successful declaration on a version-2 stream "
           "is accepted by the reference decoder and denotes exactly (name, IRI); it goes through the same mirrored tables as "
           "statements, so evictions caused by declarations are covered by the C03 simulation). The end-to-end 'same bindings "
           "in the same order' is the oracle + referee. Two generic-integration defects repaired by fix: commits.",
    "C15": "Theorems: C15_to_graph_eq_flat and C07_grouped_concat_eq_flat (one integration: the three entry points return the "
           "same items, for every byte string), C15_integrations_agree_row/_rows/_frames (the decoder never branches on an "
           "adapter result and the only difference — quoted-triple support — is never reached on RDF 1.1 rows), "
           "C15_serializers_agree_triples/_quads (both serializers run the same loops on corresponding generator input).",
    "C01": "Theorems C01_triples_frames / C01_quads_frames / C01_graphs_frames: for every constructible stream of the class whose "
           "tables the reader supports, every frame size and flow, both framings, and every sequence of well-formed statements "
           "each of which fits the tables: serialization succeeds, leaves nothing in the flow, and parsing the frames produced "
           "(options from the first frame, one decoder across frames) returns EXACTLY the input sequence — same length, order "
           "and duplicates, xsd:string ≡ plain. Composition of C03 (valid + denotes), C04 (decoder = denotation), C06, C07. "
           "BYTE level: C01_triples_bytes_delimited/_single, C01_quads_bytes, C01_graphs_bytes — the model's flat parser applied "
           "to the bytes written (write_delimited per frame, or write_single per frame) returns exactly the input; this adds "
           "the wire round trip, the framing detection (C08) and the first-frame search to the composition. Side conditions: "
           "quoted triples nest < 98 deep (protobuf recursion limit), frames < 2^32 bytes.",
    "C19": "Theorems C19_triples / C19_quads / C19_graphs: for every constructible stream and every sequence of well-formed, "
           "fitting statements (on which Python == and the format's notion of equal terms coincide: no xsd:string-typed "
           "literal), the audit of the written rows against the reference decoder's state is all zeros — no entry for a string "
           "resident in that table (exact writer/reader mirror incl. the converse direction), no present term equal to the "
           "repeated term of its slot, no explicit id where the zero form applies, no graph closed and reopened under the same "
           "name. C19_each_name_once: with a name table that never evicts, no name is sent twice. The size claim follows "
           "field-wise (omitted fields cost 0 bytes) and is not stated separately.",
}

"""Level texts for MANIFEST.json."""
NOTE_DEFAULT = ("Trusted: Lean kernel + axioms propext/Classical.choice/Quot.sound (audited per theorem on every run); "
                "the model is hand-written and tied to /repo by (1) finite tables regenerated from the live code and proved "
                "equal by decide, (2) a byte-exact differential between the real Python and the compiled model driver on "
                "generated inputs — outside the tables the tie is testing, as strong as its generators. protobuf/upb, rdflib "
                "and CPython io are modelled, not verified.")
NOTE = {}
TECHNIQUE = {}
NOT_YET = {}
LEVEL = {
    "C05": "Theorem C05_mirror_history: for every table size 1..4096, each index rule and EVERY finite key history the joint "
           "writer/reader run never fails, resolves every wire index to the intended string, keeps live entries ≤ size and all "
           "ids in [0,size] (induction over the history with a mirror invariant; stronger than the stated 1..8 bound). "
           "C05_prefix_disabled covers the disabled table. Tied to lookup.py by the LOOKUP differential on LookupEncoder/"
           "LookupDecoder and on TermEncoder→Decoder histories.",
    "C08": "Theorems C08_hint_delimited / C08_hint_single: every delimited stream whose first frame is empty or starts with a "
           "row, and every bare frame starting with its options row, is classified correctly from its first three bytes, for "
           "all frame/row lengths including 10=0x0A (case analysis on the varint head). The detector itself is tabulated from "
           "the live code and proved equal to the model's (tables_hint3/short); thorough tabulates all 2^24 headers.",
    "C09": "C09_partial (proved): on a raw non-seekable source whose first read delivers ≥3 bytes (or whose input is <3 bytes) "
           "the parse equals the in-memory parse; after the header probe nothing depends on the schedule. The full statement is "
           "FALSE on the current code: C09_counterexample (kernel-checked) + real witness = known finding C09-short-first-read. "
           "Partial: real sockets/EINTR are runtime behaviour outside the model.",
    "C10": "Theorems C10_frames_prefix / C10_events_prefix / C10_short_yields_nothing: for ARBITRARY bytes detected as delimited "
           "and every cut offset, what the flat parser yields from the cut stream is a prefix of what it yields from the whole "
           "(applied twice: nothing invented or reordered, and every fully delivered frame is delivered). Tied by cutting real "
           "streams at every byte offset.",
    "C13": "Theorems C13_header_fidelity (what the reader is told = what was written, all classes/types/sizes/Unicode names/"
           "flags, both framings), C13_version, C13_type_pairs_agree + tables_type_compat (writer, reader and spec agree on the "
           "whole 4x8 table, regenerated from the live code), C13_writer_rejects, reader rejections (names<8, >4096, version>2), "
           "C13_strict_gates, C13_logical_type_irrelevant(_state), C13_infer_flow_table + tables_stream_new.",
    "C04": "Theorem C04_decoder_refines_spec: for ALL row sequences (hence every legal producer, not the outputs of some encoder) "
           "that the reference decoder Spec.runRows accepts with denotation evs, the model of pyjelly's Decoder set up from the "
           "first options row delivers exactly evs in order without raising (simulation relation = equal tables/delta bases/"
           "repeated terms/open graph; induction over rows and over nested terms). Row level; framing is C07, non-canonical "
           "protobuf encodings are upb behaviour covered by the wire-parse model + correspondence only.",
    "C16": "Theorems C16_rejects_at_offending_row (every catalogued violation after a valid prefix makes the decoder raise AT that "
           "row, having delivered exactly the denotation of the valid prefix) and C16_bad_header_rejected (missing options row, "
           "unsupported physical type, version > 2, names < 8, tables > 4096 never yield an event). Two classes were genuine "
           "defects, repaired by fix: commits (triple outside a graph; datatype reference with a disabled table).",
}

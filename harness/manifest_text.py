"""Level texts for MANIFEST.json."""
NOTE_DEFAULT = ("Trusted: Lean kernel + axioms propext/Classical.choice/Quot.sound (audited per theorem on every run); "
                "the model is hand-written and tied to /repo by (1) finite tables regenerated from the live code and proved "
                "equal by decide, (2) a byte-exact differential between the real Python and the compiled model driver on "
                "generated inputs — outside the tables the tie is testing, as strong as its generators. protobuf/upb, rdflib "
                "and CPython io are modelled, not verified.")
NOTE = {}
_T_BASE = ("Lean 4 machine-checked theorems about an executable model (induction / invariants / simulation, no size bound); model tied "
           "to /repo on every run by ")
_T_DIFF = ("finite tables regenerated from the live code and proved equal by decide, and a byte-exact differential correspondence between "
           "the real Python and the compiled model driver; failing-input search with the property's oracle on the real code")
_T_TR = "source-to-Lean TRANSLATION (Python ast -> Lean, regenerated every run) of {what}, each translated definition proved EQUAL to the model; plus "
TECHNIQUE = {
    "C05": _T_BASE + _T_TR.format(what="the lookup classes (serialize/lookup.py, parse/lookup.py), split_iri, TermEncoder.encode_iri_indices and the reader's Decoder.ingest_*_entry / decode_iri / decode_literal") + _T_DIFF,
    "C16": _T_BASE + _T_TR.format(what="the reader's term level Decoder.ingest_*_entry / decode_iri / decode_literal, the statement level decode_statement / decode_triple / decode_quad (a missing repeated term) and the LookupDecoder they drive (which ids are refused, with which exception)") + _T_DIFF,
    "C14": _T_BASE + _T_TR.format(what="the writer's side of a namespace declaration: Stream.namespace_declaration, encode_namespace_declaration, TermEncoder.encode_iri / encode_iri_indices and the row bracket") + _T_DIFF,
    "C04": _T_BASE + _T_TR.format(what="the reader's term level Decoder.ingest_*_entry / decode_iri / decode_literal, the statement level decode_statement / decode_triple / decode_quad (repeated terms) and the LookupDecoder they drive (which references resolve, which raise)") + _T_DIFF,
    "C01": _T_BASE + _T_TR.format(what="the term and statement levels of both sides: encode_spo / encode_triple / encode_quad, TermEncoder.encode_iri_indices / encode_literal, Decoder.decode_statement / decode_triple / decode_quad / ingest_*_entry / decode_iri / decode_literal, with the lookup classes") + _T_DIFF,
    "C18": _T_BASE + _T_TR.format(what="the lookup classes (Lookup.insert / make_last_to_evict / encode_entry_index: the pinning logic) and the row bracket TermEncoder.start_row / end_row, and the statement functions encode_triple / encode_quad that apply it") + _T_DIFF,
    "C20": _T_BASE + _T_TR.format(what="the statement functions encode_spo / encode_triple / encode_quad (roll-back of the repeated terms on a refusal), the row bracket TermEncoder.start_row / end_row (when a stream refuses to go on) and the pinning logic of the lookup classes") + _T_DIFF,
    "C03": _T_BASE + _T_TR.format(what="TermEncoder.encode_iri_indices / encode_literal and the lookup classes they drive (entry rows, ids, zero forms, oneof member)") + _T_DIFF + "; the Lean reference decoder run on the real bytes",
    "C19": _T_BASE + _T_TR.format(what="the statement functions encode_spo / encode_triple / encode_quad (elision of repeated terms), TermEncoder.encode_iri_indices / encode_literal and the lookup classes (when an entry is sent, when an id is 0)") + _T_DIFF + "; row-level compression audit of the real bytes by the Lean referee",
    "C06": _T_BASE + _T_TR.format(what="the frame-flow classes (serialize/flows.py) and the stream methods TripleStream.triple / QuadStream.quad / GraphStream.graph / Stream.enroll that feed them (every encoded row reaches the flow)") + _T_DIFF,
    "C07": _T_BASE + _T_TR.format(what="the grouped frame-flow classes (serialize/flows.py) and the stream methods TripleStream.triple / QuadStream.quad / GraphStream.graph that consult them after every statement") + _T_DIFF,
    "C11": _T_BASE + _T_TR.format(what="the bounded frame-flow classes (serialize/flows.py) and the stream methods TripleStream.triple / QuadStream.quad / GraphStream.graph that consult them after every statement") + _T_DIFF,
    "C08": _T_BASE + _T_TR.format(what="delimited_jelly_hint (proved equal to the model's detector for every byte string)") + _T_DIFF,
    "C12": _T_BASE + _T_TR.format(what="split_iri") + _T_DIFF + "; process / thread / hash-seed runs",
    "C13": _T_BASE + _T_TR.format(what="the validators of options.py (type compatibility for all pairs, flat, preset and version post-init) and Decoder.validate_stream_options (a later options row against the header)") + _T_DIFF,
}
_T_DEFAULT = _T_BASE + _T_DIFF
NOT_YET = {}
LEVEL = {
    "C05": "Theorem C05_mirror_history: for every table size 1..4096, each index rule and EVERY finite key history the joint "
           "writer/reader run never fails, resolves every wire index to the intended string, keeps live entries ≤ size and all "
           "ids in [0,size] (induction over the history with a mirror invariant; stronger than the stated 1..8 bound). "
           "C05_prefix_disabled covers the disabled table. Tied to lookup.py by the LOOKUP differential on LookupEncoder/"
           "LookupDecoder and on TermEncoder→Decoder histories. C05_term_level_iris lifts it to the term level: for every "
           "name table ≥ 8, every prefix/datatype table size ≤ 4096 and EVERY finite IRI history, the real term encoder's "
           "entry rows + (prefix_id, name_id) pair, fed to the decoder, reconstruct every IRI (zero-delta ids on both sides). "
           "TRANSLATOR TIE: harness/gen_translate.py translates the classes Lookup, LookupEncoder (pyjelly/serialize/lookup.py) and "
           "LookupDecoder (pyjelly/parse/lookup.py) from their Python source to Lean on every run (JellyGenerated/LookupGen.lean); "
           "JellyProofs/Translated.lean proves every translated method equal to the model function (outcome, exception class and "
           "attributes afterwards: make_last_to_evict_eq … decode_datatype_eq, constructors included) and C05_translated restates "
           "the property for the translated code itself — so a change to these sources changes the definitions the kernel checks.",
    "C08": "Theorems C08_hint_delimited / C08_hint_single: every delimited stream whose first frame is empty or starts with a "
           "row, and every bare frame starting with its options row, is classified correctly from its first three bytes, for "
           "all frame/row lengths including 10=0x0A (case analysis on the varint head). The detector itself is tabulated from "
           "the live code and proved equal to the model's (tables_hint3/short); thorough tabulates all 2^24 headers. "
           "C08_plugin_detected: whatever options= / stream= the rdflib plugin is given, a successful run writes bytes the "
           "detector classifies as the framing the STREAM was configured with (plugin_framing_follows_stream); the plugin model "
           "(JellyModel/Plugin.lean) is tied to Graph.serialize(format='jelly') byte for byte by the PLUG correspondence.",
    "C09": "Theorem C09_schedule_independent: for EVERY byte string and EVERY read schedule (list of short-read sizes, down to "
           "one byte at a time) the flat, grouped and to-graph parses from a raw non-seekable source equal the parses from an "
           "in-memory buffer (readHeaderLoop_eq: the header loop collects exactly the first three bytes by induction over the "
           "schedule; after the push-back nothing depends on the schedule). C09_any_two_schedules; C09_regression_witness for "
           "the defect repaired by fix 864fdab (was known finding C09-short-first-read). Seekable sources (file, gzip, "
           "positioned) are oracle-checked against BytesIO. Partial only in that real sockets/EINTR/non-blocking reads are "
           "runtime behaviour outside the model.",
    "C10": "Theorems C10_frames_prefix / C10_events_prefix / C10_short_yields_nothing: for ARBITRARY bytes detected as delimited "
           "and every cut offset, what the flat parser yields from the cut stream is a prefix of what it yields from the whole "
           "(applied twice: nothing invented or reordered, and every fully delivered frame is delivered). Tied by cutting real "
           "streams at every byte offset.",
    "C13": "Theorems C13_header_fidelity_bytes (from the BYTES of any successful run, both framings, the reader extracts exactly the "
           "options written and the framing mode), C13_header_fidelity (what the reader is told = what was written, all classes/types/sizes/Unicode names/"
           "flags, both framings), C13_version, C13_type_pairs_agree + tables_type_compat (writer, reader and spec agree on the "
           "whole 4x8 table, regenerated from the live code), C13_writer_rejects, reader rejections (names<8, >4096, version>2), "
           "C13_strict_gates, C13_logical_type_irrelevant(_state), C13_infer_flow_table + tables_stream_new.",
    "C04": "Theorem C04_decoder_refines_spec: for ALL row sequences (hence every legal producer, not the outputs of some encoder) "
           "that the reference decoder Spec.runRows accepts with denotation evs, the model of pyjelly's Decoder set up from the "
           "first options row delivers exactly evs in order without raising (simulation relation = equal tables/delta bases/"
           "repeated terms/open graph; induction over rows and over nested terms). C04_bytes_delimited / C04_bytes_single lift it to "
           "BYTES for the canonical protobuf encoding of any frame list (empty frames anywhere, any cuts): parseFlat of the bytes "
           "= the denotation. Non-canonical protobuf encodings are upb behaviour covered by the wire-parse model + "
           "correspondence only.",
    "C16": "Theorems C16_rejects_at_offending_row (every catalogued violation after a valid prefix makes the decoder raise AT that "
           "row, having delivered exactly the denotation of the valid prefix) and C16_bad_header_rejected (missing options row, "
           "unsupported physical type, version > 2, names < 8, tables > 4096 never yield an event), C16_frames (the same through "
           "any frame cuts). Two classes were genuine "
           "defects, repaired by fix: commits (triple outside a graph; datatype reference with a disabled table).",
    "C06": "Theorems (for EVERY stream — any class, logical type, delimited flag, inferred or explicit flow, frame size — and every "
           "input): C06_nothing_left_in_flow (a normal return of stream_frames leaves the flow empty), "
           "C06_rows_independent_of_flow (the flow only decides where the row sequence is cut: rows, encoder state and outcome "
           "are the same under any two flows), C06_no_empty_frame; the configuration lattice itself is pinned by "
           "C13_infer_flow_table and the generated tables (tables_stream_new, tables_flow_mk). 'Parses back to the input' is "
           "C01/C03's theorem; here it is the oracle. The full statement was false before the fix: commit (final flush). TRANSLATOR TIE: harness/gen_translate_flows.py translates the six frame-flow classes of pyjelly/serialize/flows.py (every "
           "method of the flow interface resolved along the MRO, constructors with their super() chain) to Lean on every run; "
           "JellyProofs/TranslatedFlows.lean proves each equal to the model's Flow functions (30 equalities), so what decides where "
           "frames are cut and what the final flush emits is checked against the source text, not sampled.",
    "C11": "Write side: C11_trace_faithful (the trace model replays the same run as the serializer model), "
           "C11_pending_below_frame_size, C11_no_lookahead for Triple/QuadStream with a bounded flow (induction over the input). "
           "Parse side: C11_parse_live / C10_complete_frames_delivered (what the parser yields from the bytes that have arrived is a "
           "prefix of what it yields from any continuation: the statements of delivered frames never wait for later bytes). Holds for every read schedule (C09_schedule_independent). Known findings (not repaired): GraphStream fed from a quad generator reads ahead a whole graph run "
           "(C11-graphs-lookahead); the rdflib GraphStream fed from a quad generator first copies the whole input into a "
           "Dataset (C11-rdflib-graphs-materialised). The rdflib Triple/QuadStream loops are traced like the generic ones. Repaired by fix: commits: frame_size ignored (a367a17); a buffered non-seekable input wrapped "
           "in a second BufferedReader that waited for a full buffer (d011a36, was C11-double-buffer). Partial: real blocking.",
    "C12": "In the model serialization is a function, so determinism is definitional; C12_isolation proves that two independent "
           "state machines advanced under ANY schedule produce what they produce alone. Whether Python's steps act on one "
           "component only is established by the byte-exact correspondence under adversarial conditions (abandoned streams, "
           "interleaved generators, threads, hash seeds) and a static scan for mutation of shared objects. Partial.",
    "C18": "Theorems C18_triples / C18_quads / C18_graphs: for EVERY sequence of well-formed statements and every preset the stream "
           "accepts — no sizing hypothesis — the writer either ends with an exception or what it wrote is valid for the reference "
           "decoder and denotes exactly the input; C18_prefix_on_error: when it raises, everything handed out before is a valid "
           "prefix. (C03_* without stmtFits: the run-time refusal replaces the hypothesis.) This holds on the code as repaired by "
           "fix 593e088 (Lookup.pinned + TermEncoder.start_row: evicting an entry the row in progress still uses raises "
           "JellyConformanceError); before it the property was false (was known finding C18-in-statement-eviction); the former "
           "counterexamples are kept as regression witnesses C18_regression_*, and C18_regression_fits shows the refusal is not "
           "over-eager. C18_triples_bytes / _quads_bytes / _graphs_bytes carry the same statement down to the serialized bytes "
           "(delimited or not) read back by the byte-level reference parser. The model carries `pinned` literally and is tied "
           "byte for byte, including which statements are refused.",
    "C20": "Theorems C20_triples / C20_quads / C20_graphs: a caller drives a Triple/Quad/GraphStream statement by statement and carries on after every "
           "exception; whatever the statements are (unsupported terms, short tuples, typed literals with a disabled table, "
           "statements too big for the tables), what was written — frames handed out plus the flow — is valid for the reference "
           "decoder and denotes exactly the statements whose call returned normally, in order; no sizing hypothesis, nothing "
           "assumed about the rejected statements. Both alternatives of the property are in it: a rejection that had not used the "
           "lookup tables leaves no trace (C20_clean_rejection_leaves_no_trace, idle_irrelevant), one that had makes the stream "
           "refuse everything after it (C20_refuses_after_dirty_rejection, broken_refuses); C20_rejection_leaves_flow_untouched / "
           "C20_prefix_valid: what was written before stays a valid prefix. Holds on the code as repaired by fix a5cc14d "
           "(repeated terms put back on failure; TermEncoder.row_open / end_row; start_row refuses after a half-way failure); "
           "before it the property was false (was known finding C20-state-after-rejection; regression witness "
           "C20_regression_witness). C20_graphs is the same for GraphStream.graph() driven graph by graph (accepted = the triples "
           "before the first refused one of every graph whose name was encoded; an abandoned graph stays open on the wire and "
           "the next graph start closes it), with nothing assumed about graph names of graphs that took no triple. The rdflib "
           "encoder is covered by the SERSTEP correspondence and the referee on the real bytes.",
    "C17": "Theorems on the model parser (a total Lean function, so every input has an outcome): C17_frames_bounded (the frame "
           "loop delivers at most one frame per input byte), C17_tables_capped / C17_oversized_refused (a decoder only ever "
           "exists with tables of ≤ 4096 slots; larger declarations are refused before allocation), C17_tables_never_grow, "
           "C10_short_yields_nothing. Crash/hang/memory of the C parser and CPython are runtime behaviour: observed by the "
           "watchdogged differential (the model must predict the exact outcome of every fuzzed input, incl. frames that declare far "
           "more bytes than follow, from seekable, non-seekable and regular-file sources). The one defect found — allocation of "
           "the DECLARED frame length by a buffered stream — was repaired (fix 972da5a: frames are read in chunks of at most 1 MiB; "
           "was known finding C17-declared-frame-length). Partial.",
    "C03": "Theorems C03_triples / C03_quads / C03_graphs: for EVERY constructible stream of each class and every sequence of "
           "well-formed statements each of which fits the tables (stmtFits), serialization succeeds and the rows written are "
           "accepted by the reference decoder Spec.runRows (written from the format rules, no shared code) and denote exactly "
           "the input, in order (simulation writer/spec: exact lookup mirror, delta bases, repeated terms; LRU argument that no "
           "entry referenced by a statement is evicted within it). With C06_rows_independent_of_flow this holds for every "
           "frame size/flow. C03_bytes_delimited lifts it to bytes: splitting the written bytes with the Lean wire parser and "
           "applying the rules yields exactly the input (written_rows_wireWF: every id written is <= 4096 < 2^32; "
           "wire_delimited_roundtrip). Namespace rows: namespace_run. The referee run on the REAL bytes is the outside "
           "decoder the property asks for.",
    "C07": "Theorems C07_frames_eq_rows / C07_repartition (decoding frames == decoding the concatenated rows, for every frame "
           "list incl. empty frames; hence any two partitions agree), C07_grouped_one_per_frame, C07_grouped_concat_eq_flat "
           "(for every byte string and source kind), C07_one_frame_per_nonempty_sink (grouped serialization), "
           "C06_rows_independent_of_flow (state carried across frames: one stream, rows independent of cuts). "
           "C07_grouped_triples_valid / C07_grouped_quads_valid: grouped_stream_to_frames over ANY list of sinks sharing one "
           "stream (tables and repeated terms carried from sink to sink) is valid for the reference decoder and denotes the "
           "concatenation of the sinks' statements.",
    "C02": "C02_plugin_graph / C02_plugin_dataset: Graph.serialize / Dataset.serialize(format='jelly') with everything guessed "
           "(guess_options, guess_stream, stream_frames dispatch, write_delimited) parses back through the rdflib adapter to the "
           "store's statements in iteration order, at byte level, for every store within the sizing hypothesis. "
           "C02_graphs_dataset / C02_triples_dataset: a Dataset written graph by graph through a GraphStream (any enumeration order, "
           "empty graphs, repeated names) or a Graph/Dataset written through a TripleStream is valid for the reference decoder "
           "and denotes every statement under its graph name. The rdflib serializer is the generic writer model under other loops: C02_graphs_loops_agree and "
           "C15_serializers_agree_* prove the rdflib loops equal the generic ones on corresponding input, so C03_* (valid, "
           "denotes the input) and C04 (decoder returns the denotation; C15_integrations_agree_rows: the rdflib adapter "
           "behaves like the generic one on RDF 1.1 rows) carry over; sets instead of sequences because rdflib's enumeration "
           "order is arbitrary (the theorems hold for every order). rdflib itself is modelled, not verified. Two genuine "
           "defects repaired by fix: commits (lexical normalisation; URIRef-keyed lookups).",
    "C14": "Theorems: C14_triples_sink / C14_quads_sink (a sink with bindings written with declarations on: the rows are valid and "
           "denote first the declarations — same prefix, same IRI, same order — then the statements, including when "
           "declarations evict statement entries from small tables), C14_statements_unaffected (option on vs off: same "
           "statement events), C14_no_namespace_rows_when_off (every stream class, sink or generator input), C14_version_two_iff_enabled, "
           "C14_no_bindings_same_rows, C14_namespace_row_decoding, namespace_run (a successful declaration on a version-2 stream "
           "is accepted by the reference decoder and denotes exactly (name, IRI); it goes through the same mirrored tables as "
           "statements, so evictions caused by declarations are covered by the C03 simulation). The end-to-end 'same bindings "
           "in the same order' is the oracle + referee. Two generic-integration defects repaired by fix: commits.",
    "C15": "Theorems: C15_to_graph_eq_flat and C07_grouped_concat_eq_flat (one integration: the three entry points return the "
           "same items, for every byte string), C15_integrations_agree_row/_rows/_frames (the decoder never branches on an "
           "adapter result and the only difference — quoted-triple support — is never reached on RDF 1.1 rows), "
           "C15_serializers_agree_triples/_quads (both serializers run the same loops on corresponding generator input).",
    "C01": "Theorems C01_triples_frames / C01_quads_frames / C01_graphs_frames: for every constructible stream of the class whose "
           "tables the reader supports, every frame size and flow, both framings, and every sequence of well-formed statements "
           "each of which fits the tables: serialization succeeds, leaves nothing in the flow, and parsing the frames produced "
           "(options from the first frame, one decoder across frames) returns EXACTLY the input sequence — same length, order "
           "and duplicates, xsd:string ≡ plain. Composition of C03 (valid + denotes), C04 (decoder = denotation), C06, C07. "
           "BYTE level: C01_triples_bytes_delimited/_single, C01_quads_bytes, C01_graphs_bytes — the model's flat parser applied "
           "to the bytes written (write_delimited per frame, or write_single per frame) returns exactly the input; this adds "
           "the wire round trip, the framing detection (C08) and the first-frame search to the composition. Side conditions: "
           "quoted triples nest < 98 deep (protobuf recursion limit), frames < 2^32 bytes.",
    "C19": "Theorems C19_triples / C19_quads / C19_graphs: for every constructible stream and every sequence of well-formed, "
           "fitting statements (on which Python == and the format's notion of equal terms coincide: no xsd:string-typed "
           "literal), the audit of the written rows against the reference decoder's state is all zeros — no entry for a string "
           "resident in that table (exact writer/reader mirror incl. the converse direction), no present term equal to the "
           "repeated term of its slot, no explicit id where the zero form applies, no graph closed and reopened under the same "
           "name. C19_each_name_once: with a name table that never evicts, no name is sent twice. The size claim follows "
           "field-wise (omitted fields cost 0 bytes) and is not stated separately.",
}

"""Watchdogged worker for C17: reads `<entry> <hex>` lines, prints `<outcome line>\t<maxrss_kb>\t<cpu ms>`."""
import resource
import signal
import sys
import time

import common  # noqa: F401
import impl


class Timeout(BaseException):
    pass


def on_alarm(*_):
    raise Timeout


def main():
    cap = int(sys.argv[1]) if len(sys.argv) > 1 else 2 << 30
    resource.setrlimit(resource.RLIMIT_AS, (cap, cap))
    # promptness is judged on the CPU time of this process (a loaded machine must not turn into an alarm): SIGPROF after 10 s
    # of CPU, and a generous wall-clock alarm for a parser that sleeps or blocks instead of spinning
    signal.signal(signal.SIGALRM, on_alarm)
    signal.signal(signal.SIGPROF, on_alarm)
    hangs = 0
    for line in sys.stdin:
        if hangs >= 3:
            print("SKIPPED-AFTER-HANGS\t0\t0", flush=True)
            continue
        entry, _, hexs = line.strip().partition(" ")
        data = bytes.fromhex(hexs)
        traced = entry.startswith("tm:")   # measure the peak of Python-level allocations too (untouched pages never show in RSS)
        if traced:
            import tracemalloc
            entry = entry[3:]
            tracemalloc.start()
        t0 = time.process_time()
        signal.alarm(90)
        signal.setitimer(signal.ITIMER_PROF, 10.0)
        try:
            e_name, _, e_src = entry.partition(":")
            if e_name == "rflat":
                import rimpl
                out = rimpl.run_par_flat(False, e_src or "seek", data)
                out = f"n={out.count(' ')} " + out.rsplit(" ", 1)[-1]
            elif e_name == "rgrouped":
                import rimpl
                sinks, err = rimpl.run_par_grouped(False, e_src or "seek", data)
                out = f"n={sum(map(len, sinks))} " + ("end" if err is None else "!" + err)
            elif e_name == "rgraph":
                import rimpl
                st, err = rimpl.run_par_graph(e_src or "seek", data)
                out = f"n={len(rimpl.store_quads(st)) if st is not None else 0} " + ("end" if err is None else "!" + err)
            else:
                out = impl.run_par(e_name, False, e_src or "seek", data)
        except Timeout:
            out = "HANG"
            hangs += 1
        except MemoryError:
            out = "!MemoryError"
        except BaseException as e:  # noqa: BLE001
            out = "!!" + type(e).__name__
        signal.setitimer(signal.ITIMER_PROF, 0)
        signal.alarm(0)
        if traced:
            out += f" tm={tracemalloc.get_traced_memory()[1] // 1024}"
            tracemalloc.stop()
        rss = resource.getrusage(resource.RUSAGE_SELF).ru_maxrss
        print(f"{out}\t{rss}\t{int((time.process_time() - t0) * 1000)}", flush=True)


main()

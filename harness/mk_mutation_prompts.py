"""Write the self-contained task files for a round of seeded-regression sub-agents and create their worktrees.
usage: mk_mutation_prompts.py <base dir outside /repo and /verif, e.g. /tmp/mut4> <prop> ...
Each agent gets ONLY: the text of one property, its own scratch worktree, and the one-line titles of the mechanisms
earlier rounds already used for that property (so that it looks elsewhere). Nothing else from /verif."""
import json, subprocess, sys
from pathlib import Path

V = Path(__file__).resolve().parent.parent
base = Path(sys.argv[1]); props = sys.argv[2:]
P = {json.loads(l)["id"]: json.loads(l) for l in open(V / "properties.jsonl")}
base.mkdir(parents=True, exist_ok=True)
for pid in props:
    wt = base / pid
    subprocess.run(["git", "-C", "/repo", "worktree", "add", "--detach", str(wt), "HEAD"], check=True, capture_output=True)
    used = []
    for d in sorted((V / "seeded").glob(f"{pid}-*")):
        notes = (d / "notes.md").read_text().strip().split("\n")
        used.append("- " + next((l.strip("# ").strip() for l in notes if l.strip()), "")[:160])
    p = P[pid]
    text = f"""You are given a scratch git worktree of the Python library Jelly-RDF/pyjelly at {wt}
(a pure-Python encoder/decoder for Jelly, a protobuf-based streaming RDF serialization format). Work ONLY inside
that directory. Do not read or touch /repo or anything under /verif. Never commit anything, and never use
`git stash` (the stash is shared by all worktrees of the repository, other agents work in sibling worktrees): to go
back to the clean tree use `git checkout -- .`, to re-apply your change use `git apply out/k/patch.diff`.

Python: /venv/bin/python. The project's test suite: `cd {wt} && /venv/bin/python -m pytest -q -p no:cacheprovider`
(currently: 487 passed, 145 skipped; it writes some temp .jelly files under tests/ — restore them afterwards with
`git checkout -- tests`). IMPORTANT: a compiled copy of pyjelly is installed in site-packages and shadows the source
tree for scripts run from elsewhere: every script you write must start with `import sys; sys.path.insert(0, "{wt}")`
and must assert `pyjelly.__file__.startswith("{wt}")`.

This is a mutation-testing exercise for a verification project. Here is a semantic property the library is supposed
to satisfy:

  id: {pid}
  title: {p['title']}
  statement: {p['statement']}
  quantified over: {p['quantifier']['text']}
  why the existing tests cannot settle it: {p['why_tests_cant']}
  code it is anchored in: {json.dumps(p['anchors'])}

YOUR TASK: produce TWO different, realistic code changes to the library (not to its tests) such that each one
  (a) BREAKS the property above (for some input / configuration / schedule / history),
  (b) still imports and runs, and the existing test suite, unedited, still reports 487 passed,
  (c) looks like something a maintainer could plausibly merge: a refactoring, an optimisation, a clean-up, a small
      feature or robustness tweak whose comment gives a sensible motive. No sabotage-looking code, no special-casing of
      magic values, no dead code. Small to medium size.
The two changes must differ from each other in mechanism and preferably in the layer they touch (core encoder/decoder,
lookup tables, flows/streams, IO utilities, generic integration, rdflib integration, options handling). Favour subtle
ones: a cooperating call site that is not touched, laziness/eagerness, state set up or reset in the wrong place,
boundary sizes, aliasing of mutable objects, an invariant that holds for the fixtures but not in general, behaviour
that differs between the generic and the rdflib integration, or between delimited and non-delimited output.

Earlier rounds already used the following mechanisms for this property — do NOT reuse them, look elsewhere:
{chr(10).join(used) or '- (none)'}

For each change k in {{1, 2}} write, under {wt}/out/k/ :
  patch.diff  — `git diff` of the change against the clean HEAD (library files only; must apply with `git apply` to a
                clean checkout, independently of the other change);
  demo.py     — a script that exits 0 on the unchanged library and exits 1 (printing what is violated) with the change
                applied; it demonstrates the violation of the PROPERTY (not merely a difference in behaviour). Keep all
                logic under `if __name__ == "__main__":` (the suite collects doctest modules and would import it);
                start it with the sys.path lines above; keep it deterministic and under a minute;
  notes.md    — first line: a one-line title of the change; then: what was changed and where, why it looks innocent,
                exactly what is needed for the violation to manifest, and the commands you ran with their results.

Verify EACH change yourself, from a clean tree: `git apply out/k/patch.diff`; run the suite (487 passed); run the demo
(exit 1); `git checkout -- .`; run the demo again (exit 0). Candidates that make any existing test fail do not count:
drop them and find another. When you are done the worktree must be clean apart from the untracked out/ directory.

Report, at the end, a short summary of the two changes (what, where, what they need to manifest) and the verification
table."""
    (base / f"{pid}.prompt.txt").write_text(text)
    print(pid, wt, len(text))

"""Run the REAL pyjelly (working tree) on one protocol request and render the canonical response.

Every function here mirrors one command of lean/Main.lean; the response text must be
character-identical to the model's when model and implementation agree.
"""
from __future__ import annotations

import io
from collections.abc import Iterable

from common import (
    UNSUPPORTED,
    err_name,
    events_text,
    hx,
    sink_text,
)

from pyjelly import jelly
from pyjelly.integrations.generic import parse as gparse
from pyjelly.integrations.generic import serialize as gser
from pyjelly.integrations.generic.generic_sink import (
    IRI,
    BlankNode,
    DefaultGraph,
    GenericStatementSink,
    Literal,
    Quad,
    Triple,
)
from pyjelly.options import LookupPreset, StreamParameters
from pyjelly.parse import ioutils as pio
from pyjelly.parse.lookup import LookupDecoder
from pyjelly.serialize import flows
from pyjelly.serialize.encode import split_iri
from pyjelly.serialize.ioutils import write_delimited, write_single
from pyjelly.serialize.lookup import LookupEncoder
from pyjelly.serialize.streams import GraphStream, QuadStream, SerializerOptions, TripleStream

STREAMS = {"T": TripleStream, "Q": QuadStream, "G": GraphStream}
FLOWS = {
    "manual": flows.ManualFrameFlow,
    "bounded": flows.BoundedFrameFlow,
    "flatTriples": flows.FlatTriplesFrameFlow,
    "flatQuads": flows.FlatQuadsFrameFlow,
    "graphs": flows.GraphsFrameFlow,
    "datasets": flows.DatasetsFrameFlow,
}


# ---------------------------------------------------------------------------------------------
# option records shared with the generators
# ---------------------------------------------------------------------------------------------

class Opts:
    """Serializer options as plain data; rendered both as a protocol token and as real objects."""

    def __init__(self, *, flow=None, fs=250, lt=0, gen=False, star=False, delim=True, ns=False,
                 name="", pn=4000, pp=150, pd=32):
        self.flow = flow  # (kind, logical, frame_size) or None
        self.fs, self.lt, self.gen, self.star, self.delim, self.ns = fs, lt, gen, star, delim, ns
        self.name, self.pn, self.pp, self.pd = name, pn, pp, pd

    def token(self) -> str:
        parts = []
        if self.flow is not None:
            k, l, f = self.flow
            parts.append(f"flow={k}:{l}:{f}")
        parts += [f"fs={self.fs}", f"lt={self.lt}", f"gen={int(self.gen)}", f"star={int(self.star)}",
                  f"delim={int(self.delim)}", f"ns={int(self.ns)}", f"name={hx(self.name)}",
                  f"pn={self.pn}", f"pp={self.pp}", f"pd={self.pd}"]
        return ";".join(parts)

    def real(self) -> SerializerOptions:
        """Build the real option objects (may raise, exactly where user code would)."""
        flow = None
        if self.flow is not None:
            k, l, f = self.flow
            cls = FLOWS[k]
            kwargs = {}
            if l:
                kwargs["logical_type"] = l
            if f and issubclass(cls, flows.BoundedFrameFlow):
                kwargs["frame_size"] = f
            flow = cls(**kwargs)
        return SerializerOptions(
            flow=flow,
            frame_size=self.fs,
            logical_type=self.lt,
            params=StreamParameters(generalized_statements=self.gen, rdf_star=self.star,
                                    delimited=self.delim, namespace_declarations=self.ns,
                                    stream_name=self.name),
            lookup_preset=LookupPreset(max_names=self.pn, max_prefixes=self.pp, max_datatypes=self.pd),
        )

    def describe(self) -> dict:
        return dict(flow=self.flow, fs=self.fs, lt=self.lt, gen=self.gen, star=self.star,
                    delim=self.delim, ns=self.ns, name=self.name, preset=[self.pn, self.pp, self.pd])


def make_stream(cls: str, o: Opts):
    opts = o.real()
    return STREAMS[cls](encoder=gser.GenericSinkTermEncoder(lookup_preset=opts.lookup_preset), options=opts), opts


def frames_bytes(frames: Iterable, delimited: bool) -> bytes:
    out = io.BytesIO()
    for f in frames:
        (write_delimited if delimited else write_single)(f, out)
    return out.getvalue()


# ---------------------------------------------------------------------------------------------
# lk
# ---------------------------------------------------------------------------------------------

def run_lk(rule: str, size: int, keys: list[str]) -> str:
    enc = LookupEncoder(lookup_size=size)
    try:
        dec = LookupDecoder(lookup_size=size)
    except Exception as e:  # noqa: BLE001
        return "!" + err_name(e)
    out = []
    for k in keys:
        entry_s = "-"
        try:
            if size != 0:
                ent = enc.encode_entry_index(k)
                if ent is not None:
                    entry_s = str(ent)
                    dec.assign_entry(ent, k)
            idx = getattr(enc, f"encode_{rule}_term_index")(k)
        except Exception as e:  # noqa: BLE001
            out.append(f"{entry_s};!{err_name(e)}")
            break
        try:
            res = getattr(dec, f"decode_{rule}_term_index")(idx)
        except Exception as e:  # noqa: BLE001
            out.append(f"{entry_s};{idx};!{err_name(e)}")
            break
        out.append(f"{entry_s};{idx};{hx(res)}")
    return " ".join(out) + f" live={len(enc.lookup.data)}"


# ---------------------------------------------------------------------------------------------
# ser
# ---------------------------------------------------------------------------------------------

def _consume(gen, sink_frames: list) -> BaseException | None:
    try:
        for f in gen:
            if not isinstance(f, jelly.RdfStreamFrame):
                # the code under test handed out something that is not a frame: its error, reported like one (not a harness crash)
                return TypeError(f"serializer yielded {type(f).__name__} instead of a frame")
            sink_frames.append(f)
    except Exception as e:  # noqa: BLE001
        return e
    return None


def run_ser_frames(cls: str, o: Opts, data, *, is_sink: bool) -> tuple[str, bytes | None]:
    """stream_frames(stream, data) then write_delimited / write_single per frame."""
    try:
        stream, opts = make_stream(cls, o)
    except Exception as e:  # noqa: BLE001
        return "!" + err_name(e), None
    arg = data if is_sink else (s for s in data)
    frames: list = []
    err = _consume(gser.stream_frames(stream, arg), frames)
    b = frames_bytes(frames, o.delim)
    return f"ok {b.hex()} flow={len(stream.flow)} " + ("end" if err is None else "!" + err_name(err)), b


class _Capture:
    """Captures the stream object created inside flat_/grouped_stream_to_frames."""

    def __init__(self):
        self.stream = None
        self._orig = gser.guess_stream

    def __enter__(self):
        def wrapped(options, sink):
            s = self._orig(options, sink)
            self.stream = s
            return s
        gser.guess_stream = wrapped
        return self

    def __exit__(self, *a):
        gser.guess_stream = self._orig


def run_ser_flat(o: Opts | None, stmts) -> tuple[str, bytes | None]:
    out = io.BytesIO()
    err = None
    with _Capture() as cap:
        try:
            opts = None if o is None else o.real()
            gser.flat_stream_to_file((s for s in stmts), out, opts)
        except Exception as e:  # noqa: BLE001
            err = e
    b = out.getvalue()
    fl = "-" if cap.stream is None else str(len(cap.stream.flow))
    return f"ok {b.hex()} flow={fl} " + ("end" if err is None else "!" + err_name(err)), b


def run_ser_grouped(o: Opts | None, sinks) -> tuple[str, bytes | None]:
    out = io.BytesIO()
    err = None
    with _Capture() as cap:
        try:
            kwargs = {} if o is None else {"options": o.real()}
            gser.grouped_stream_to_file((s for s in sinks), out, **kwargs)
        except Exception as e:  # noqa: BLE001
            err = e
    b = out.getvalue()
    fl = "-" if cap.stream is None else str(len(cap.stream.flow))
    return f"ok {b.hex()} flow={fl} " + ("end" if err is None else "!" + err_name(err)), b


# ---------------------------------------------------------------------------------------------
# step
# ---------------------------------------------------------------------------------------------

def _fr(f) -> str:
    if f is None:
        return "-"
    out = io.BytesIO()
    write_delimited(f, out)
    return "F" + out.getvalue().hex()


def run_step(cls: str, o: Opts, ops: list[tuple], integration: str = "generic", info: list | None = None) -> str:
    """ops: ('enroll',) ('flush',) ('t', stmt) ('q', stmt) ('g', gid, triples) ('ns', name, iri).
    integration='rdflib': the stream is built with for_rdflib and fed rdflib terms (RDF 1.1 terms only)."""
    try:
        if integration == "rdflib":
            import rimpl
            from common import UNSUPPORTED

            stream, _ = rimpl.make_stream(cls, o)
            conv = lambda t: t if t is UNSUPPORTED else rimpl.to_rdflib(t)  # noqa: E731
            ops = [(op[0], tuple(conv(t) for t in op[1])) if op[0] in ("t", "q")
                   else (op[0], conv(op[1]), [tuple(conv(t) for t in st) for st in op[2]]) if op[0] == "g" else op for op in ops]
        else:
            stream, _ = make_stream(cls, o)
    except Exception as e:  # noqa: BLE001
        return "!" + err_name(e)
    out = []
    for op in ops:
        kind = op[0]
        try:
            if kind == "enroll":
                stream.enroll()
                out.append("-")
            elif kind == "opts":
                stream.stream_options()
                out.append("-")
            elif kind == "flush":
                out.append(_fr(stream.flow.to_stream_frame()))
            elif kind == "t":
                out.append(_fr(stream.triple(op[1])))
            elif kind == "q":
                out.append(_fr(stream.quad(op[1])))
            elif kind == "g":
                frames: list = []
                pulled = [0]

                def counted(triples=op[2], pulled=pulled):
                    for t in triples:
                        pulled[0] += 1
                        yield t

                err = _consume(stream.graph(op[1], counted()), frames)
                if info is not None:
                    # triples of this graph that were accepted: all pulled ones, minus the one that raised
                    info.append(dict(op=len(out), accepted=pulled[0] - (1 if err is not None and pulled[0] else 0)))
                s = "+".join(_fr(f) for f in frames) if frames else "-"
                out.append(s + ("" if err is None else "!" + err_name(err)))
            elif kind == "ns":
                stream.namespace_declaration(op[1], op[2])
                out.append("-")
            else:
                out.append("?bad-op")
        except Exception as e:  # noqa: BLE001
            out.append("!" + err_name(e))
    return " ".join(out) + f" flow={len(stream.flow)}"


def step_op_token(op: tuple) -> str:
    from common import stmt_text, stmts_text, term_text

    kind = op[0]
    if kind in ("enroll", "flush", "opts"):
        return kind
    if kind in ("t", "q"):
        return f"{kind}:{stmt_text(op[1])}"
    if kind == "g":
        return f"g:{term_text(op[1])}@{stmts_text(op[2])}"
    if kind == "ns":
        return f"ns:{hx(op[1])}={hx(op[2])}"
    raise ValueError(kind)


# ---------------------------------------------------------------------------------------------
# par
# ---------------------------------------------------------------------------------------------

class RawSource(io.RawIOBase):
    """Non-seekable raw source that returns reads according to a schedule of short-read sizes."""

    def __init__(self, data: bytes, schedule: list[int] | None = None, default: int = 1 << 20):
        self._data, self._pos = data, 0
        self._sched = list(schedule or [])
        self._default = default
        self.max_requested = 0

    def readable(self) -> bool:
        return True

    def seekable(self) -> bool:
        return False

    def readinto(self, b) -> int:
        n = self._sched.pop(0) if self._sched else self._default
        n = max(1, min(n, len(b)))
        chunk = self._data[self._pos:self._pos + n]
        b[: len(chunk)] = chunk
        self._pos += len(chunk)
        return len(chunk)


class GrowingSource(io.RawIOBase):
    """A seekable input that is still being written while it is read (a file a producer appends to): `visible` bytes
    exist when it is opened; before every read the producer has written at least what the read asks for (up to the
    final length, where the producer died). Whoever measures the input once, at the start, sees the smaller size."""

    def __init__(self, data: bytes, visible: int) -> None:
        super().__init__()
        self._data, self._visible, self._pos = data, min(visible, len(data)), 0

    def readable(self) -> bool:
        return True

    def seekable(self) -> bool:
        return True

    def tell(self) -> int:
        return self._pos

    def seek(self, offset: int, whence: int = 0) -> int:
        base = {0: 0, 1: self._pos, 2: self._visible}[whence]
        self._pos = max(0, base + offset)
        return self._pos

    def read(self, n: int = -1) -> bytes:
        want = len(self._data) if n is None or n < 0 else self._pos + n
        self._visible = max(self._visible, min(len(self._data), want))
        out = self._data[self._pos:min(self._visible, want)]
        self._pos += len(out)
        return out

    def readinto(self, b) -> int:
        out = self.read(len(b))
        b[: len(out)] = out
        return len(out)

    def readall(self) -> bytes:
        return self.read(-1)


class GrowingFile(io.FileIO):
    """The same with a real file: the rest of the data is appended through a second descriptor just before the read
    that asks for it."""

    def __init__(self, data: bytes, visible: int) -> None:
        import os
        import tempfile

        fd, path = tempfile.mkstemp(prefix="verif_grow_")
        self._w = os.fdopen(fd, "wb", buffering=0)
        self._w.write(data[:visible])
        self._rest, self._written = data, min(visible, len(data))
        super().__init__(path, "rb")
        os.unlink(path)

    def _grow(self, n: int) -> None:
        want = len(self._rest) if n is None or n < 0 else self.tell() + n
        upto = min(len(self._rest), want)
        if upto > self._written:
            self._w.write(self._rest[self._written:upto])
            self._written = upto

    def read(self, n: int = -1) -> bytes:
        self._grow(n)
        return super().read(n)

    def readinto(self, b) -> int:
        self._grow(len(b))
        return super().readinto(b)

    def readall(self) -> bytes:
        self._grow(-1)
        return super().readall()

    def close(self) -> None:
        try:
            self._w.close()
        finally:
            super().close()


def make_source(source: str, data: bytes):
    if source == "seek":
        return io.BytesIO(data)
    if source == "file":
        # a regular file opened by the caller: a BufferedReader over FileIO (seekable; read(n) allocates what it is asked for)
        import os
        import tempfile

        fd, path = tempfile.mkstemp(prefix="verif_src_")
        with os.fdopen(fd, "wb") as f:
            f.write(data)
        fh = open(path, "rb")  # noqa: SIM115
        os.unlink(path)
        return fh
    if source.startswith("grow:"):
        return GrowingSource(data, int(source[5:]))
    if source.startswith("growfile:"):
        return GrowingFile(data, int(source[9:]))
    if source.startswith("raw:"):
        return RawSource(data, [int(x) for x in source[4:].split(",")])
    raise ValueError(source)


def run_par(entry: str, strict: bool, source: str, data: bytes, *, integration: str = "generic") -> str:
    mod = gparse
    evs: list = []
    if entry == "flat":
        err = None
        try:
            for ev in mod.parse_jelly_flat(make_source(source, data), logical_type_strict=strict):
                evs.append(ev)
        except Exception as e:  # noqa: BLE001
            err = e
        return f"{events_text(evs)} " + ("end" if err is None else "!" + err_name(err))
    if entry == "grouped":
        sinks: list = []
        err = None
        try:
            for s in mod.parse_jelly_grouped(make_source(source, data), logical_type_strict=strict):
                sinks.append(s)
        except Exception as e:  # noqa: BLE001
            err = e
        return " ".join(sink_text(s) for s in sinks) + " " + ("end" if err is None else "!" + err_name(err))
    if entry == "graph":
        try:
            s = mod.parse_jelly_to_graph(make_source(source, data))
        except Exception as e:  # noqa: BLE001
            return "!" + err_name(e)
        return sink_text(s) + " end"
    if entry == "options":
        try:
            o, _ = pio.get_options_and_frames(make_source(source, data))
        except Exception as e:  # noqa: BLE001
            return "!" + err_name(e)
        st, lp, p = o.stream_types, o.lookup_preset, o.params
        tf = lambda b: "true" if b else "false"  # noqa: E731
        return (f"pt={int(st.physical_type)} lt={int(st.logical_type)} n={lp.max_names} p={lp.max_prefixes} "
                f"d={lp.max_datatypes} name={hx(p.stream_name)} gen={tf(p.generalized_statements)} "
                f"star={tf(p.rdf_star)} v={p.version} delim={tf(p.delimited)} nd={tf(p.namespace_declarations)}")
    raise ValueError(entry)


def run_hint(header: bytes) -> str:
    return "1" if pio.delimited_jelly_hint(header) else "0"


def run_split(iri: str) -> str:
    p, n = split_iri(iri)
    return f"{hx(p)} {hx(n)}"


__all__ = [
    "IRI", "BlankNode", "DefaultGraph", "GenericStatementSink", "Literal", "Quad", "Triple",
    "UNSUPPORTED", "Opts", "jelly",
]

"""Translator for finite facts: regenerate lean/JellyGenerated/Tables.lean from the LIVE code.

Every table is computed by importing the working-tree pyjelly and calling the real functions; the
file `JellyProofs/Tables.lean` proves (by `decide`) that each generated table equals the model's
function tabulated over the same domain. If the code changes a constant, a compatibility rule, the
flow inference or the detector, that proof stops building.

Outcome encoding shared with the model: ok → [0, …payload…], exception → [1, code].
"""
from __future__ import annotations

import itertools
import sys
from pathlib import Path

import common  # noqa: F401  (puts the repo first on sys.path)
from pyjelly import jelly, options
from pyjelly.parse import ioutils as pio
from pyjelly.serialize import flows
from pyjelly.serialize.streams import GraphStream, QuadStream, SerializerOptions, TripleStream

ERR = {"JellyConformanceError": 1, "JellyAssertionError": 2, "NotImplementedError": 3, "TypeError": 4,
       "IndexError": 5, "KeyError": 6, "ValueError": 7, "AssertionError": 8}
KIND = {flows.ManualFrameFlow: 0, flows.BoundedFrameFlow: 1, flows.FlatTriplesFrameFlow: 2,
        flows.FlatQuadsFrameFlow: 3, flows.GraphsFrameFlow: 4, flows.DatasetsFrameFlow: 5}
LOGICAL = [0, 1, 2, 3, 4, 13, 14, 114]
STREAMS = [TripleStream, QuadStream, GraphStream]


def outcome(f):
    try:
        return [0, *f()]
    except Exception as e:  # noqa: BLE001
        return [1, ERR.get(type(e).__name__, 99)]


def lean_list(xs) -> str:
    if isinstance(xs, (list, tuple)):
        return "[" + ", ".join(lean_list(x) for x in xs) + "]"
    if isinstance(xs, bool):
        return "true" if xs else "false"
    return str(xs)


def tables() -> dict[str, object]:
    t: dict[str, object] = {}
    t["implConstants"] = [options.MIN_NAME_LOOKUP_SIZE, options.MAX_LOOKUP_SIZE, options.MIN_VERSION,
                          options.MAX_VERSION, options.DEFAULT_NAME_LOOKUP_SIZE, options.DEFAULT_PREFIX_LOOKUP_SIZE,
                          options.DEFAULT_DATATYPE_LOOKUP_SIZE, flows.DEFAULT_FRAME_SIZE]
    t["implStringDatatype"] = '"' + options.STRING_DATATYPE_IRI + '"'
    # enum values as declared by the schema
    t["implPhysicalValues"] = sorted(v.number for v in jelly.PhysicalStreamType.DESCRIPTOR.values)
    t["implLogicalValues"] = sorted(v.number for v in jelly.LogicalStreamType.DESCRIPTOR.values)

    # validate_type_compatibility over 4 x 8
    def compat(p, l):
        options.validate_type_compatibility(p, l)
        return []
    t["implTypeCompat"] = [[p, l, *outcome(lambda p=p, l=l: compat(p, l))] for p in range(4) for l in LOGICAL]
    t["implFlat"] = [[l, int(options.StreamTypes(0, l).flat)] for l in LOGICAL]
    t["implFlowForType"] = [[l, *outcome(lambda l=l: [KIND[flows.flow_for_type(l)]])] for l in LOGICAL if l != 0]

    # Stream construction (infer_flow + StreamTypes validation)
    rows = []
    for ci, cls in enumerate(STREAMS):
        for l, delim, fs in itertools.product(LOGICAL, (True, False), (0, 1, 7)):
            def build(cls=cls, l=l, delim=delim, fs=fs):
                o = SerializerOptions(logical_type=l, frame_size=fs,
                                      params=options.StreamParameters(delimited=delim))
                s = cls(encoder=None, options=o)
                f = s.flow
                return [KIND[type(f)], int(f.logical_type), int(getattr(f, "frame_size", 0)),
                        int(s.stream_types.logical_type), int(s.stream_types.physical_type)]
            rows.append([ci, l, int(delim), fs, *outcome(build)])
    t["implStreamNew"] = rows

    # explicit flows: logical_type-or-class-default and frame_size-or-default
    rows = []
    for cls, k in KIND.items():
        for l, fs in itertools.product((0, 1, 3, 14), (0, 5)):
            def mk(cls=cls, l=l, fs=fs):
                kw = {}
                if l:
                    kw["logical_type"] = l
                if fs and issubclass(cls, flows.BoundedFrameFlow):
                    kw["frame_size"] = fs
                f = cls(**kw)
                return [int(f.logical_type), int(getattr(f, "frame_size", 0))]
            rows.append([k, l, fs, *outcome(mk)])
    t["implFlowMk"] = rows

    # StreamParameters.__post_init__: version chosen
    t["implParamsVersion"] = [[v, int(nd), options.StreamParameters(version=v, namespace_declarations=nd).version]
                              for v in (0, 1, 2, 3, 7) for nd in (False, True)]
    # LookupPreset acceptance over boundary sizes
    t["implPresetAccept"] = [[n, outcome(lambda n=n: (options.LookupPreset(max_names=n), [])[1])[0]]
                             for n in (0, 1, 7, 8, 9, 4096, 4097)]

    # delimited_jelly_hint: representatives per position (incl. 0x0A) and short headers
    reps = [0x00, 0x01, 0x09, 0x0A, 0x0B, 0x12, 0x7A, 0x7F, 0x80, 0x8A, 0xFF]
    t["implHint3"] = [[a, b, c, int(pio.delimited_jelly_hint(bytes([a, b, c])))] for a in reps for b in reps for c in reps]
    t["implHintShort"] = ([[[], int(pio.delimited_jelly_hint(b""))]] +
                          [[[a], int(pio.delimited_jelly_hint(bytes([a])))] for a in reps] +
                          [[[a, b], int(pio.delimited_jelly_hint(bytes([a, b])))] for a in reps for b in reps])
    # strict gates: which logical types each parser accepts under logical_type_strict
    return t


HEADER = """/-!
# GENERATED — do not edit. Regenerated from the live pyjelly sources by harness/gen_tables.py on every
check run; `JellyProofs/Tables.lean` proves each table equal to the model's.
-/
namespace Jelly.Generated

"""


def render() -> str:
    t = tables()
    out = [HEADER]
    ty = {
        "implConstants": "List Nat", "implStringDatatype": "String", "implPhysicalValues": "List Nat",
        "implLogicalValues": "List Nat", "implTypeCompat": "List (List Nat)", "implFlat": "List (List Nat)",
        "implFlowForType": "List (List Nat)", "implStreamNew": "List (List Nat)", "implFlowMk": "List (List Nat)",
        "implParamsVersion": "List (List Nat)", "implPresetAccept": "List (List Nat)", "implHint3": "List (List Nat)",
    }
    for k, typ in ty.items():
        v = t[k]
        body = v if isinstance(v, str) else lean_list(v)
        out.append(f"def {k} : {typ} :=\n  {body}\n\n")
    hs = t["implHintShort"]
    out.append("def implHintShort : List (List Nat × Nat) :=\n  [" +
               ", ".join(f"({lean_list(h)}, {v})" for h, v in hs) + "]\n\n")
    out.append("end Jelly.Generated\n")
    return "".join(out)


def main() -> int:
    dest = Path(common.LEAN_DIR) / "JellyGenerated" / "Tables.lean"
    new = render()
    old = dest.read_text() if dest.exists() else None
    if old != new:
        dest.write_text(new)
        print(f"gen_tables: rewrote {dest}")
    else:
        print("gen_tables: unchanged")
    return 0


if __name__ == "__main__":
    sys.exit(main())

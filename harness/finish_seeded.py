"""Fill seeded/<id>/meta.json (confirmed / ran / caught_by) from /tmp/confirm_<id>.json and seeded/RESULTS.json.
usage: finish_seeded.py <id> ... ; optional env STRENGTHENED='<id>=text;;<id>=text'"""
import json, os, sys
from pathlib import Path
V = Path(__file__).resolve().parent.parent
res = json.loads((V / "seeded" / "RESULTS.json").read_text())
notes = dict(x.split("=", 1) for x in os.environ.get("STRENGTHENED", "").split(";;") if "=" in x)
for sid in sys.argv[1:]:
    mp = V / "seeded" / sid / "meta.json"
    meta = json.loads(mp.read_text())
    cf = Path(f"/tmp/confirm_{sid}.json")
    if cf.exists():
        t = cf.read_text(); c = json.loads(t[t.index("{"):])
        meta["confirmed"] = dict(how="harness/eval_seeded.py confirm: scratch worktree of /repo HEAD outside /repo and /verif; patch applies; "
                                     "unedited suite run with the patch; demo run without and with the patch",
                                 applies=c.get("applies"), suite_with_patch=c.get("suite"), demo_exit_without=c.get("demo_without"),
                                 demo_exit_with=c.get("demo_with"), ok=c.get("ok"))
    r = res.get(sid, {})
    meta["ran"] = [dict(check=p, tier="quick", exit=v["exit"], violation=v["violation"]) for p, v in r.get("detail", {}).items()]
    meta["caught_by"] = r.get("caught_by", [])
    if sid in notes:
        meta["missed_at_first"] = True
        meta["strengthened"] = notes[sid]
    mp.write_text(json.dumps(meta, indent=1))
    print(sid, meta["confirmed"] and meta["confirmed"].get("ok"), meta["caught_by"])

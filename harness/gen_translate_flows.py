"""Translator, part 2: the frame-flow classes of pyjelly/serialize/flows.py -> lean/JellyGenerated/FlowsGen.lean.

flows.py is a small class hierarchy (FrameFlow <- Manual / Bounded <- FlatTriples, FlatQuads; FrameFlow <- Graphs, Datasets)
whose methods decide where the serializer cuts frames. For every CONCRETE class C and every method m of the flow interface,
the method is resolved along C's MRO in the source (`ast`), and its body is translated — with the same statement translation
as the lookup classes (gen_translate.Method) — into `Jelly.Gen.<C>.<m>` running on the model's record `Jelly.Flow`
(`rows` = the UserList's data, `logicalType`, `frameSize`; the field `kind` is the class identity and is never touched by
translated code). `super().__init__(...)` is resolved to the next definition in the MRO and translated as a call to
`Jelly.Gen.<C>.__init____<Definer>`. `JellyProofs/TranslatedFlows.lean` proves each of them equal to the model function
(`Flow.frameFromBounds` ... `Flow.mk'`) on every flow of that kind.

Fragment assumptions checked syntactically (otherwise exit 3 = broken tie): the `initlist` argument is never supplied (flows
are built empty everywhere in pyjelly); a parameter annotated `X | None` with default None is used only as the left operand of
`or` or handed on to `super().__init__` — then None and 0 are interchangeable and the parameter is a `Nat`.
"""
from __future__ import annotations

import ast
import sys
from pathlib import Path

import common  # noqa: F401
import gen_translate as gt
from gen_translate import Method, Unsupported, fail

REPO = Path(common.REPO)
OUT = Path(__file__).resolve().parent.parent / "lean" / "JellyGenerated" / "FlowsGen.lean"
SRC = "pyjelly/serialize/flows.py"
CONCRETE = ["ManualFrameFlow", "BoundedFrameFlow", "FlatTriplesFrameFlow", "FlatQuadsFrameFlow", "GraphsFrameFlow", "DatasetsFrameFlow"]
INTERFACE = ["frame_from_graph", "frame_from_dataset", "frame_from_bounds", "to_stream_frame"]
FIELDS = {"logical_type": "logicalType", "frame_size": "frameSize", "data": "rows"}
ROOT = "UserList"


class Hierarchy:
    def __init__(self, tree: ast.Module):
        self.classes = {n.name: n for n in tree.body if isinstance(n, ast.ClassDef)}
        self.consts = {}
        for n in tree.body:
            if isinstance(n, ast.Assign) and len(n.targets) == 1 and isinstance(n.targets[0], ast.Name) \
                    and isinstance(n.value, ast.Constant) and isinstance(n.value.value, int):
                self.consts[n.targets[0].id] = n.value.value

    def mro(self, c: str) -> list[str]:
        out = []
        while c != ROOT:
            cd = self.classes.get(c)
            if cd is None:
                raise Unsupported(f"class {c} not found in {SRC}")
            if len(cd.bases) != 1:
                fail(cd, "multiple inheritance")
            out.append(c)
            b = cd.bases[0]
            c = b.value.id if isinstance(b, ast.Subscript) and isinstance(b.value, ast.Name) else getattr(b, "id", None)
            if c is None:
                fail(cd, "base class")
        return out

    def method(self, c: str, m: str, after: str | None = None):
        """(defining class, FunctionDef) of m for an instance of c; `after`: start looking behind that class (super())."""
        chain = self.mro(c)
        if after is not None:
            chain = chain[chain.index(after) + 1:]
        for d in chain:
            for item in self.classes[d].body:
                if isinstance(item, ast.FunctionDef) and item.name == m:
                    return d, item
        return None, None

    def class_attr(self, c: str, name: str):
        for d in self.mro(c):
            for item in self.classes[d].body:
                if isinstance(item, ast.Assign) and len(item.targets) == 1 and isinstance(item.targets[0], ast.Name) \
                        and item.targets[0].id == name:
                    return item.value
        return None


def enum_value(e: ast.expr) -> int:
    """`jelly.LOGICAL_STREAM_TYPE_X` -> its number in the generated protobuf module."""
    from pyjelly import jelly

    if isinstance(e, ast.Attribute) and isinstance(e.value, ast.Name) and e.value.id == "jelly" and hasattr(jelly, e.attr):
        return int(getattr(jelly, e.attr))
    fail(e, "class attribute value")


class FlowMethod(Method):
    def __init__(self, h: Hierarchy, cls: str, definer: str, fn: ast.FunctionDef, name: str, todo: list):
        super().__init__(cls, fn, {}, dict(h.consts), struct="Jelly.Flow", fields=FIELDS, name=name)
        self.h, self.definer, self.todo = h, definer, todo

    # parameters: `initlist` fixed to None; `X | None = None` -> Nat (None ~ 0), see module docstring
    def params(self):
        a = self.fn.args
        if a.vararg or a.posonlyargs:
            fail(self.fn, "parameter list")
        out = []
        pos = a.args[1:]
        defaults = [None] * (len(pos) - len(a.defaults)) + list(a.defaults)
        for p, d in [*zip(pos, defaults), *zip(a.kwonlyargs, a.kw_defaults)]:
            if p.arg == "initlist":
                if not (isinstance(d, ast.Constant) and d.value is None):
                    fail(self.fn, "initlist must default to None")
                continue
            ann = ast.unparse(p.annotation) if p.annotation is not None else None
            if ann in ("int", "str") and d is None:
                out.append((p.arg, gt.TYPES[ann]))
            elif ann in ("int | None", "jelly.LogicalStreamType | None") and isinstance(d, ast.Constant) and d.value is None:
                self.check_optional_use(p.arg)
                self.opt_params.add(p.arg)
                out.append((p.arg, "Nat"))
            else:
                fail(self.fn, f"parameter {p.arg}")
        return out

    def check_optional_use(self, name: str) -> None:
        for node in ast.walk(self.fn):
            for child in ast.iter_child_nodes(node):
                if isinstance(child, ast.Name) and child.id == name and isinstance(child.ctx, ast.Load):
                    ok = (isinstance(node, ast.BoolOp) and isinstance(node.op, ast.Or) and node.values[0] is child) or \
                         (isinstance(node, ast.keyword)) or (isinstance(node, ast.Call) and child in node.args)
                    if not ok:
                        fail(node, f"optional parameter {name} used other than as `{name} or ...` / handed to super().__init__")

    def is_self(self, e) -> bool:
        return isinstance(e, ast.Name) and e.id == "self"

    def cond(self, e) -> str:
        if self.is_self(e):
            return "(!(← get).rows.isEmpty)"
        return super().cond(e)

    def expr(self, e) -> str:
        # self.__class__.logical_type
        if isinstance(e, ast.Attribute) and isinstance(e.value, ast.Attribute) and e.value.attr == "__class__" and self.is_self(e.value.value):
            v = self.h.class_attr(self.cls, e.attr)
            if v is None:
                fail(e, "class attribute")
            return str(enum_value(v))
        if isinstance(e, ast.Call) and isinstance(e.func, ast.Name) and e.func.id == "len" and len(e.args) == 1 and self.is_self(e.args[0]):
            return "(← get).rows.length"
        # jelly.RdfStreamFrame(rows=self)
        if isinstance(e, ast.Call) and ast.unparse(e.func) == "jelly.RdfStreamFrame" and not e.args \
                and [k.arg for k in e.keywords] == ["rows"] and self.is_self(e.keywords[0].value):
            return "({ rows := (← get).rows } : Frame)"
        if isinstance(e, ast.Call) and isinstance(e.func, ast.Attribute) and self.is_self(e.func.value):
            d, fn = self.h.method(self.cls, e.func.attr)
            if fn is None:
                fail(e, "unknown method")
            return f"(← {self.cls}.{e.func.attr} {self.args(e)})".replace(" )", ")")
        return super().expr(e)

    def local_type(self, name: str) -> str:
        return "Frame" if name == "frame" else "Nat"

    def ret_value(self, v) -> str:
        if self.ret == "Option Frame" and isinstance(v, ast.Call):
            return self.expr(v)  # a call to another flow method: already an Option Frame
        return super().ret_value(v)

    def stmt(self, ind: int, s: ast.stmt) -> None:
        # self.clear()
        if isinstance(s, ast.Expr) and isinstance(s.value, ast.Call) and isinstance(s.value.func, ast.Attribute) \
                and self.is_self(s.value.func.value) and s.value.func.attr == "clear" and not s.value.args:
            self.emit(ind, "modify fun s => { s with rows := [] }")
            return
        # super().__init__(initlist, logical_type=...)
        if isinstance(s, ast.Expr) and isinstance(s.value, ast.Call) and isinstance(s.value.func, ast.Attribute) \
                and s.value.func.attr == "__init__" and isinstance(s.value.func.value, ast.Call) \
                and ast.unparse(s.value.func.value) == "super()":
            c = s.value
            pos = [a for a in c.args]
            if len(pos) > 1 or (pos and not (isinstance(pos[0], ast.Name) and pos[0].id == "initlist")):
                fail(s, "super().__init__ arguments")
            d, fn = self.h.method(self.cls, "__init__", after=self.definer)
            if fn is None:
                # the root (UserList.__init__(None)): an empty list
                if c.keywords:
                    fail(s, "keyword arguments to UserList.__init__")
                self.emit(ind, "modify fun s => { s with rows := [] }")
                return
            name = f"{self.cls}.__init____{d}"
            if (self.cls, d) not in [(x[0], x[1]) for x in self.todo]:
                self.todo.append((self.cls, d, fn, name))
            target = FlowMethod(self.h, self.cls, d, fn, name, self.todo)
            formal = [p for p, _ in target.params()]
            given = {k.arg: self.atom(k.value) for k in c.keywords}
            if set(given) - set(formal):
                fail(s, "unknown keyword for the inherited __init__")
            self.emit(ind, f"{name} " + " ".join(given.get(p, "0") for p in formal))
            return
        super().stmt(ind, s)


def translate() -> str:
    tree = ast.parse((REPO / SRC).read_text())
    h = Hierarchy(tree)
    out = ["import JellyModel.PyPrelude", "import JellyModel.Stream", "/-!",
           "# GENERATED — do not edit. Translated from pyjelly/serialize/flows.py by harness/gen_translate_flows.py on every",
           "check run; `JellyProofs/TranslatedFlows.lean` proves each definition equal to the model's `Flow` functions.", "-/",
           "set_option linter.unusedVariables false", "namespace Jelly.Gen", "open Jelly Jelly.Py", ""]
    if "DEFAULT_FRAME_SIZE" not in h.consts:
        raise Unsupported("DEFAULT_FRAME_SIZE not found")
    out.append(f"def DEFAULT_FRAME_SIZE : Nat := {h.consts['DEFAULT_FRAME_SIZE']}")
    out.append("")
    for c in CONCRETE:
        v = h.class_attr(c, "logical_type")
        if v is None:
            raise Unsupported(f"{c}.logical_type not found")
        out.append(f"/-- `{c}.logical_type` (class attribute, resolved along the MRO {' -> '.join(h.mro(c))}) -/")
        out.append(f"def {c}.class_logical_type : Nat := {enum_value(v)}")
        out.append("")
        todo: list = []
        d, fn = h.method(c, "__init__")
        if fn is None:
            raise Unsupported(f"{c}.__init__ not found")
        blocks = []
        main = FlowMethod(h, c, d, fn, f"{c}.__init__", todo)
        blocks.append((f"`{c}.__init__` = `{d}.__init__` ({SRC}:{fn.lineno})", main.render()))
        done = set()
        while todo:
            cc, dd, ffn, name = todo.pop(0)
            if name in done:
                continue
            done.add(name)
            blocks.insert(0, (f"`{dd}.__init__` as reached through `super()` from an instance of `{c}` ({SRC}:{ffn.lineno})",
                              FlowMethod(h, c, dd, ffn, name, todo).render()))
        # interface methods: to_stream_frame first (others call it)
        for m in sorted(INTERFACE, key=lambda x: x != "to_stream_frame"):
            d, fn = h.method(c, m)
            if fn is None:
                raise Unsupported(f"{c}.{m} not found")
            blocks.append((f"`{c}.{m}` = `{d}.{m}` ({SRC}:{fn.lineno})", FlowMethod(h, c, d, fn, f"{c}.{m}", todo).render()))
        for doc, text in blocks:
            out.append(f"/-- {doc} -/")
            out.append(text)
            out.append("")
    out.append("end Jelly.Gen")
    return "\n".join(out) + "\n"


def main() -> int:
    try:
        text = translate()
    except Unsupported as e:
        print(f"gen_translate_flows: source outside the translated fragment: {e}", file=sys.stderr)
        return 3
    except Exception as e:  # noqa: BLE001  (an AST shape the translator does not know: the same verdict, never a pass)
        print(f"gen_translate_flows: source outside the translated fragment (translator error {type(e).__name__}: {e})", file=sys.stderr)
        return 3
    if OUT.exists() and OUT.read_text() == text:
        print("gen_translate_flows: unchanged")
    else:
        OUT.write_text(text)
        print("gen_translate_flows: written", OUT)
    return 0


if __name__ == "__main__":
    sys.exit(main())

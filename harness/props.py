"""Per-property checks: correspondence suites (model vs real code) and oracles (real code only).

Each `check_Cxx(ctx)` generates its inputs from ctx.rng, records coverage in ctx, reports
model/implementation disagreements through ctx.corr and property failures of the REAL code through
ctx.fail (with the id of the known finding whose cause signature the failure matches, if any).
"""
from __future__ import annotations

import re

import io
import itertools

import gen
import impl
import refenc
from common import (
    UNSUPPORTED,
    bn_id,
    iri_s,
    lit_dt,
    lit_lang,
    lit_lex,
    events_text,
    hx,
    sink_arg,
    stmt_text,
    stmts_text,
    term_text,
)
from framework import Ctx
from impl import (
    IRI,
    BlankNode,
    DefaultGraph,
    GenericStatementSink,
    Literal,
    Opts,
    Quad,
    Triple,
    jelly,
)

# ---------------------------------------------------------------------------------------------
# helpers
# ---------------------------------------------------------------------------------------------


def mk_sink(stmts, bindings=(), identifier=DefaultGraph):
    s = GenericStatementSink(identifier=identifier)
    for st in stmts:
        s.add(st)
    for p, i in bindings:
        s.bind(p, i)
    # (bindings with a repeated label: the last one wins in a dict, which is what the sink is documented to hold)
    last = {}
    for p, i in bindings:
        last[p] = i
    return __import__("common").intend(s, identifier, list(last.items()), stmts)


def rand_opts(r, cls: str, *, fit_for=None, delimited=None, ns=False, lt=None, explicit_flow=False) -> Opts:
    pn, pp, pd = r.choice(gen.PRESETS)
    if lt is None:
        lt = r.choice({"T": [0, 0, 1, 3, 13], "Q": [0, 0, 2, 4, 14, 114], "G": [0, 0, 2, 4, 14, 114]}[cls])
    delim = (r.random() < 0.7) if delimited is None else delimited
    o = Opts(fs=r.choice(gen.FRAME_SIZES), lt=lt, gen=True, star=True, delim=delim, ns=ns,
             name=r.choice(gen.STREAM_NAMES), pn=pn, pp=pp, pd=pd)
    if explicit_flow:
        o.flow = (r.choice(list(impl.FLOWS)), r.choice([0, 0, 1, 2, 3, 4]), r.choice([0, 1, 3]))
    return o


def gen_fitting(r, cls: str, o: Opts, n: int):
    """Statements satisfying C01's hypotheses for the preset in `o` (WF terms, each statement fits)."""
    g = gen.G(r, typed=o.pd != 0, n_prefixes=r.choice([2, 4, 6]), n_names=r.choice([3, 6, 12]))
    quads = cls in "QG"
    out, prev = [], None
    tries = 0
    while len(out) < n and tries < 20 * n + 20:
        tries += 1
        st = g.quad(prev) if quads else g.triple(prev)
        if prev is not None and r.random() < 0.07:
            st = prev
        if not gen.fits([st], o.pn, o.pp, o.pd):
            continue
        out.append(st)
        prev = st
    return out


def expected_events(stmts, cls: str):
    """What parsing must return for `stmts` written with stream class cls (xsd:string ≡ plain)."""
    out = []
    for st in stmts:
        st = gen.normalize_stmt(st)
        if cls == "T" or len(st) == 3:
            # (a triple in a quad-class expectation: only reachable when a writer ACCEPTED a triple where the unchanged code
            # refuses it — what was accepted must read back as given; never crash the harness on it)
            out.append(Triple(*st[:3]))
        else:
            out.append(Quad(*st[:4]))
    return out


def real_parse_flat(b: bytes, **kw):
    from pyjelly.integrations.generic.parse import parse_jelly_flat

    return list(parse_jelly_flat(io.BytesIO(b), **kw))


def real_parse_flat_safe(b: bytes, **kw):
    """Events of the real generic flat parse for oracles that compare with an expected list and have no handler of their own:
    a parse that RAISES ends the list with a pseudo-statement `!ExceptionName` (so that the comparison fails on it instead of the
    exception escaping into the harness and ending the check as a tooling failure)."""
    import common
    from pyjelly.integrations.generic.parse import parse_jelly_flat

    out = []
    try:
        for ev in parse_jelly_flat(io.BytesIO(b), **kw):
            out.append(ev)
    except Exception as e:  # noqa: BLE001
        out.append(common.ParseFailure((common.FailureMarker(type(e).__name__),)))
    return out


def spec_line(b: bytes, delimited: bool) -> str:
    return f"spec {int(delimited)} {b.hex()}"


def parse_spec_response(resp: str):
    """-> (verdict, events_text, audit dict | None)."""
    if resp.startswith("ok "):
        body, _, tail = resp[3:].partition(" ; audit ")
        aud = dict(kv.split("=") for kv in tail.split(" ; ")[0].split())
        return "ok", body, {k: int(v) for k, v in aud.items()}
    if resp.startswith("viol "):
        parts = resp.split(" ")
        return "viol:" + parts[1], " ".join(parts[3:]).split(" ; ")[0], None
    return resp.split(" ")[0], "", None


# ---------------------------------------------------------------------------------------------
# C05
# ---------------------------------------------------------------------------------------------

def check_C05(ctx: Ctx) -> None:
    r = ctx.rng("lk")
    reqs, resp, meta = [], [], []

    def add(rule, size, keys):
        reqs.append(f"lk {rule} {size} " + " ".join("h" + hx(k) for k in keys))
        resp.append(impl.run_lk(rule, size, keys))
        meta.append((rule, size, keys))

    # exhaustive small histories (model validation, not the proof): sizes 1..3, alphabet size+2
    max_len = 5 if ctx.quick() else 7
    for rule in ("name", "prefix", "datatype"):
        for size in (1, 2, 3):
            alpha = ["", "a", "b", "c", "d"][: size + 2] if rule == "prefix" else ["a", "b", "c", "d", "e"][: size + 2]
            for ln in range(0, max_len + 1):
                if len(alpha) ** ln > (3000 if ctx.quick() else 60000):
                    break
                for keys in itertools.product(alpha, repeat=ln):
                    add(rule, size, list(keys))
    # random long histories on sizes 1..8 and big tables
    for _ in range(ctx.n(600, 6000)):
        rule = r.choice(["name", "prefix", "datatype"])
        size = r.choice([0, 1, 2, 3, 4, 5, 6, 7, 8, 8, 16, 4096])
        alpha = [f"k{i}" for i in range(size + 2)] + ([""] if rule == "prefix" else [])
        keys = [r.choice(alpha) for _ in range(r.randint(0, 60 if size <= 16 else 300))]
        add(rule, size, keys)
    ctx.corr("LOOKUP", reqs, resp)
    # oracle on the real objects: resolved == key, ids within [0,size], live <= size
    for (rule, size, keys), line in zip(meta, resp):
        toks = line.split(" ")
        live = int(toks[-1].split("=")[1])
        outs = toks[:-1] if toks[:-1] != [""] else []
        nontrivial = len(set(keys)) > size >= 1
        ctx.case((rule, size, tuple(keys)), nontrivial, sample=dict(rule=rule, size=size, keys=keys[:12], response=line[:200]))
        ctx.dist[f"rule:{rule}"] += 1
        if size >= 1:
            ok = live <= size and len(outs) == len(keys)
            for k, o in zip(keys, outs):
                f = o.split(";")
                if len(f) != 3 or f[2].startswith("!") or bytes.fromhex(f[2]).decode() != k:
                    ok = False
                    break
                ent = f[0]
                if (ent != "-" and int(ent) > size) or int(f[1]) > size:
                    ok = False
                    break
                if ent != "-":
                    ctx.dist["entries"] += 1
                if f[1] == "0":
                    ctx.dist["zero_term_ids"] += 1
            if live == size and len(set(keys)) > size:
                ctx.dist["histories_with_eviction"] += 1
            if not ok:
                ctx.fail("writer/reader lookup mismatch", dict(rule=rule, size=size, keys=keys, response=line))
    # TermEncoder -> Decoder level (IRIs and literals through the real term encoder / decoder)
    _c05_term_level(ctx, r)
    _c05_term_level_directed(ctx, r)
    _c05_stream_level(ctx, r)
    _c05_row_level(ctx, ctx.rng("rows"))
    _tables_larger_than_names(ctx, ctx.rng("big-tables"), ctx.n(12, 120), integrations=("generic",))
    _c05_grouped_level(ctx, ctx.rng("grouped"))


def _c05_stream_level(ctx: Ctx, r) -> None:
    """Writer tables advanced through the Stream API (graph starts of EMPTY graphs, namespace declarations, statements)
    against the real reader: every row that changed a writer table must reach the reader."""
    reqs, resp = [], []
    for _ in range(ctx.n(150, 1500)):
        pn, pp, pd = r.choice([(8, 1, 1), (8, 2, 2), (8, 3, 1), (9, 4, 2), (16, 8, 8)])
        # (namespace_declaration() is a public method: it is also called on streams whose options leave declarations off,
        # i.e. version-1 streams; the declared IRI advances the writer's tables and delta bases all the same)
        o = Opts(fs=r.choice([1, 3, 250]), lt=0, gen=True, star=True, delim=True, ns=r.random() < 0.6, pn=pn, pp=pp, pd=pd)
        g = gen.G(r, typed=True, n_prefixes=r.choice([2, 4, 6]), n_names=r.choice([3, 6]))
        ops, want = [("enroll",)], []
        for _ in range(r.randint(2, 8)):
            k = r.random()
            if k < 0.25:
                ops.append(("ns", r.choice(["a", "b", ""]), iri_s(g.iri())))
                want.append("N")
            else:
                gid = r.choice([g.iri(), g.iri(), g.bnode(), DefaultGraph])
                triples = [tuple(t) for t in gen_fitting(r, "T", o, r.choice([0, 0, 1, 2]))]
                if not gen.fits([(gid,)] if gid is not DefaultGraph else [], pn, pp, pd):
                    continue
                ops.append(("g", gid, triples))
                want += ["S" + stmt_text(gen.normalize_stmt(Quad(*t, gid))) for t in triples]
            if r.random() < 0.3:
                ops.append(("flush",))
                if r.random() < 0.4:
                    # every frame a self-describing message: the (identical) options row again at the head of the next frame
                    # (Stream.stream_options() is public); the writer's tables carry on, so must the reader's
                    ops.append(("opts",))
        ops.append(("flush",))
        line = impl.run_step("G", o, ops)
        reqs.append(f"step G {o.token()} " + " ".join(impl.step_op_token(op) for op in ops))
        resp.append(line)
        ctx.case(("stream-level", reqs[-1]), True)
        ctx.dist["stream_level_histories"] += 1
        if "!" in line:
            continue
        frames = b"".join(bytes.fromhex(f[1:]) for t in line.split(" ")[:-1] for f in t.split("+") if f.startswith("F"))
        got = impl.run_par("flat", False, "seek", frames)
        got_st = [e for e in got.split(" ")[:-1] if e.startswith("S")]
        if not got.endswith(" end") or got_st != [w for w in want if w != "N"]:
            ctx.fail("reader out of step with the writer after graph starts / declarations", dict(request=reqs[-1], got=got[:1500], want=want[:20]))
    model = [m.replace("~", "") for m in __import__("common").run_driver(reqs)]
    for q, a, m in zip(reqs, resp, model):
        ctx.compare("SERSTEP", q, a, m)


def _c05_row_level(ctx: Ctx, r) -> None:
    """Whole statements through Triple/QuadStream with prefix tables of 1..3 slots and pp+2 prefixes in play, so that one
    row hits a resident prefix and then misses often enough to come round to its slot: the writer either refuses the
    row or the reader resolves every id of it to the string the writer meant. Histories end at the first refusal."""
    import common

    reqs, resp, metas = [], [], []
    for i in range(ctx.n(300, 3000)):
        cls = r.choice("TQ")
        pp = r.choice([1, 2, 2, 3, 3])
        o = Opts(fs=r.choice([1, 250]), lt=0, gen=True, star=False, delim=True, pn=8, pp=pp, pd=1)
        prefixes = [f"http://p{j}.example/" for j in range(pp + 2)]
        names = ["a", "b", "c"]
        ops, stmts = [("enroll",)], []
        for _ in range(r.randint(1, 5)):
            # biased towards rows that start with the prefix used last (a hit) and then go through fresh ones
            k = 4 if cls == "Q" else 3
            st = []
            for slot in range(k):
                if slot == 0 and stmts and r.random() < 0.6:
                    st.append(stmts[-1][-1] if isinstance(stmts[-1][-1], IRI) else IRI(r.choice(prefixes) + r.choice(names)))
                elif r.random() < 0.12:
                    st.append(BlankNode("b" + str(r.randrange(2))))
                else:
                    st.append(IRI(r.choice(prefixes) + r.choice(names)))
            stmts.append(tuple(st))
            ops.append(("q" if cls == "Q" else "t", tuple(st)))
        ops.append(("flush",))
        line = impl.run_step(cls, o, ops)
        reqs.append(f"step {cls} {o.token()} " + " ".join(impl.step_op_token(op) for op in ops))
        resp.append(line)
        metas.append((cls, pp, ops, stmts))
    model = [m.replace("~", "") for m in common.run_driver(reqs)]
    for q, a, m in zip(reqs, resp, model):
        ctx.compare("SERSTEP", q, a, m)
    spec_reqs = []
    for (cls, pp, ops, stmts), line in zip(metas, resp):
        toks = line.split(" ")[:-1]
        frames = b"".join(bytes.fromhex(f[1:]) for t in toks for f in t.split("!")[0].split("+") if f.startswith("F"))
        spec_reqs.append(spec_line(frames, True))
    for (cls, pp, ops, stmts), line, sline, req in zip(metas, resp, common.run_driver(spec_reqs), reqs):
        toks = line.split(" ")[:-1]
        data_toks = [t for op, t in zip(ops, toks) if op[0] in ("t", "q")]
        accepted = [st for st, t in zip(stmts, data_toks) if "!" not in t]
        n_ref = len(stmts) - len(accepted)
        ctx.case(("row-level", req), True, sample=dict(cls=cls, pp=pp, refused=n_ref, outcome=line[-60:]))
        ctx.dist[f"row_level:pp={pp}:refused={min(n_ref, 2)}"] += 1
        verdict, evs, _ = parse_spec_response(sline)
        want_st = [gen.normalize_stmt((Quad if cls == "Q" else Triple)(*st)) for st in accepted]
        want = "_" if not want_st else " ".join("S" + stmt_text(x) for x in want_st)
        if verdict != "ok" or evs != want:
            ctx.fail(f"ids written for a row do not resolve to the strings the writer meant ({verdict})",
                     dict(request=req, response=line[:1200], referee=sline[:1000], want=want[:1000]))


def _c05_grouped_level(ctx: Ctx, r) -> None:
    """Writer tables carried from sink to sink by the grouped entry points, with sinks that bring only namespace
    declarations (no statements), sinks that bring nothing, and sinks with both: every id of every later row has to
    resolve, on the real reader, to the string the writer meant."""
    import common

    reqs, resp, metas = [], [], []
    for _ in range(ctx.n(120, 1200)):
        cls = r.choice("TQ")
        pn, pp, pd = r.choice([(8, 1, 1), (8, 2, 2), (9, 3, 2), (16, 8, 8), (128, 16, 16)])
        o = Opts(fs=r.choice([1, 3, 250]), lt=r.choice([1, 3]) if cls == "T" else r.choice([2, 4]), gen=True, star=True, delim=True,
                 ns=r.random() < 0.8, pn=pn, pp=pp, pd=pd)
        g = gen.G(r, typed=True, n_prefixes=r.choice([2, 4, 6]), n_names=r.choice([3, 6]))
        sinks, want = [], []
        for j in range(r.randint(2, 5)):
            kind = r.random()
            stmts = [] if kind < 0.35 else gen_fitting(r, cls, o, r.randint(1, 3))
            bindings = [] if 0.25 < kind < 0.35 else [(r.choice(["a", "b", "", "ex"]), g.iri()) for _ in range(r.randint(0 if stmts else 1, 2))]
            if j == 0 and cls == "T" and not stmts:
                stmts = gen_fitting(r, cls, o, 1)  # (the stream class is guessed from the first sink's first statement)
                if not stmts:
                    break
            sinks.append(mk_sink(stmts, bindings))
            if o.ns:
                want += ["N" + hx(p) + "=" + term_text(t) for p, t in sinks[-1].namespaces]
            want += ["S" + stmt_text(x) for x in expected_events(stmts, cls)]
        if len(sinks) < 2:
            continue
        line, b = impl.run_ser_grouped(o, sinks)
        reqs.append(f"ser {cls} grouped {o.token()} " + "+".join(sink_arg(sk) for sk in sinks))
        resp.append(line)
        ctx.case(("grouped-level", reqs[-1]), True)
        ctx.dist["grouped_level_histories"] += 1
        ctx.dist["grouped_level:first_sink_" + ("declarations_only" if not len(sinks[0]) and list(sinks[0].namespaces) else "other")] += 1
        if not (line.startswith("ok ") and line.endswith(" end")):
            continue
        try:
            got = events_text(real_parse_flat(b))
        except Exception as e:  # noqa: BLE001
            got = "!" + type(e).__name__
        if got != (" ".join(want) or "_"):
            ctx.fail("reader out of step with the writer across the sinks of a grouped serialization",
                     dict(request=reqs[-1], got=got[:1500], want=" ".join(want)[:1500]))
    ctx.corr("SER", reqs, resp)


def _c05_term_level(ctx: Ctx, r) -> None:
    from pyjelly.options import LookupPreset, StreamParameters, StreamTypes
    from pyjelly.parse.decode import Decoder, ParserOptions
    from pyjelly.integrations.generic.parse import GenericTriplesAdapter
    from pyjelly.integrations.generic.serialize import GenericSinkTermEncoder

    for _ in range(ctx.n(150, 1500)):
        pn, pp, pd = r.choice([(8, 1, 1), (8, 2, 1), (8, 0, 1), (9, 3, 2), (16, 4, 4)])
        enc = GenericSinkTermEncoder(lookup_preset=LookupPreset(max_names=pn, max_prefixes=pp, max_datatypes=pd))
        dec = Decoder(GenericTriplesAdapter(ParserOptions(StreamTypes(1, 0), LookupPreset(pn, pp, pd), StreamParameters())))
        g = gen.G(r, n_prefixes=r.choice([1, 2, 4]), n_names=r.choice([2, 5, 10]), n_dts=r.choice([1, 3]))
        ok = True
        hist = []
        for _ in range(r.randint(1, 40)):
            if r.random() < 0.7:
                t = g.iri()
                msg = jelly.RdfIri()
                rows = enc.encode_iri(iri_s(t), msg)
                hist.append(iri_s(t))
            else:
                t = g.literal()
                if r.random() < 0.15 and pd:
                    # the generic Literal can carry a language tag AND a datatype: the datatype wins on the wire
                    t = Literal(lit_lex(t), langtag="en", datatype=r.choice(gen.DTS[:-1]))
                msg = jelly.RdfLiteral()
                rows = enc.encode_literal(lex=lit_lex(t), language=lit_lang(t), datatype=lit_dt(t), literal=msg)
                hist.append((lit_lex(t), lit_lang(t), lit_dt(t)))
            try:
                for row in rows:
                    dec.decode_row(getattr(row, row.WhichOneof("row")))
                got = dec.decode_term(msg)
            except Exception as e:  # noqa: BLE001
                got = e
            want_t = gen.normalize_term(t)
            if isinstance(t, Literal) and lit_lang(t) is not None and lit_dt(t) not in (None, gen.XSD + "string"):
                want_t = Literal(lit_lex(t), None, lit_dt(t))
            if got != want_t:
                ok = False
                break
            for tab, size in ((enc.names, pn), (enc.prefixes, pp), (enc.datatypes, pd)):
                if len(tab.lookup.data) > size:
                    ok = False
        ctx.case(("term", pn, pp, pd, tuple(map(str, hist))), True)
        ctx.dist["term_level_histories"] += 1
        if not ok:
            ctx.fail("TermEncoder/Decoder mismatch", dict(preset=[pn, pp, pd], history=hist))


def _c05_term_level_directed(ctx: Ctx, r) -> None:
    """IRI histories through the real TermEncoder and the real Decoder, aimed at slot REUSE: one fixed local name under
    pp+2 prefixes, exhaustively up to a length for prefix tables of 1..3 slots; and one prefix with 10..12 names over a
    name table of 8 slots (long random histories). Every IRI must come back as written."""
    from pyjelly.options import LookupPreset, StreamParameters, StreamTypes
    from pyjelly.parse.decode import Decoder, ParserOptions
    from pyjelly.integrations.generic.parse import GenericTriplesAdapter
    from pyjelly.integrations.generic.serialize import GenericSinkTermEncoder

    def run(pn, pp, history):
        enc = GenericSinkTermEncoder(lookup_preset=LookupPreset(max_names=pn, max_prefixes=pp, max_datatypes=1))
        dec = Decoder(GenericTriplesAdapter(ParserOptions(StreamTypes(1, 0), LookupPreset(pn, pp, 1), StreamParameters())))
        for step, iri in enumerate(history):
            msg = jelly.RdfIri()
            try:
                for row in enc.encode_iri(iri, msg):
                    dec.decode_row(getattr(row, row.WhichOneof("row")))
                got = dec.decode_term(msg)
                got = getattr(got, "_iri", got)
            except Exception as e:  # noqa: BLE001
                got = "!" + type(e).__name__
            if got != iri:
                return step, got
        return None

    for pp, length in ((1, 6), (2, 7), (3, 6)) if ctx.quick() else ((1, 8), (2, 8), (3, 7)):
        prefixes = [f"http://p{j}/" for j in range(pp + 2)]
        n = 0
        for hist in itertools.product(range(pp + 2), repeat=length):
            if hist[0] != 0:
                break  # histories are taken up to renaming of the first prefix
            n += 1
            bad = run(8, pp, [prefixes[j] + "x" for j in hist])
            if bad is not None:
                ctx.fail(f"IRI history through TermEncoder/Decoder: step {bad[0]} read back as {bad[1]!r}",
                         dict(preset=[8, pp, 1], history=[prefixes[j] + "x" for j in hist]))
                break
        ctx.dist[f"directed_prefix_histories:pp={pp}:len={length}"] += n
        ctx.evaluations += n
    for _ in range(ctx.n(60, 600)):
        k = r.choice([9, 10, 12])
        hist = ["http://one/" + f"n{r.randrange(k)}" for _ in range(r.randint(20, 120))]
        bad = run(8, r.choice([1, 4]), hist)
        ctx.dist["directed_name_histories"] += 1
        ctx.case(("term-directed", tuple(hist)), True)
        if bad is not None:
            ctx.fail(f"IRI history through TermEncoder/Decoder: step {bad[0]} read back as {bad[1]!r}", dict(preset=[8, 1, 1], history=hist))


# ---------------------------------------------------------------------------------------------
# SER-based properties: C01, C03, C19 (shared generator)
# ---------------------------------------------------------------------------------------------

def _ser_cases(ctx: Ctx, r, n: int, *, ns=False):
    """Generic serializer cases within C01's domain. Yields dict per case with real bytes."""
    cases = []
    for i in range(n):
        cls = r.choice("TQG")
        entry = r.choice(["frames", "frames", "flat", "grouped"]) if cls != "G" else "frames"
        lt = None
        o = rand_opts(r, cls, ns=ns and r.random() < 0.6)
        if entry in ("flat", "grouped"):
            # these entry points always write delimited; guess_stream picks the class from the data
            o.delim = True
            if cls == "T":
                o.lt = r.choice([0, 1, 3, 13])
            else:
                o.lt = r.choice([0, 2, 4, 14, 114])
        if not o.delim:
            pass  # any logical type: after the final-flush fix every accepted combination writes everything
        stmts = gen_fitting(r, cls, o, r.randint(0, 14))
        bindings = []
        if o.ns:
            g = gen.G(r)
            bindings = [(r.choice(["", "ex", "a", "ü", "p1"]), g.iri()) for _ in range(r.randint(0, 4))]
        if entry in ("flat", "grouped") and not bindings and r.random() < 0.15:
            # options omitted: guessed from the first statement / sink (flat logical type, default preset)
            o_none = Opts(lt=1 if cls == "T" else 2, gen=True, star=True, delim=True)
            stmts = gen_fitting(r, cls, o_none, r.randint(1, 10))
            if stmts:
                if entry == "flat":
                    resp, b = impl.run_ser_flat(None, stmts)
                    req = f"ser {cls} flat - {stmts_text(stmts)}"
                else:
                    sinks = [mk_sink(stmts)]
                    resp, b = impl.run_ser_grouped(None, sinks)
                    req = f"ser {cls} grouped - " + "+".join(sink_arg(s) for s in sinks)
                cases.append(dict(cls=cls, entry=entry + "-noopts", o=o_none, stmts=stmts, bindings=[], req=req, resp=resp, bytes=b))
                continue
        if entry == "frames":
            is_sink = r.random() < 0.5 or bool(bindings)
            data = mk_sink(stmts, bindings) if is_sink else stmts
            tok = ("sink:" + sink_arg(data)) if is_sink else ("gen:" + stmts_text(stmts))
            resp, b = impl.run_ser_frames(cls, o, data, is_sink=is_sink)
            req = f"ser {cls} frames {o.token()} {tok}"
        elif entry == "flat":
            resp, b = impl.run_ser_flat(o, stmts)
            req = f"ser {cls} flat {o.token()} {stmts_text(stmts)}"
            bindings = []
        else:
            k = r.randint(1, 3)
            parts = [stmts[j::k] for j in range(k)] if stmts else [[]]
            # keep statement order: contiguous chunks
            cut = sorted(r.sample(range(len(stmts) + 1), min(k - 1, len(stmts) + 1))) if stmts else []
            parts, prev = [], 0
            for c in [*cut, len(stmts)]:
                parts.append(stmts[prev:c])
                prev = c
            sinks = [mk_sink(p, bindings if j == 0 else []) for j, p in enumerate(parts)]
            # guess_stream looks at the first sink only: an empty first sink is not a triples sink
            resp, b = impl.run_ser_grouped(o, sinks)
            req = f"ser {cls} grouped {o.token()} " + "+".join(sink_arg(s) for s in sinks)
            if sinks and not len(sinks[0]) and cls == "T":
                entry = "grouped-empty-first"
        cases.append(dict(cls=cls, entry=entry, o=o, stmts=stmts, bindings=bindings, req=req, resp=resp, bytes=b))
    return cases


def _effective_class(c) -> str:
    """Stream class the entry point ends up using (guess_stream for flat/grouped)."""
    if c["entry"] in ("flat", "grouped", "grouped-empty-first", "flat-noopts", "grouped-noopts"):
        first_is_triple = bool(c["stmts"]) and len(c["stmts"][0]) == 3 and c["entry"] != "grouped-empty-first"
        if (c["o"].lt % 10) != 3 and not first_is_triple:
            return "Q"
        return "T"
    return c["cls"]


def check_C01(ctx: Ctx) -> None:
    r = ctx.rng("ser")
    cases = _ser_cases(ctx, r, ctx.n(500, 5000))
    ctx.corr("SER", [c["req"] for c in cases], [c["resp"] for c in cases])
    reqs, resp = [], []
    for c in cases:
        o, b = c["o"], c["bytes"]
        ok_ser = c["resp"].startswith("ok ") and c["resp"].endswith(" end")
        ctx.dist[f"entry:{c['entry']}"] += 1
        ctx.dist[f"cls:{c['cls']}"] += 1
        ctx.dist["delimited" if o.delim else "non-delimited"] += 1
        ctx.dist["outcome:" + ("ok" if ok_ser else c["resp"].split(" ")[-1])] += 1
        ctx.case((c["cls"], c["entry"], o.token(), stmts_text(c["stmts"])), ok_ser and len(c["stmts"]) >= 2,
                 sample=dict(cls=c["cls"], entry=c["entry"], opts=o.describe(), statements=stmts_text(c["stmts"])[:300]))
        if not ok_ser:
            if c["resp"].startswith("ok ") and not c["entry"].startswith("grouped"):
                # (grouped entry points guess the stream class from the FIRST sink; an empty first sink followed by quad sinks
                # is a caller error with its own outcome, not a refusal of well-formed data)
                # the stream was constructed and then RAISED while writing well-formed statements each of which fits its tables
                ctx.fail("the writer raised (" + c["resp"].rsplit(" ", 1)[-1] + ") on well-formed statements that fit the lookup tables",
                         dict(request=c["req"], response=c["resp"][-200:]))
            continue  # construction refused (forbidden type pair etc.) — C06/C13 territory
        eff = _effective_class(c)
        if eff != c["cls"] and c["cls"] != "T":
            pass
        # the data was generated for class cls; flat/grouped re-guess the class from the data
        if c["entry"].startswith("grouped") and eff == "Q" and c["cls"] == "T" and not any(len(st) == 3 for st in c["stmts"]):
            ctx.dist["skipped:grouped-empty-first"] += 1
            continue
        kind = eff if eff != "G" else "Q"
        if kind == "Q" and any(len(st) == 3 for st in c["stmts"]):
            # triples were WRITTEN although the class guessed from the first sink could not take them (the unchanged code raises
            # there): whatever a writer accepts must read back as it was given
            kind = "T"
        want = expected_events(c["stmts"], kind)
        try:
            got = [e for e in real_parse_flat(b)]
        except Exception as e:  # noqa: BLE001
            if not c["stmts"] and not b:
                continue  # nothing written for an empty input of flat_stream_to_file: nothing to read back
            ctx.fail("round trip raised " + type(e).__name__, dict(request=c["req"]))
            continue
        if [stmt_text(x) for x in got] != [stmt_text(x) for x in want]:
            ctx.fail("round trip differs", dict(request=c["req"], got=events_text(got)[:2000], want=events_text(want)[:2000]))
        reqs.append(f"par flat 0 1 seek {b.hex()}")
        resp.append(impl.run_par("flat", False, "seek", b))
        reqs.append(f"par graph 0 1 seek {b.hex()}")
        resp.append(impl.run_par("graph", False, "seek", b))
    ctx.corr("PARSE", reqs, resp)
    # every sizing the property quantifies over can be configured: names 8..4096, prefixes / datatypes 0..4096
    from pyjelly.options import LookupPreset
    for pn, pp, pd in [(8, 0, 0), (8, 4096, 0), (4096, 0, 4096), (4095, 4095, 4095), (4096, 4096, 4096), (8, 1, 1), (4096, 1, 0)]:
        ctx.case(("preset", pn, pp, pd), True)
        try:
            LookupPreset(max_names=pn, max_prefixes=pp, max_datatypes=pd)
        except Exception as e:  # noqa: BLE001
            ctx.fail(f"LookupPreset({pn}, {pp}, {pd}) is inside the sizing domain but cannot be constructed: {type(e).__name__}", dict(preset=[pn, pp, pd]))
            continue
        o = Opts(fs=250, lt=0, gen=True, star=True, delim=True, pn=pn, pp=pp, pd=pd)
        st = [Triple(IRI("http://a/x"), IRI("http://a/y"), Literal("1", datatype="urn:d") if pd else IRI("http://a/z"))]
        line, b = impl.run_ser_frames("T", o, st, is_sink=False)
        if not line.endswith(" end") or [stmt_text(x) for x in real_parse_flat_safe(b)] != [stmt_text(x) for x in expected_events(st, "T")]:
            ctx.fail(f"round trip with tables ({pn}, {pp}, {pd}) fails: {line[-60:]}", dict(preset=[pn, pp, pd]))
    # strings that are keys of TWO tables at once ("" is the prefix of <mailto:…> and the name of <http://h/>; a datatype IRI used
    # as a term when the prefix table is off), with the tables full: the row-local bookkeeping of one table must not leak
    for i in range(ctx.n(60, 600)):
        pp = r.choice([0, 1, 2, 3])
        pd = r.choice([1, 2])
        o = Opts(fs=r.choice([1, 250]), lt=0, gen=True, star=False, delim=True, pn=8, pp=pp, pd=pd)
        dts = ["urn:dt:a", "urn:dt:b", "urn:dt:c"]
        pool = [IRI("mailto:a@x"), IRI("urn:u:1"), IRI("http://h/"), IRI("http://k/"), IRI("http://h/n"), IRI("http://k/n"), IRI("http://m/n")] + [IRI(d) for d in dts]
        stmts = []
        for _ in range(r.randint(3, 7)):
            st = Triple(r.choice(pool), r.choice(pool), r.choice(pool + [Literal("v", datatype=r.choice(dts))]))
            if gen.fits([st], o.pn, o.pp, o.pd):
                stmts.append(st)
        if len(stmts) < 2:
            continue
        line, b = impl.run_ser_frames("T", o, stmts, is_sink=False)
        ctx.case(("shared-keys", o.token(), stmts_text(stmts)), True)
        ctx.dist["shared_key_cases"] += 1
        req = f"ser T frames {o.token()} gen:{stmts_text(stmts)}"
        if not line.endswith(" end"):
            ctx.fail("the writer raised (" + line.rsplit(" ", 1)[-1] + ") on well-formed statements that fit the lookup tables", dict(request=req))
        elif [stmt_text(x) for x in real_parse_flat_safe(b)] != [stmt_text(x) for x in expected_events(stmts, "T")]:
            ctx.fail("round trip differs", dict(request=req))
    _tables_larger_than_names(ctx, ctx.rng("big-tables"), ctx.n(10, 100), integrations=("generic",))
    # the sizing predicate the theorems assume is the one the generator enforces
    _fits_correspondence(ctx, r)


def _fits_correspondence(ctx: Ctx, r) -> None:
    reqs, resp = [], []
    for _ in range(ctx.n(150, 1500)):
        pn, pp, pd = r.choice(gen.PRESETS)
        g = gen.G(r, typed=True)
        stmts = g.statements(r.randint(1, 6), r.random() < 0.5)
        o = Opts(pn=pn, pp=pp, pd=pd)
        reqs.append(f"fits {o.token()} {stmts_text(stmts)}")
        out = []
        for st in stmts:
            wf3 = len(st) == 3 and all(gen.wf_term(t) and t is not DefaultGraph for t in st)
            wf4 = (len(st) == 4 and all(gen.wf_term(t) and t is not DefaultGraph for t in st[:3])
                   and (st[3] is DefaultGraph or (gen.wf_term(st[3]) and not isinstance(st[3], Triple))))
            out.append(f"{int(gen.fits([st], pn, pp, pd))}{int(wf3)}{int(wf4)}")
        resp.append(" ".join(out))
    ctx.corr("FITS", reqs, resp)


def check_C03(ctx: Ctx) -> None:
    r = ctx.rng("ser")
    cases = _ser_cases(ctx, r, ctx.n(500, 5000), ns=True)
    ctx.corr("SER", [c["req"] for c in cases], [c["resp"] for c in cases])
    reqs, todo = [], []
    for c in cases:
        ok_ser = c["resp"].startswith("ok ") and c["resp"].endswith(" end")
        ctx.dist[f"cls:{c['cls']}"] += 1
        ctx.case((c["cls"], c["entry"], c["o"].token(), stmts_text(c["stmts"])), ok_ser and len(c["stmts"]) >= 2,
                 sample=dict(cls=c["cls"], entry=c["entry"], opts=c["o"].describe(), statements=stmts_text(c["stmts"])[:300]))
        if not ok_ser or (not c["bytes"] and not c["stmts"]):
            continue
        if c["entry"] == "grouped-empty-first":
            continue
        reqs.append(spec_line(c["bytes"], c["o"].delim or c["entry"] != "frames"))
        todo.append(c)
    got = ctx.corr_free(reqs) if hasattr(ctx, "corr_free") else __import__("common").run_driver(reqs)
    for c, line in zip(todo, got):
        verdict, evs, audit = parse_spec_response(line)
        eff = _effective_class(c)
        want_st = expected_events(c["stmts"], eff if eff != "G" else "Q")
        want = [f"N{hx(p)}={term_text(i)}" for p, i in _dedup_bindings(c["bindings"])] + ["S" + stmt_text(s) for s in want_st]
        want_text = "_" if not want else " ".join(want)
        ctx.dist["referee:" + verdict] += 1
        if verdict != "ok":
            ctx.fail(f"independent decoder rejects pyjelly output: {verdict}", dict(request=c["req"], referee=line[:1000]))
        elif evs != want_text:
            ctx.fail("independent decoder reads something else", dict(request=c["req"], referee=evs[:2000], want=want_text[:2000]))
        else:
            ns_rows = evs.count("N") if c["bindings"] else 0
            if ns_rows and not c["o"].ns:
                ctx.fail("namespace row in a stream without namespace declarations", dict(request=c["req"]))
    _c03_version_cases(ctx)
    _c03_frame_length_cases(ctx)
    _c03_graph_api(ctx, ctx.rng("graph-api"))
    _c03_reused_options(ctx, ctx.rng("reused-options"))
    _tiny_prefix_tables(ctx, ctx.rng("tiny-prefix"), ctx.n(80, 800))
    _continue_after_refusal(ctx, ctx.rng("continue"), ctx.n(40, 400), "unsupported")
    _continue_after_refusal(ctx, ctx.rng("continue2"), ctx.n(30, 300), "too-big")
    # an output stream that takes none (or only part) of what it is handed: a call that returns normally must have written a
    # stream a conformant consumer can read — otherwise it must raise
    import rimpl
    from pyjelly.integrations.rdflib import serialize as rser
    rw = ctx.rng("writes")
    for i in range(ctx.n(12, 120)):
        cls = rw.choice("TQ")
        o = Opts(fs=250, lt=0, gen=False, star=False, delim=rw.random() < 0.5, pn=16, pp=8, pd=8)
        stmts = _rdf11_statements(rw, cls, o, rw.randint(1, 4))
        if not stmts:
            continue
        sink = _ShortWriter(rw.choice([0, 0, 5]))
        try:
            stream, opts = rimpl.make_stream(cls, o)
            rser.RDFLibJellySerializer(_to_store(stmts, cls)).serialize(sink, options=opts, stream=stream)
        except Exception:  # noqa: BLE001
            ctx.dist["short_output_stream:refused"] += 1
            continue
        ctx.case(("short-output", cls, o.token(), stmts_text(stmts), sink.limit), True)
        verdict, evs_w, _ = parse_spec_response(__import__("common").run_driver([spec_line(bytes(sink.data), o.delim)])[0])
        want_w = sorted(_norm_text("S" + stmt_text(gen.normalize_stmt(x))) for x in expected_events(stmts, cls))
        got_w = sorted(_norm_text(e) for e in evs_w.split(" ") if e.startswith("S"))
        if verdict != "ok" or got_w != want_w:
            ctx.fail(f"the rdflib serializer returned normally although its output stream took only {len(sink.data)} bytes; what it holds is not a valid stream denoting the data ({verdict}, {len(got_w)} of {len(want_w)} statements)",
                     dict(opts=o.describe(), taken=len(sink.data), write_limit=sink.limit))


def _c03_version_cases(ctx: Ctx) -> None:
    """Namespace rows appear only in version-2 streams, whatever version= the caller passed."""
    import dataclasses
    from pyjelly.options import StreamParameters
    from pyjelly.serialize.streams import SerializerOptions, TripleStream
    from pyjelly.integrations.generic.serialize import GenericSinkTermEncoder, stream_frames as g_stream_frames

    lines, metas = [], []
    for ver in (0, 1, 2, 7):
        for via_replace in (False, True):
            try:
                p = (dataclasses.replace(StreamParameters(version=ver), namespace_declarations=True) if via_replace
                     else StreamParameters(version=ver, namespace_declarations=True))
            except Exception:  # noqa: BLE001  (refusing a version is not a violation)
                ctx.dist["version_refused"] += 1
                continue
            so = SerializerOptions(params=p)
            st = TripleStream(encoder=GenericSinkTermEncoder(lookup_preset=so.lookup_preset), options=so)
            sink = mk_sink([Triple(IRI("http://v/s"), IRI("http://v/p"), Literal("o"))], [("ex", IRI("http://v/"))])
            b = impl.frames_bytes(list(g_stream_frames(st, sink)), True)
            lines.append(spec_line(b, True))
            metas.append((ver, via_replace, b))
    for (ver, via, b), line in zip(metas, __import__("common").run_driver(lines)):
        verdict, _, _ = parse_spec_response(line)
        ctx.case(("version-ns", ver, via), True)
        if verdict != "ok":
            ctx.fail(f"StreamParameters(version={ver}, namespace_declarations=True){' via replace' if via else ''}: the independent decoder rejects the stream: {verdict}",
                     dict(bytes=b.hex(), version=ver))


def _c03_frame_length_cases(ctx: Ctx) -> None:
    """Frames whose serialized size sits exactly on a varint boundary of the length prefix (127/128, 16383/16384)."""
    from pyjelly.serialize.ioutils import write_delimited
    lines, metas = [], []
    for cls in "TQ":
        for target in (126, 127, 128, 129, 16382, 16383, 16384, 16385, 16386):
            o = Opts(fs=250, lt=0, gen=True, star=True, delim=True, pn=8, pp=4, pd=4)

            def mk(pad):
                t = (IRI("http://l/s"), IRI("http://l/p"), Literal("x" * pad))
                return [Triple(*t)] if cls == "T" else [Quad(*t, DefaultGraph)]
            _, b0 = impl.run_ser_frames(cls, o, mk(0), is_sink=False)
            # one frame: prefix varint + payload; find the pad that makes the payload exactly `target` bytes
            def payload_len(b):
                n, shift, k = 0, 0, 0
                while True:
                    n |= (b[k] & 0x7F) << shift
                    shift += 7
                    k += 1
                    if not b[k - 1] & 0x80:
                        return n
            pad = max(0, target - payload_len(b0))
            for _ in range(6):
                resp, b = impl.run_ser_frames(cls, o, mk(pad), is_sink=False)
                d = target - payload_len(b)
                if d == 0:
                    break
                pad = max(0, pad + d)
            stmts = mk(pad)
            ctx.case(("frame-length", cls, target), True)
            ctx.dist[f"frame_payload_len:{payload_len(b)}"] += 1
            lines.append(spec_line(b, True))
            metas.append((cls, target, stmts, b, f"ser {cls} frames {o.token()} gen:{stmts_text(stmts)}", resp))
    ctx.corr("SER", [m[4] for m in metas], [m[5] for m in metas])
    for (cls, target, stmts, b, req, _), line in zip(metas, __import__("common").run_driver(lines)):
        verdict, evs, _ = parse_spec_response(line)
        want = " ".join("S" + stmt_text(x) for x in expected_events(stmts, cls))
        if verdict != "ok" or evs != want:
            ctx.fail(f"a frame of exactly {target} bytes is not readable by an independent decoder ({verdict})", dict(request=req[:300], nbytes=len(b)))
        elif impl.run_par("flat", False, "seek", b) != want + " end":
            ctx.fail(f"a frame of exactly {target} bytes does not round-trip", dict(request=req[:300], nbytes=len(b)))


def _c03_reused_options(ctx: Ctx, r) -> None:
    """One SerializerOptions object used for two exports one after the other, the first of which is abandoned half-way (its
    statement source raises) with rows still pending: what the SECOND export writes must be a valid stream of its own."""
    import common
    from pyjelly.integrations.generic import serialize as gser

    class Boom(Exception):
        pass

    lines, metas = [], []
    for i in range(ctx.n(40, 400)):
        cls = r.choice("TQ")
        o = Opts(fs=r.choice([3, 7, 250]), lt=r.choice([0, {"T": 1, "Q": 2}[cls]]), gen=True, star=True, delim=r.random() < 0.8, pn=16, pp=4, pd=4)
        first, second = gen_fitting(r, cls, o, r.randint(2, 6)), gen_fitting(r, cls, o, r.randint(1, 6))
        so = o.real()

        def src(first=first):
            yield from first
            raise Boom

        try:
            for _ in gser.flat_stream_to_frames(src(), so):
                pass
        except Boom:
            pass
        except Exception as e:  # noqa: BLE001
            ctx.fail(f"first export raised {type(e).__name__} instead of the source's own exception", dict(opts=o.describe()))
            continue
        try:
            frames = list(gser.flat_stream_to_frames((x for x in second), so))
        except Exception as e:  # noqa: BLE001
            ctx.fail(f"second export with the same options object raised {type(e).__name__}", dict(opts=o.describe()))
            continue
        b = impl.frames_bytes(frames, o.delim)
        ctx.case(("reused-options", cls, o.token(), stmts_text(second)), True)
        ctx.dist["reused_options_after_abandoned_export"] += 1
        lines.append(spec_line(b, o.delim))
        metas.append((cls, o, second, b))
    for (cls, o, second, b), line in zip(metas, common.run_driver(lines)):
        verdict, evs, _ = parse_spec_response(line)
        want = " ".join("S" + stmt_text(x) for x in expected_events(second, cls)) or "_"
        if verdict != "ok" or evs != want:
            ctx.fail(f"an export that re-uses the options object of an abandoned export is not valid / does not denote its input ({verdict})",
                     dict(opts=o.describe(), statements=stmts_text(second)[:600], referee=line[:600]))


def _c03_graph_api(ctx: Ctx, r) -> None:
    """GraphStream.graph() called directly, graph by graph, INCLUDING empty graphs (IRI, blank-node and default names)
    before, between and after non-empty ones, through both term encoders: what was written must be valid for the referee
    and denote exactly the triples of the non-empty graphs."""
    import common

    reqs, resp, metas = [], [], []
    for i in range(ctx.n(120, 1200)):
        integ = "rdflib" if i % 3 == 2 else "generic"
        o = Opts(fs=r.choice([1, 2, 250]), lt=0, gen=integ == "generic", star=integ == "generic", delim=True,
                 pn=r.choice([8, 16]), pp=r.choice([0, 2, 4]), pd=4)
        g = gen.G(r, n_prefixes=3, n_names=4, star=False, generalized=False, case_langs=False) if integ == "rdflib" else gen.G(r, n_prefixes=3, n_names=4)
        if integ == "rdflib":
            g.bnode = lambda: BlankNode(r.choice(["b0", "b1", "n1"]))
        ops, want = [("enroll",)], []
        for j in range(r.randint(2, 6)):
            gid = r.choice([IRI("http://g.example/" + r.choice("abc")), IRI("urn:g:" + r.choice("xy")), BlankNode("g" + r.choice("12")), DefaultGraph])
            triples, tp = [], None
            for _ in range(r.choice([0, 0, 1, 2])):
                tp = g.triple(tp)
                if integ == "rdflib" and not __import__("rimpl").rdf11(tp):
                    continue
                if gen.fits([Quad(*tp, gid)], o.pn, o.pp, o.pd):
                    triples.append(tuple(tp))
            ops.append(("g", gid, triples))
            want += [Quad(*t, gid) for t in triples]
        ops.append(("flush",))
        line = impl.run_step("G", o, ops, integration=integ)
        reqs.append(f"step G {o.token()} " + " ".join(impl.step_op_token(op) for op in ops))
        resp.append(line)
        ctx.case(("graph-api", integ, reqs[-1]), any(not op[2] for op in ops if op[0] == "g"))
        ctx.dist["graph_api:" + integ] += 1
        metas.append((reqs[-1], line, want))
    for q, a, m in zip(reqs, resp, common.run_driver(reqs)):
        ctx.compare("SERSTEP", q, a, m.replace("~", ""))
    todo = [(q, line, want) for q, line, want in metas if "!" not in line]
    frames = [b"".join(bytes.fromhex(f[1:]) for t in line.split(" ")[:-1] for f in t.split("+") if f.startswith("F")) for _, line, _ in todo]
    for (q, line, want), sline in zip(todo, common.run_driver([spec_line(b, True) for b in frames])):
        verdict, evs, _ = parse_spec_response(sline)
        want_t = "_" if not want else " ".join("S" + stmt_text(gen.normalize_stmt(x)) for x in want)
        if verdict != "ok" or evs != want_t:
            ctx.fail(f"GraphStream.graph() sequence with empty graphs: output is not valid / does not denote the input ({verdict})",
                     dict(request=q[:2500], referee=sline[:800], want=want_t[:800]))


def _dedup_bindings(bindings):
    d = {}
    for p, i in bindings:
        d[p] = i
    return list(d.items())


def _has_xsd_string(stmts) -> bool:
    def walk(t):
        if isinstance(t, Literal):
            return lit_dt(t) == gen.XSD + "string"
        if isinstance(t, Triple):
            return any(walk(x) for x in t)
        return False
    return any(walk(t) for st in stmts for t in st)


def check_C19(ctx: Ctx) -> None:
    r = ctx.rng("ser")
    # Python == distinguishes "a"^^xsd:string from the plain "a" while the format (and the referee) identify them;
    # the contract "omit a term equal to the previous one" is audited on inputs where the two notions coincide
    cases = [c for c in _ser_cases(ctx, r, ctx.n(600, 6000), ns=True) if not _has_xsd_string(c["stmts"])]
    ctx.corr("SER", [c["req"] for c in cases], [c["resp"] for c in cases])
    reqs, todo = [], []
    for c in cases:
        ok_ser = c["resp"].startswith("ok ") and c["resp"].endswith(" end")
        ctx.case((c["cls"], c["entry"], c["o"].token(), stmts_text(c["stmts"])), ok_ser and len(c["stmts"]) >= 2,
                 sample=dict(cls=c["cls"], opts=c["o"].describe(), statements=stmts_text(c["stmts"])[:300]))
        if ok_ser and c["bytes"]:
            reqs.append(spec_line(c["bytes"], c["o"].delim or c["entry"] != "frames"))
            todo.append(c)
    got = __import__("common").run_driver(reqs)
    for c, line in zip(todo, got):
        verdict, _, audit = parse_spec_response(line)
        if verdict != "ok":
            continue  # C03's business
        for k, v in audit.items():
            ctx.dist[f"audit_{k}_total"] += v
        # split graphs are only a claim for GRAPHS streams written from a statement sequence
        bad = {k: v for k, v in audit.items() if v and (k != "g" or c["cls"] == "G")}
        if bad:
            ctx.fail(f"compression contract broken: {bad}", dict(request=c["req"], referee=line[:1500]))
        # size never exceeds the naive encoding: measured against a no-table-reuse bound
        ctx.dist["bytes_total"] += len(c["bytes"])
    _c19_rdflib(ctx, r)
    _c19_after_rejection(ctx, ctx.rng("after-rejection"))
    _c19_larger_than_default(ctx)


def _c19_larger_than_default(ctx: Ctx) -> None:
    """Tables DECLARED larger than the library's defaults (4000 / 150 / 32) and filled beyond the default size, through the
    convenience entry points that build stream and encoder from the options: every string is sent once (an encoder built with
    other sizes than the declared ones evicts early and sends strings again)."""
    import common

    o = Opts(fs=250, lt=1, gen=True, star=True, delim=True, pn=4096, pp=400, pd=64)
    n_ns, n_dt = 230, 48
    stmts = []
    for rnd in range(2):       # every namespace and datatype used, then used again
        for j in range(n_ns):
            obj = Literal(str(j), datatype=f"urn:dt:wide{j % n_dt}") if j % 2 else IRI(f"http://wide{(j * 7) % n_ns}.example/ns#o")
            stmts.append(Triple(IRI(f"http://wide{j}.example/ns#s"), IRI("http://wide0.example/ns#p"), obj))
    cases = [("flat_stream_to_frames", impl.run_ser_flat(o, stmts)), ("sink.serialize / stream_frames", impl.run_ser_frames("T", o, stmts, is_sink=False))]
    lines = common.run_driver([spec_line(b, True) for _, (line, b) in cases if b])
    for (label, (line, b)), ref in zip(cases, lines):
        ctx.case(("larger-than-default", label), True)
        ctx.dist["presets_larger_than_default"] += 1
        verdict, _, audit = parse_spec_response(ref)
        bad = {k: v for k, v in audit.items() if v and k != "g"}
        # the declared tables hold every distinct string: each must have been sent exactly once
        sent = {"prefix": [], "datatype": [], "name": []}
        pos = 0
        while b and pos < len(b):
            ln, used = 0, 0
            while True:
                byte = b[pos + used]
                ln |= (byte & 0x7F) << (7 * used)
                used += 1
                if not byte & 0x80:
                    break
            fr = jelly.RdfStreamFrame()
            fr.ParseFromString(b[pos + used: pos + used + ln])
            pos += used + ln
            for row in fr.rows:
                k = row.WhichOneof("row")
                if k in sent:
                    sent[k].append(getattr(row, k).value)
        for k, vals in sent.items():
            if len(vals) != len(set(vals)):
                bad[f"{k}_entries_sent_twice"] = len(vals) - len(set(vals))
        if not line.endswith(" end") or verdict != "ok" or bad:
            ctx.fail(f"{label} with a 4096/400/64 preset and 230 namespaces / 48 datatypes in use: {line[-30:]}, referee {verdict}, audit {bad}",
                     dict(opts=o.describe(), statements=len(stmts)))


def _c19_after_rejection(ctx: Ctx, r) -> None:
    """The contract after a statement was rejected and the caller carried on: a rejection that did not use the tables
    leaves the stream usable, and the statements after it are still compared with the last statement that was WRITTEN
    (equal terms omitted, zero forms used). Audited by the referee on the real frames."""
    import common

    reqs, resp, metas = [], [], []
    for i in range(ctx.n(200, 2000)):
        cls = r.choice("TQ")
        o = Opts(fs=r.choice([1, 3, 250]), lt=0, gen=True, star=False, delim=True, pn=64, pp=r.choice([0, 8]), pd=8)
        g = gen.G(r, typed=True, n_prefixes=3, n_names=5, star=False)
        ops, prev, n_clean = [("enroll",)], None, 0
        for j in range(r.randint(3, 9)):
            st = list(g.quad(prev) if cls == "Q" else g.triple(prev))
            if _has_xsd_string([st]):
                continue
            if prev is not None and r.random() < 0.4:
                # a statement that is refused before it has touched a lookup table: (a) unsupported first term, (b) terms
                # repeated from the last written statement (omitted: no table use) and then a missing / unsupported one
                k = r.choice([0, 1, 2, 3] if cls == "Q" else [0, 1, 2])
                bad = list(prev[:k]) + [UNSUPPORTED] if r.random() < 0.6 else list(prev[:k])
                ops.append(("q" if cls == "Q" else "t", tuple(bad)))
                n_clean += 1
            ops.append(("q" if cls == "Q" else "t", tuple(st)))
            prev = st
        ops.append(("flush",))
        line = impl.run_step(cls, o, ops)
        reqs.append(f"step {cls} {o.token()} " + " ".join(impl.step_op_token(op) for op in ops))
        resp.append(line)
        metas.append((cls, n_clean))
    model = common.run_driver(reqs)
    for q, a, m in zip(reqs, resp, model):
        ctx.compare("SERSTEP", q, a, m.replace("~", ""))
    spec_reqs = []
    for line in resp:
        toks = line.split(" ")[:-1]
        spec_reqs.append(spec_line(b"".join(bytes.fromhex(f[1:]) for t in toks for f in t.split("!")[0].split("+") if f.startswith("F")), True))
    for (cls, n_clean), line, sline, req in zip(metas, resp, common.run_driver(spec_reqs), reqs):
        n_rej = sum(1 for t in line.split(" ")[:-1] if "!" in t)
        ctx.case(("after-rejection", req), n_rej > 0, sample=dict(cls=cls, rejected=n_rej, outcome=line[-60:]))
        ctx.dist[f"after_rejection:rejected={min(n_rej, 3)}"] += 1
        verdict, _, audit = parse_spec_response(sline)
        if verdict != "ok":
            continue  # C20's business
        bad = {k: v for k, v in audit.items() if v and k != "g"}
        if bad:
            ctx.fail(f"compression contract broken after a rejected statement: {bad}", dict(request=req, response=line[:1200], referee=sline[:1200]))


def _c19_rdflib(ctx: Ctx, r) -> None:
    """The same audit on what the rdflib serializer writes: IRIs that recur ACROSS kinds of position (a named graph that
    describes itself: graph name == subject; a declared namespace that is also a term), with the prefix table disabled
    or IRIs without a namespace part, so that whole IRIs live in the name table."""
    import rdflib

    import rimpl

    pool = ["urn:uuid:1", "urn:uuid:2", "mailto:a@b.c", "http://c19/x", "http://c19/y", "http://c19/ns#", "http://c19/ns#z", "plain"]
    cases = []
    for i in range(ctx.n(80, 800)):
        cls = r.choice("QGT")
        o = Opts(fs=r.choice([2, 250]), lt=0, gen=False, star=False, delim=True, ns=r.random() < 0.5,
                 pn=r.choice([16, 64]), pp=r.choice([0, 0, 4]), pd=4)
        iris = r.sample(pool, r.randint(2, 5))
        if cls == "T":
            store = rdflib.Graph(bind_namespaces="none")
            for _ in range(r.randint(2, 6)):
                store.add((rdflib.URIRef(r.choice(iris)), rdflib.URIRef(r.choice(iris)), rdflib.URIRef(r.choice(iris))))
        else:
            store = rdflib.Dataset()
            for _ in range(r.randint(2, 6)):
                gname = rdflib.URIRef(r.choice(iris))
                # the graph describes itself: its name is also a subject / object inside it
                store.add((gname if r.random() < 0.6 else rdflib.URIRef(r.choice(iris)), rdflib.URIRef(r.choice(iris)),
                           rdflib.URIRef(r.choice(iris)) if r.random() < 0.7 else rdflib.Literal("v"), store.get_context(gname)))
        if o.ns:
            for j, iri in enumerate(r.sample(iris, min(2, len(iris)))):
                store.bind(f"n{j}", rdflib.URIRef(iri), override=True, replace=True)
        try:
            req, resp, b = rimpl.run_serr(cls, o, store)
        except Exception as e:  # noqa: BLE001
            ctx.fail(f"rdflib serializer harness raised {type(e).__name__}: {e}", dict(iris=iris))
            continue
        ctx.case(("rdflib", req), True)
        ctx.dist[f"rdflib_audits:{cls}:pp={o.pp}"] += 1
        if resp.startswith("ok ") and resp.endswith(" end") and b:
            cases.append((cls, req, resp, b))
    # terms that are FALSY in rdflib (Literal(0), Literal(""), Literal(False), "0.0"^^xsd:double) repeated in the same slot of
    # consecutive statements; fed as a generator so that the order is the one written here
    XS = "http://www.w3.org/2001/XMLSchema#"
    falsy = [rdflib.Literal("0", datatype=rdflib.URIRef(XS + "integer")), rdflib.Literal(""), rdflib.Literal("false", datatype=rdflib.URIRef(XS + "boolean")),
             rdflib.Literal("0.0", datatype=rdflib.URIRef(XS + "double")), rdflib.Literal("", lang="en")]
    for i in range(ctx.n(30, 300)):
        cls = r.choice("TQ")
        o = Opts(fs=r.choice([2, 250]), lt=0, gen=False, star=False, delim=True, pn=16, pp=4, pd=8)
        lit = r.choice(falsy)
        data = []
        for j in range(r.randint(2, 5)):
            st = (rdflib.URIRef("http://c19/s%d" % (j if r.random() < 0.5 else 0)), rdflib.URIRef("http://c19/p"), lit if r.random() < 0.8 else r.choice(falsy))
            data.append(st if cls == "T" else (*st, rdflib.URIRef("http://c19/g")))
        req, resp, b = rimpl.run_serr(cls, o, data)
        ctx.case(("rdflib-falsy", req), True)
        ctx.dist["rdflib_audits:falsy_terms"] += 1
        if resp.startswith("ok ") and resp.endswith(" end") and b:
            cases.append((cls, req, resp, b))
    ctx.corr("SERR", [c[1] for c in cases], [c[2] for c in cases])
    got = __import__("common").run_driver([spec_line(c[3], True) for c in cases])
    for (cls, req, resp, b), line in zip(cases, got):
        verdict, _, audit = parse_spec_response(line)
        if verdict != "ok":
            ctx.fail(f"rdflib serializer output rejected by the referee ({verdict})", dict(request=req[:1500], referee=line[:800]))
            continue
        bad = {k: v for k, v in audit.items() if v and k != "g"}
        if bad:
            ctx.fail(f"compression contract broken by the rdflib serializer: {bad}", dict(request=req[:2000], referee=line[:1500]))


# ---------------------------------------------------------------------------------------------
# C04 / C16 (reference encoder)
# ---------------------------------------------------------------------------------------------

def _big_frame_cases(ctx: Ctx, r, n: int) -> None:
    """Frames larger than the reader's chunk size (MAX_READ_SIZE, 1 MiB), at the first / a middle / the last position.

    The frame is inflated with a metadata value, so the content of the stream is that of the same rows in small
    frames; every reader of both integrations, from memory, a file and a non-seekable source, has to yield exactly that.
    """
    import rimpl

    mib = 1 << 20
    targets = [mib - 1, mib, mib + 1, mib + 4097, int(1.4 * mib), 2 * mib, 2 * mib + 5, int(3.3 * mib)]
    for i in range(n):
        rdf11 = i % 2 == 1
        g = gen.G(r, star=False, generalized=False, case_langs=False) if rdf11 else gen.G(r)
        if rdf11:
            g.bnode = lambda: BlankNode(r.choice(["b0", "b1", "n1"]))
        s = refenc.build_valid_stream(r, g, n_stmts=r.randint(3, 8))
        rows = s["rows"]
        if len(rows) < 4:
            continue
        cuts = sorted(r.sample(range(1, len(rows)), min(len(rows) - 1, r.randint(2, 4))))
        frames = refenc.cut_frames(r, rows, cuts=cuts, repeat_options_prob=0.0, empty_prob=0.0, metadata_prob=0.2)
        small = refenc.frames_to_bytes(frames, True)
        want = impl.run_par("flat", False, "seek", small)
        if want != s["events_text"] + " end":
            continue  # judged elsewhere (C04 proper)
        where = [0, len(frames) // 2, len(frames) - 1][i % 3]
        target = targets[(i // 3) % len(targets)] + (r.randint(-3, 3) if i >= 3 * len(targets) else 0)
        big = [jelly.RdfStreamFrame.FromString(f.SerializeToString()) for f in frames]
        big[where].metadata["pad"] = b""
        base_len = big[where].ByteSize()
        pad = max(0, target - base_len - 8)
        big[where].metadata["pad"] = bytes(pad)
        # adjust to hit the target length exactly when possible (the length prefixes of the map entry grow with pad)
        for _ in range(4):
            d = target - big[where].ByteSize()
            if d == 0 or pad + d < 0:
                break
            pad += d
            big[where].metadata["pad"] = bytes(pad)
        b = refenc.frames_to_bytes(big, True)
        ctx.case(("big-frame", where, big[where].ByteSize(), small.hex()[:64]), True)
        ctx.dist[f"big_frame:{['first', 'middle', 'last'][i % 3]}"] += 1
        for source in ("seek", "file", "raw:65536", "raw:1000003"):
            got = impl.run_par("flat", False, source, b)
            if got != want:
                ctx.fail(f"a frame of {big[where].ByteSize()} bytes at frame position {where} of {len(big)} changes the flat parse ({source})",
                         dict(small_frames=small.hex(), big_frame_index=where, big_frame_length=big[where].ByteSize(), pad=pad,
                              got=got[-300:], want=want[-300:], source=source))
                break
        grouped_small = impl.run_par("grouped", False, "seek", small)
        grouped_big = impl.run_par("grouped", False, "seek", b)
        if grouped_small != grouped_big:
            ctx.fail(f"a frame of {big[where].ByteSize()} bytes at frame position {where} changes the grouped parse",
                     dict(small_frames=small.hex(), big_frame_index=where, big_frame_length=big[where].ByteSize(), pad=pad,
                          got=grouped_big[-300:], want=grouped_small[-300:]))
        if rdf11:
            rs, rb = rimpl.run_par_flat(False, "seek", small), rimpl.run_par_flat(False, "seek", b)
            if rs != rb:
                ctx.fail(f"rdflib: a frame of {big[where].ByteSize()} bytes at frame position {where} changes the flat parse",
                         dict(small_frames=small.hex(), big_frame_index=where, big_frame_length=big[where].ByteSize(), pad=pad,
                              got=rb[-300:], want=rs[-300:]))


def check_C04(ctx: Ctx) -> None:
    r = ctx.rng("ref")
    _tables_larger_than_names(ctx, ctx.rng("big-tables"), ctx.n(16, 160))
    streams = []
    for i in range(ctx.n(250, 2500)):
        g = gen.G(r, n_prefixes=r.choice([2, 4, 8]), n_names=r.choice([3, 8, 16]))
        s = refenc.build_valid_stream(r, g, n_stmts=(r.randint(20, 60) if (not ctx.quick() and i % 20 == 0) else None))
        streams.append(s)
    # 1. the generator is only trusted if the Lean referee accepts the stream with the intended denotation
    got = __import__("common").run_driver([spec_line(s["bytes"], s["delimited"]) for s in streams])
    for s, line in zip(streams, got):
        verdict, evs, _ = parse_spec_response(line)
        if verdict != "ok" or evs != s["events_text"]:
            raise RuntimeError(f"reference encoder produced a stream the referee does not accept as intended: {line[:300]} cfg={s['cfg']}")
    # 2. real parsers vs denotation; model parser vs real parser
    reqs, resp = [], []
    stats = __import__("collections").Counter()
    for s in streams:
        b = s["bytes"]
        for k, v in s["enc"].stats.items():
            stats[k] += v
        ctx.dist[f"physical:{s['cfg']['physical']}"] += 1
        ctx.dist["delimited" if s["delimited"] else "non-delimited"] += 1
        ctx.case(b.hex(), len(s["events"]) >= 2, sample=dict(cfg=s["cfg"], events=s["events_text"][:300], bytes=b.hex()[:200]))
        for entry in ("flat", "grouped", "graph"):
            line = impl.run_par(entry, False, "seek", b)
            reqs.append(f"par {entry} 0 1 seek {b.hex()}")
            resp.append(line)
        flat = resp[-3]
        if flat != s["events_text"] + " end":
            ctx.fail("parse_jelly_flat differs from the stream's denotation",
                     dict(bytes=b.hex(), cfg=s["cfg"], got=flat[:2000], want=s["events_text"][:2000]))
        # the grouped parser: one sink per frame holding exactly the statements that frame denotes (counted from the
        # frames themselves); the to-graph parser: one sink holding all of them
        from pyjelly.integrations.generic.parse import parse_jelly_grouped, parse_jelly_to_graph
        want_st = [stmt_text(e) for e in s["events"] if not hasattr(e, "prefix")]
        per_frame, pos = [], 0
        for f in s["frames"]:
            n = sum(1 for row in f.rows if row.WhichOneof("row") in ("triple", "quad"))
            per_frame.append(want_st[pos:pos + n])
            pos += n
        try:
            got_grouped = [[stmt_text(x) for x in sk.store] for sk in parse_jelly_grouped(io.BytesIO(b))]
            got_graph = [stmt_text(x) for x in parse_jelly_to_graph(io.BytesIO(b)).store]
        except Exception as e:  # noqa: BLE001
            ctx.fail(f"grouped / to-graph parser raised {type(e).__name__} on a valid stream", dict(bytes=b.hex(), cfg=s["cfg"]))
            continue
        if got_grouped != per_frame:
            ctx.fail("parse_jelly_grouped differs from the per-frame denotation of the stream",
                     dict(bytes=b.hex(), cfg=s["cfg"], got=str(got_grouped)[:1500], want=str(per_frame)[:1500]))
        if got_graph != want_st:
            ctx.fail("parse_jelly_to_graph differs from the stream's denotation", dict(bytes=b.hex(), cfg=s["cfg"]))
    ctx.corr("PARSE", reqs, resp)
    ctx.extra["reference_encoder_choices"] = dict(stats)
    # 2b. the rdflib integration on RDF 1.1 reference streams: flat term for term and in order; grouped / to-graph as sets
    import rimpl
    reqs, resp = [], []
    for i in range(ctx.n(100, 1000)):
        g = gen.G(r, star=False, generalized=False, case_langs=False, n_prefixes=r.choice([2, 4, 8]), n_names=r.choice([3, 8, 16]))
        g.bnode = lambda: BlankNode(r.choice(["b0", "b1", "n1"]))
        s = refenc.build_valid_stream(r, g)
        b = s["bytes"]
        ctx.case(("rdflib", b.hex()), len(s["events"]) >= 2)
        ctx.dist["rdflib_streams"] += 1
        rflat = rimpl.run_par_flat(False, "seek", b)
        reqs.append(f"par flat 0 0 seek {b.hex()}")
        resp.append(rflat)
        if rflat != s["events_text"] + " end":
            ctx.fail("rdflib parse_jelly_flat differs from the stream's denotation",
                     dict(bytes=b.hex(), cfg=s["cfg"], got=rflat[:2000], want=s["events_text"][:2000]))
            continue
        want = sorted(set(e[1:] for e in s["events_text"].split(" ") if e.startswith("S")))
        if any(e.split(",")[3:] == ["I"] for e in want):
            continue  # rdflib cannot name a graph by the empty IRI
        sinks, err = rimpl.run_par_grouped(False, "seek", b)
        store, err2 = rimpl.run_par_graph("seek", b)
        if err or err2:
            ctx.fail(f"rdflib grouped / to-graph parser raised on a valid stream: {err or err2}", dict(bytes=b.hex(), cfg=s["cfg"]))
        elif sorted(set(x for sk in sinks for x in sk)) != want or rimpl.store_quads(store) != want:
            ctx.fail("rdflib grouped / to-graph parsers differ from the stream's denotation", dict(bytes=b.hex(), cfg=s["cfg"]))
        elif s["delimited"] and len(sinks) != len(s["frames"]):
            ctx.fail(f"rdflib grouped parser yields {len(sinks)} graphs/datasets for {len(s['frames'])} frames", dict(bytes=b.hex()))
    ctx.corr("PARSE-rdflib", reqs, resp)
    _big_frame_cases(ctx, ctx.rng("big-frames"), ctx.n(9, 48))
    # the same streams consumed by several parsers that are alive at the same time (generators advanced in turns)
    from pyjelly.integrations.generic.parse import parse_jelly_flat
    for k in range(0, len(streams) - 2, 3):
        trio = streams[k:k + 3]
        gens = [parse_jelly_flat(io.BytesIO(s["bytes"])) for s in trio]
        outs = [[] for _ in trio]
        live = list(range(len(trio)))
        err = None
        while live:
            j = r.choice(live)
            try:
                outs[j].append(next(gens[j]))
            except StopIteration:
                live.remove(j)
            except Exception as e:  # noqa: BLE001
                err = (j, e)
                live.remove(j)
        ctx.dist["interleaved_parses"] += 1
        for j, s in enumerate(trio):
            if events_text(outs[j]) != s["events_text"] or (err and err[0] == j):
                ctx.fail("a valid stream parsed while other parsers were active does not yield its denotation",
                         dict(bytes=s["bytes"].hex(), others=[x["bytes"].hex() for x in trio if x is not s], got=events_text(outs[j])[:1500], want=s["events_text"][:1500]))


def check_C16(ctx: Ctx) -> None:
    r = ctx.rng("inj")
    reqs_spec, cases = [], []
    per_class = __import__("collections").Counter()
    for i in range(ctx.n(120, 1200)):
        safe = i % 3 == 0  # RDF 1.1 content with rdflib-safe labels: also goes through the rdflib integration
        g = gen.G(r, star=False, generalized=False, case_langs=False) if safe else gen.G(r)
        if safe:
            g.bnode = lambda: BlankNode(r.choice(["b0", "b1", "n1"]))
        s = refenc.build_valid_stream(r, g, n_stmts=r.randint(2, 8))
        for kind in refenc.VIOLATIONS:
            if ctx.quick() and r.random() < 0.5:
                continue
            res = refenc.inject(r, s, kind)
            if res is None:
                continue
            rows, pos = res
            delimited = True
            # keep the first frame non-empty and put the offending row at a random frame position
            frames = refenc.cut_frames(r, rows, repeat_options_prob=0.0, allow_leading_empty=False) if rows and rows[0].WhichOneof("row") == "options" and len(rows) > 1 else [jelly.RdfStreamFrame(rows=rows)]
            b = refenc.frames_to_bytes(frames, delimited)
            cases.append(dict(kind=kind, pos=pos, bytes=b, valid=s, rows=rows, safe=safe))
            reqs_spec.append(spec_line(b, True))
    got = __import__("common").run_driver(reqs_spec)
    reqs, resp = [], []
    for c, line in zip(cases, got):
        verdict, evs_before, _ = parse_spec_response(line)
        if not verdict.startswith("viol:"):
            # the injection did not make the stream invalid for the referee: not a test of C16
            ctx.dist["injection_not_invalid:" + c["kind"]] += 1
            continue
        c["referee"] = verdict
        per_class[c["kind"]] += 1
        ctx.dist["referee:" + verdict] += 1
        b = c["bytes"]
        ctx.case((c["kind"], b.hex()), True, sample=dict(kind=c["kind"], referee=verdict, bytes=b.hex()[:200]))
        for integ in (("generic", "rdflib") if c["safe"] else ("generic",)):
            if integ == "generic":
                line_impl = impl.run_par("flat", False, "seek", b)
                reqs.append(f"par flat 0 1 seek {b.hex()}")
            else:
                import rimpl
                line_impl = rimpl.run_par_flat(False, "seek", b)
                reqs.append(f"par flat 0 0 seek {b.hex()}")
            ctx.dist["integration:" + integ] += 1
            resp.append(line_impl)
            if line_impl.endswith(" end"):
                ctx.fail(f"spec-violating stream accepted by the {integ} integration ({c['kind']}, referee: {verdict})",
                         dict(bytes=b.hex(), kind=c["kind"], referee=line[:500], got=line_impl[:1500]))
            else:
                # what was yielded before the exception must be the denotation of the valid prefix
                yielded = line_impl.rsplit(" ", 1)[0]
                if yielded != evs_before:
                    ctx.fail(f"items yielded before the rejection differ from the valid prefix ({c['kind']})",
                             dict(bytes=b.hex(), kind=c["kind"], got=yielded[:1500], want=evs_before[:1500]))
                ctx.dist["raised:" + line_impl.rsplit("!", 1)[1]] += 1
    # an options row whose physical type is outside the enum (proto3 keeps unknown enum values), with rows shaped for one
    # of the known types: no physical type allows those rows, so the stream must be rejected by both integrations
    import rimpl
    shapes = {
        "triples": [jelly.RdfStreamRow(triple=jelly.RdfTriple(s_bnode="a", p_bnode="b", o_bnode="c"))],
        "quads": [jelly.RdfStreamRow(quad=jelly.RdfQuad(s_bnode="a", p_bnode="b", o_bnode="c", g_default_graph=jelly.RdfDefaultGraph()))],
        "graphs": [jelly.RdfStreamRow(graph_start=jelly.RdfGraphStart(g_bnode="g")),
                   jelly.RdfStreamRow(triple=jelly.RdfTriple(s_bnode="a", p_bnode="b", o_bnode="c")),
                   jelly.RdfStreamRow(graph_end=jelly.RdfGraphEnd())],
    }
    for phys in (4, 5, 17, 99):
        for shape, rows in shapes.items():
            for delim in (True, False):
                row = jelly.RdfStreamRow(options=jelly.RdfStreamOptions(physical_type=phys, max_name_table_size=8, version=1))
                b = refenc.frames_to_bytes([jelly.RdfStreamFrame(rows=[row, *rows])], delim)
                ctx.case(("unknown-physical", phys, shape, delim), True)
                ctx.dist["unknown_physical_type_streams"] += 1
                for entry in ("flat", "grouped", "graph"):
                    line = impl.run_par(entry, False, "seek", b)
                    reqs.append(f"par {entry} 0 1 seek {b.hex()}")
                    resp.append(line)
                    if line.endswith(" end"):
                        ctx.fail(f"stream of undefined physical type {phys} with {shape}-shaped rows accepted by the generic {entry} parser",
                                 dict(bytes=b.hex(), got=line[:300]))
                if rimpl.run_par_flat(False, "seek", b).endswith(" end") or rimpl.run_par_grouped(False, "seek", b)[1] is None:
                    ctx.fail(f"stream of undefined physical type {phys} with {shape}-shaped rows accepted by the rdflib integration", dict(bytes=b.hex()))
    ctx.corr("PARSE", reqs, resp)
    ctx.extra["injections_per_class"] = dict(per_class)


# ---------------------------------------------------------------------------------------------
# C06
# ---------------------------------------------------------------------------------------------

def check_C06(ctx: Ctx) -> None:
    r = ctx.rng("lattice")
    reqs, resp, meta = [], [], []
    flows_opts = [None] + [(k, l, f) for k in impl.FLOWS for l in (0,) for f in (0, 3)]
    combos = list(itertools.product("TQG", gen.LOGICAL, (True, False), flows_opts))
    if ctx.quick():
        r.shuffle(combos)
        combos = combos[: 500]
    else:
        ctx.exhaustive = True
    for cls, lt, delim, flow in combos:
        fs = r.choice([1, 2, 3, 7, 250])
        o = Opts(fs=fs, lt=lt, gen=True, star=True, delim=delim, pn=16, pp=8, pd=8)
        o.flow = flow
        stmts = gen_fitting(r, cls, o, r.randint(1, 9))
        is_sink = r.random() < 0.5
        bindings = []
        if is_sink and r.random() < 0.4:
            o.ns = True
            gg = gen.G(r)
            bindings = [(f"p{j}", gg.iri()) for j in range(r.randint(1, 4))]
        data = mk_sink(stmts, bindings) if is_sink else stmts
        tok = ("sink:" + sink_arg(data)) if is_sink else ("gen:" + stmts_text(stmts))
        line, b = impl.run_ser_frames(cls, o, data, is_sink=is_sink)
        reqs.append(f"ser {cls} frames {o.token()} {tok}")
        resp.append(line)
        meta.append((cls, o, stmts, b))
    # flat_/grouped_ entry points and sink.serialize
    for _ in range(ctx.n(200, 2000)):
        cls = r.choice("TQ")
        o = rand_opts(r, cls, lt=r.choice(gen.LOGICAL), delimited=r.random() < 0.8, explicit_flow=r.random() < 0.2)
        stmts = gen_fitting(r, cls, o, r.randint(1, 9))
        if r.random() < 0.5:
            line, b = impl.run_ser_flat(o, stmts)
            reqs.append(f"ser {cls} flat {o.token()} {stmts_text(stmts)}")
        else:
            # one to three sinks through ONE stream (the later ones re-use vocabulary of the earlier ones)
            parts = [stmts] + [gen_fitting(r, cls, o, r.randint(1, 5)) for _ in range(r.choice([0, 1, 2]))]
            parts = [p_ for p_ in parts if p_]
            sinks = [mk_sink(p_) for p_ in parts]
            stmts = [st for p_ in parts for st in p_]
            line, b = impl.run_ser_grouped(o, sinks)
            reqs.append(f"ser {cls} grouped {o.token()} " + "+".join(sink_arg(s) for s in sinks))
        resp.append(line)
        o2 = Opts(**{**o.__dict__})
        o2.delim = True
        meta.append((cls, o2, stmts, b))
    ctx.corr("SER", reqs, resp)
    for (cls, o, stmts, b), line, req in zip(meta, resp, reqs):
        accepted = line.startswith("ok ") and line.endswith(" end")
        ctx.dist["accepted" if accepted else "refused:" + line.split(" ")[-1].lstrip("!")] += 1
        ctx.case((req.split(" ")[1:4], o.token()), accepted, sample=dict(request=req[:300], response=line[-60:]))
        if not accepted:
            continue
        left = line.split(" flow=")[1].split(" ")[0]
        if left not in ("0", "-"):
            ctx.fail(f"{left} rows left in the flow after the call returned", dict(request=req))
            continue
        eff = cls
        if req.split(" ")[2] in ("flat", "grouped"):
            # guess_stream: a TripleStream unless the data are quads and the base logical type is not GRAPHS
            eff = "Q" if ((o.lt % 10) != 3 and cls != "T") else "T"
        want = expected_events(stmts, "T" if (eff == "T") else "Q")
        try:
            got = [e for e in real_parse_flat(b) if not hasattr(e, "prefix")]
        except Exception as e:  # noqa: BLE001
            ctx.fail(f"written bytes do not parse back: {type(e).__name__}", dict(request=req, written=len(b)))
            continue
        if [stmt_text(x) for x in got] != [stmt_text(x) for x in want]:
            ctx.fail("written bytes parse back to something else", dict(request=req, got=events_text(got)[:1500], want=events_text(want)[:1500]))
    # ONE SerializerOptions object used for two serializations that are alive at the same time
    from pyjelly.integrations.generic import serialize as gser
    for _ in range(ctx.n(60, 600)):
        cls = r.choice("TQ")
        o = Opts(fs=r.choice([2, 3, 7, 250]), lt=r.choice([0, {"T": 1, "Q": 2}[cls]]), gen=True, star=True, delim=True, pn=16, pp=8, pd=8)
        a_st, b_st = gen_fitting(r, cls, o, r.randint(2, 7)), gen_fitting(r, cls, o, r.randint(2, 7))
        shared = o.real()
        try:
            sa = impl.STREAMS[cls](encoder=gser.GenericSinkTermEncoder(lookup_preset=shared.lookup_preset), options=shared)
            sb = impl.STREAMS[cls](encoder=gser.GenericSinkTermEncoder(lookup_preset=shared.lookup_preset), options=shared)
        except Exception:  # noqa: BLE001
            continue
        fa, fb = [], []
        gb = gser.stream_frames(sb, (x for x in b_st))

        def src_a():
            # the statement source of A advances B: B runs while A has rows pending (a nested serialization)
            for st in a_st:
                if r.random() < 0.7:
                    f = next(gb, None)
                    if f is not None:
                        fb.append(f)
                yield st

        try:
            for f in gser.stream_frames(sa, src_a()):
                fa.append(f)
            for f in gb:
                fb.append(f)
        except Exception as e:  # noqa: BLE001
            ctx.fail(f"two streams built from one options object: {type(e).__name__}", dict(opts=o.describe()))
            continue
        ctx.case(("shared-options", cls, o.token(), stmts_text(a_st), stmts_text(b_st)), True)
        ctx.dist["shared_options_pairs"] += 1
        for st, fr, stream in ((a_st, fa, sa), (b_st, fb, sb)):
            try:
                got = real_parse_flat(impl.frames_bytes(fr, True))
            except Exception as e:  # noqa: BLE001
                got = None
            want = expected_events(st, cls)
            if len(stream.flow) or got is None or [stmt_text(x) for x in got] != [stmt_text(x) for x in want]:
                ctx.fail("statements handed to one stream are missing from its output when another stream built from the same options object is active",
                         dict(opts=o.describe(), statements=stmts_text(st), left=len(stream.flow)))
    # rdflib entry points: Graph.serialize through the plugin (explicit stream of every class, inferred and explicit
    # flows, both framings), rdflib flat_/grouped_stream_to_file
    _c06_rdflib(ctx, r)
    _c06_rdflib_arity(ctx, ctx.rng("arity"))
    _c06_big_inputs(ctx, ctx.rng("big"))
    _c06_short_writes(ctx, ctx.rng("short-writes"))
    # sink.serialize / sink.parse
    for _ in range(ctx.n(60, 600)):
        cls = r.choice("TQ")
        o = Opts(pn=4000, pp=150, pd=32)
        stmts = gen_fitting(r, cls, o, r.randint(1, 9))
        sink = mk_sink(stmts)
        out = io.BytesIO()
        try:
            sink.serialize(out)
            back = GenericStatementSink()
            back.parse(io.BytesIO(out.getvalue()))
        except Exception as e:  # noqa: BLE001
            ctx.fail(f"sink.serialize/sink.parse raised {type(e).__name__}", dict(statements=stmts_text(stmts)))
            continue
        ctx.case(("sink.serialize", stmts_text(stmts)), True)
        ctx.dist["sink.serialize"] += 1
        want = expected_events(stmts, cls)
        if [stmt_text(x) for x in back.store] != [stmt_text(x) for x in want]:
            ctx.fail("sink.serialize/sink.parse round trip differs", dict(statements=stmts_text(stmts)))


class _ShortWriter(io.RawIOBase):
    """A raw (unbuffered) binary stream that takes at most `limit` bytes per write() and says so in its return value,
    as an unbuffered pipe or socket object does once the kernel buffer is full."""

    def __init__(self, limit: int) -> None:
        self.data = bytearray()
        self.limit = limit

    def writable(self) -> bool:
        return True

    def write(self, b) -> int:
        taken = bytes(b[: self.limit])
        self.data += taken
        return len(taken)


def _c06_short_writes(ctx: Ctx, r) -> None:
    """Every *_to_file entry point of both integrations writing to an output stream that takes only part of what it
    is handed: the call either raises or everything handed in is in the bytes the stream took."""
    import rdflib

    import rimpl
    from pyjelly.integrations.generic import serialize as gser
    from pyjelly.integrations.rdflib import serialize as rser

    for _ in range(ctx.n(60, 600)):
        cls = r.choice("TQ")
        delim = r.random() < 0.5
        o = Opts(fs=r.choice([1, 5, 250]), lt={"T": 1, "Q": 2}[cls], gen=False, star=False, delim=delim, pn=64, pp=8, pd=8)
        stmts = _rdf11_statements(r, cls, o, r.randint(3, 30))
        if not stmts:
            continue
        limit = r.choice([0, 0, 1, 2, 3, 7, 40, 200, 1000, 10**9])  # 0: a stream whose quota is used up takes nothing
        how = r.choice(["generic-flat", "generic-grouped", "rdflib-flat", "rdflib-grouped", "rdflib-serializer", "rdflib-plugin"])
        out = _ShortWriter(limit)
        so = o.real()
        store = _to_store(stmts, cls)
        try:
            if how == "generic-flat":
                gser.flat_stream_to_file((x for x in stmts), out, options=so)
            elif how == "generic-grouped":
                gser.grouped_stream_to_file((x for x in [mk_sink(stmts)]), out, options=so)
            elif how == "rdflib-flat":
                seq = [tuple(rimpl.to_rdflib(t) for t in st) for st in stmts]
                rser.flat_stream_to_file((rimpl.rparse.Quad(*x) if len(x) == 4 else rimpl.rparse.Triple(*x) for x in seq), out, so)
            elif how == "rdflib-grouped":
                rser.grouped_stream_to_file((x for x in [store]), out, options=so)
            elif how == "rdflib-serializer":
                rser.RDFLibJellySerializer(store).serialize(out, options=so)
            else:
                store.serialize(destination=out, format="jelly", options=so)
            err = None
        except Exception as e:  # noqa: BLE001
            err = type(e).__name__
        ctx.case(("short-write", how, delim, limit, stmts_text(stmts)), True)
        ctx.dist[f"short_write:{how}:{'delimited' if delim else 'non-delimited'}:{'raised' if err else 'returned'}"] += 1
        if err is not None:
            continue
        back = rdflib.Dataset() if cls == "Q" else rdflib.Graph()
        try:
            back.parse(data=bytes(out.data), format="jelly")
            got = sorted(set(_norm_text(t) for t in rimpl.store_quads(back)))
        except Exception as e:  # noqa: BLE001
            got = "!" + type(e).__name__
        want = sorted(set(_norm_text(t) for t in rimpl.store_quads(store)))
        if got != want:
            ctx.fail(f"{how} returned normally although the output stream took only part of the data ({len(out.data)} bytes written)",
                     dict(entry=how, delimited=delim, write_limit=limit, opts=o.describe(), statements=stmts_text(stmts)[:1500],
                          got=str(got)[:300]))


def _c06_big_inputs(ctx: Ctx, r) -> None:
    """Inputs that leave tens of thousands of rows in the flow when the input ends (non-delimited output, a frame size larger
    than the input, one huge graph under a grouped flow): one final call must drain the flow whatever its size."""
    import rimpl
    from pyjelly.integrations.generic import serialize as gser

    n = 24000 if ctx.quick() else 60000   # three rows per statement (two new names each): > 65536 / > 131072 rows
    stmts = [Triple(IRI(f"http://big.example/s{i}"), IRI("http://big.example/p"), IRI(f"http://big.example/o{i}")) for i in range(n)]
    configs = [("generic stream_frames, non-delimited", "T", Opts(fs=250, lt=1, gen=True, star=True, delim=False, pn=4000, pp=8, pd=8)),
               ("generic stream_frames, frame_size larger than the input", "T", Opts(fs=10**6, lt=1, gen=True, star=True, delim=True, pn=4000, pp=8, pd=8))]
    if not ctx.quick():
        configs.append(("generic stream_frames, one graph under a graphs flow", "T", Opts(fs=250, lt=3, gen=True, star=True, delim=True, pn=4000, pp=8, pd=8)))
    for label, cls, o in configs:
        stream, _ = impl.make_stream(cls, o)
        try:
            frames = list(gser.stream_frames(stream, (x for x in stmts)))
        except Exception as e:  # noqa: BLE001
            ctx.dist["big_input_refused:" + type(e).__name__] += 1
            continue
        b = impl.frames_bytes(frames, o.delim)
        rows = sum(len(f.rows) for f in frames)
        ctx.case(("big-input", label, n), True, sample=dict(entry=label, statements=n, rows=rows, frames=len(frames)))
        ctx.dist["big_inputs"] += 1
        from pyjelly.integrations.generic.parse import parse_jelly_flat as _pf
        try:
            got = sum(1 for _ in _pf(io.BytesIO(b)))
        except Exception:  # noqa: BLE001
            got = -1
        if len(stream.flow) or got != n:
            ctx.fail(f"{label}: {n} statements handed in, {got} in the bytes written, {len(stream.flow)} rows left in the flow after the call returned",
                     dict(opts=o.describe(), statements=n, rows_written=rows))
    if not ctx.quick():
        import rdflib
        g = rdflib.Graph()
        for st in stmts[:40000]:
            g.add(tuple(rimpl.to_rdflib(t) for t in st))
        o = Opts(fs=250, lt=1, gen=False, star=False, delim=False, pn=4000, pp=8, pd=8)
        try:
            b = rimpl.plugin_serialize(g, options=o.real())
            back = rdflib.Graph()
            back.parse(data=b, format="jelly")
            ctx.case(("big-input", "rdflib plugin non-delimited"), True)
            if len(back) != len(g):
                ctx.fail(f"rdflib Graph.serialize, non-delimited: {len(g)} triples handed in, {len(back)} read back", dict(opts=o.describe()))
        except Exception as e:  # noqa: BLE001
            ctx.dist["big_input_refused:" + type(e).__name__] += 1


def _c06_rdflib_arity(ctx: Ctx, r) -> None:
    """The rdflib entry points handed statements of the wrong arity for the stream (triples reaching a QuadStream): a
    combination that cannot be honoured must raise; returning normally with an empty or cut-off file is the violation."""
    import rdflib

    import rimpl
    from pyjelly.integrations.rdflib import serialize as rser

    def check(label, run, want_triples):
        out = io.BytesIO()
        try:
            run(out)
        except Exception as e:  # noqa: BLE001
            ctx.dist["rdflib_arity_refused:" + type(e).__name__] += 1
            return
        b = out.getvalue()
        back, err = rimpl.run_par_graph("seek", b) if b else (None, "nothing written")
        got = sorted(set(",".join(_norm_text(t).split(",")[:3]) for t in rimpl.store_quads(back))) if back is not None and not err else []
        if got != want_triples:
            ctx.fail(f"rdflib {label}: the call returned normally but the file holds {len(got)} of {len(want_triples)} statements ({err or 'parses'})",
                     dict(entry=label, written=len(b), got=got[:5], want=want_triples[:5]))

    for i in range(ctx.n(20, 200)):
        o = Opts(fs=r.choice([1, 2, 250]), lt=r.choice([0, 2]), gen=False, star=False, delim=r.random() < 0.7, pn=16, pp=8, pd=8)
        triples = _rdf11_statements(r, "T", o, r.randint(2, 6))
        quads = _rdf11_statements(r, "Q", o, r.randint(2, 6))
        if not triples or not quads:
            continue
        want_t = sorted(set(",".join(_norm_text(stmt_text(gen.normalize_stmt(st))).split(",")[:3]) for st in triples))
        graph = _to_store(triples, "T")
        ctx.case(("rdflib-arity", stmts_text(triples), stmts_text(quads)), True)
        ctx.dist["rdflib_arity_cases"] += 1
        # (1) a Graph written through a ready-made QuadStream / GraphStream handed to the plugin
        for cls in "QG":
            stream, opts = rimpl.make_stream(cls, o)
            check(f"Graph.serialize(stream=<{cls} stream>)", lambda out, stream=stream, opts=opts: out.write(rimpl.plugin_serialize(graph, options=opts, stream=stream)), want_t)
        # (2) flat_stream_to_file over quads with one 3-term statement in the middle
        items = [rimpl.rparse.Quad(*(rimpl.to_rdflib(t) for t in st)) for st in quads]
        k = r.randrange(1, len(items) + 1)
        mixed = items[:k] + [rimpl.rparse.Triple(*(rimpl.to_rdflib(t) for t in triples[0]))] + items[k:]
        want_m = sorted(set(",".join(_norm_text(stmt_text(gen.normalize_stmt(st))).split(",")[:3]) for st in quads + [triples[0]]))
        oq = Opts(**{**o.__dict__})
        oq.lt = 2
        check("flat_stream_to_file(quads with one triple among them)", lambda out, mixed=mixed, oq=oq: rser.flat_stream_to_file((x for x in mixed), out, oq.real()), want_m)
        # (3) grouped_stream_to_file: a Dataset first (the stream becomes a QuadStream), a Graph later
        ds = _to_store(quads, "Q")
        want_g = sorted(set(",".join(_norm_text(stmt_text(gen.normalize_stmt(st))).split(",")[:3]) for st in quads + triples))
        check("grouped_stream_to_file([Dataset, Graph])", lambda out, ds=ds: rser.grouped_stream_to_file((x for x in [ds, graph]), out), want_g)


def _c06_rdflib(ctx: Ctx, r) -> None:
    import rimpl
    from rdflib import Dataset, Graph
    from pyjelly.integrations.rdflib import serialize as rser

    reqs, resp = [], []
    flows_opts = [None] + [(k, 0, f) for k in impl.FLOWS for f in (0, 2)]
    for _ in range(ctx.n(250, 2500)):
        data_cls = r.choice("TQ")
        cls = "T" if data_cls == "T" else r.choice("QG")
        o = Opts(fs=r.choice([1, 2, 3, 7, 250]), lt=r.choice(gen.LOGICAL), gen=False, star=False, delim=r.random() < 0.5, pn=16, pp=8, pd=8)
        o.flow = r.choice(flows_opts)
        stmts = _rdf11_statements(r, data_cls, o, r.randint(1, 9))
        if not stmts:
            continue
        store = _to_store(stmts, data_cls)
        if data_cls == "Q" and r.random() < 0.3:
            # graphs that were registered but hold nothing: Dataset.graphs() lists them, nothing of them may be lost or invented
            from rdflib import BNode, URIRef
            for name in r.sample([URIRef("http://empty.example/g1"), URIRef("urn:empty:2"), BNode("e3"), URIRef("http://empty.example/ns#g4")], r.randint(1, 3)):
                store.graph(name)
            ctx.dist["rdflib:datasets_with_empty_named_graphs"] += 1
        want = sorted(set(_norm_text(t) for t in rimpl.store_quads(store)))
        if data_cls == "Q" and cls == "T":
            want = sorted(set(",".join(t.split(",")[:3]) for t in want))
        how = r.choice(["plugin", "plugin", "flat_file", "grouped_file"])
        req, model_line, _ = None, None, None
        try:
            if how == "plugin":
                is_graph, ns, tok = rimpl.observe(cls, store)
                req = f"serr {cls} {o.token()} {int(is_graph)} {rimpl.ns_token(ns)} {tok}"
                stream, opts = rimpl.make_stream(cls, o)
                b = rimpl.plugin_serialize(store, options=opts, stream=stream)
                line = f"ok {b.hex()} flow={len(stream.flow)} end"
                left = len(stream.flow)
            else:
                out = io.BytesIO()
                opts = o.real()
                if how == "flat_file":
                    seq = [tuple(rimpl.to_rdflib(t) for t in st) for st in stmts]
                    items = [rimpl.rparse.Quad(*x) if len(x) == 4 else rimpl.rparse.Triple(*x) for x in seq]
                    rser.flat_stream_to_file((x for x in items), out, opts)
                else:
                    rser.grouped_stream_to_file((x for x in [store]), out, options=opts)
                b = out.getvalue()
                line, left = "ok", 0
        except Exception as e:  # noqa: BLE001
            line, b, left = "!" + type(e).__name__, None, 0
        ctx.case(("rdflib", how, cls, o.token(), tuple(want)), b is not None, sample=dict(entry="rdflib:" + how, cls=cls, opts=o.describe()))
        ctx.dist["rdflib:" + how] += 1
        if how == "plugin" and req is not None:
            reqs.append(req)
            resp.append(line if b is not None else line)
        if b is None:
            ctx.dist["rdflib_refused:" + line] += 1
            continue
        if left:
            ctx.fail(f"rdflib {how}: {left} rows left in the flow after the call returned", dict(opts=o.describe(), cls=cls))
            continue
        back, err = rimpl.run_par_graph("seek", b)
        if err:
            ctx.fail(f"rdflib {how}: written bytes do not parse back: {err}", dict(opts=o.describe(), cls=cls, written=len(b), bytes=b.hex()[:400]))
            continue
        got = sorted(set(_norm_text(t) for t in rimpl.store_quads(back)))
        # what the entry point was asked to write: quads lose their graph when written through a TripleStream
        eff_T = cls == "T" or (how in ("flat_file", "grouped_file") and ((o.lt % 10) == 3 or data_cls == "T"))
        if eff_T:
            want_cmp = sorted(set(",".join(t.split(",")[:3]) for t in want))
            got = sorted(set(",".join(t.split(",")[:3]) for t in got))
        else:
            want_cmp = want
        if got != want_cmp:
            ctx.fail(f"rdflib {how}: written bytes parse back to something else", dict(opts=o.describe(), cls=cls, got=got[:10], want=want_cmp[:10]))
    # the plugin with every default: Graph.serialize(format="jelly") / Dataset.serialize(format="jelly")
    for _ in range(ctx.n(40, 400)):
        data_cls = r.choice("TQ")
        o = Opts(fs=250, lt=1 if data_cls == "T" else 2, gen=False, star=False, delim=True, pn=4000, pp=150, pd=32)
        stmts = _rdf11_statements(r, data_cls, o, r.randint(1, 9))
        if not stmts:
            continue
        store = _to_store(stmts, data_cls)
        is_graph, ns, tok = rimpl.observe(data_cls, store)
        try:
            b = rimpl.plugin_serialize(store)
            line = f"ok {b.hex()} flow=0 end"
        except Exception as e:  # noqa: BLE001
            b, line = None, "!" + type(e).__name__
        reqs.append(f"serr {data_cls} {o.token()} {int(is_graph)} {rimpl.ns_token(ns)} {tok}")
        resp.append(line)
        ctx.case(("rdflib-plugin-defaults", tuple(sorted(rimpl.store_quads(store)))), True)
        ctx.dist["rdflib:plugin-defaults"] += 1
        if b is None:
            ctx.fail("Graph.serialize(format='jelly') with default options raised " + line, dict(statements=rimpl.store_quads(store)[:5]))
            continue
        back, err = rimpl.run_par_graph("seek", b)
        want = sorted(set(_norm_text(t) for t in rimpl.store_quads(store)))
        if err or sorted(set(_norm_text(t) for t in rimpl.store_quads(back))) != want:
            ctx.fail("Graph.serialize(format='jelly') with default options does not round-trip", dict(want=want[:6], err=err))
    # the plugin's writer choice (write_delimited / write_single per frame) against the model
    model = __import__("common").run_driver(reqs)
    for q, a, m in zip(reqs, resp, model):
        ctx.compare("SER-rdflib-plugin", q, a, m)


# ---------------------------------------------------------------------------------------------
# C07
# ---------------------------------------------------------------------------------------------

def _c07_metadata_only_first_frame(ctx: Ctx) -> None:
    """A delimited stream that BEGINS with a frame carrying only metadata (no rows), of 8..12 bytes: the flat parse must be that
    of the remaining frames. At exactly 10 bytes the stream starts `0A 7A`, which is also how a non-delimited frame whose first
    row is 122 bytes long starts: the detector answers "non-delimited" (known finding, inherent in the heuristic)."""
    rows = [jelly.RdfStreamRow(options=jelly.RdfStreamOptions(physical_type=1, max_name_table_size=8, max_prefix_table_size=0,
                                                              max_datatype_table_size=0, version=1)),
            jelly.RdfStreamRow(triple=jelly.RdfTriple(s_bnode="a", p_bnode="b", o_bnode="c"))]
    tail = jelly.RdfStreamFrame(rows=rows)
    want = impl.run_par("flat", False, "seek", refenc.frames_to_bytes([tail], True))
    reqs, resp = [], []
    for extra in range(0, 5):
        head = jelly.RdfStreamFrame()
        head.metadata["k"] = b"m" * (1 + extra)
        b = refenc.frames_to_bytes([head, tail], True)
        size = head.ByteSize()
        got = impl.run_par("flat", False, "seek", b)
        reqs.append(f"par flat 0 1 seek {b.hex()}")
        resp.append(got)
        ctx.case(("metadata-only-first-frame", size), True)
        ctx.dist["metadata_only_first_frame"] += 1
        if got != want:
            ctx.fail(f"a leading metadata-only frame of {size} bytes changes the flat parse ({got[-40:]})", dict(bytes=b.hex(), first_frame_bytes=size),
                     known="C07-metadata-only-first-frame-of-10-bytes" if size == 10 and b[:2] == b"\x0a\x7a" else None)
    ctx.corr("PARSE", reqs, resp)


def check_C07(ctx: Ctx) -> None:
    _c07_metadata_only_first_frame(ctx)
    from contextvars import ContextVar

    from pyjelly.integrations.generic.parse import parse_jelly_grouped

    r = ctx.rng("frames")
    reqs, resp = [], []
    for i in range(ctx.n(120, 1200)):
        g = gen.G(r)
        s = refenc.build_valid_stream(r, g, n_stmts=r.randint(1, 8))
        rows = s["rows"]
        base = impl.run_par("flat", False, "seek", refenc.frames_to_bytes([jelly.RdfStreamFrame(rows=rows)], True))
        ctx.case(("rows", s["bytes"].hex()), len(rows) > 2, sample=dict(cfg=s["cfg"], rows=len(rows)))
        # (a) every single cut position, and random multi-cuts with empty frames and metadata
        cutsets = [[k] for k in range(1, len(rows))] if (len(rows) <= 12 or not ctx.quick()) else []
        cutsets += [None] * 4
        for cuts in cutsets:
            frames = refenc.cut_frames(r, rows, cuts=cuts, repeat_options_prob=0.0)
            b = refenc.frames_to_bytes(frames, True)
            flat = impl.run_par("flat", False, "seek", b)
            ctx.dist["recuts"] += 1
            if flat != base:
                ctx.fail("flat parse depends on frame boundaries", dict(bytes=b.hex(), got=flat[:1500], want=base[:1500]))
            # (b) grouped: one sink per frame, in order; concatenation = flat; metadata visible while consuming
            # the metadata is sampled at BOTH ends of a frame's consumption: when the sink for it is created and when
            # the finished sink is handed over
            md: ContextVar = ContextVar("md")
            sinks, seen, seen_at_start = [], [], []

            def factory(md=md, seen_at_start=seen_at_start):
                seen_at_start.append(dict(md.get({})))
                return GenericStatementSink()

            try:
                for sk in parse_jelly_grouped(io.BytesIO(b), factory, frame_metadata=md):
                    sinks.append(sk)
                    seen.append(dict(md.get()))
            except Exception as e:  # noqa: BLE001
                ctx.fail("grouped parse raised on a valid stream: " + type(e).__name__, dict(bytes=b.hex()))
                continue
            if len(sinks) != len(frames):
                ctx.fail(f"grouped parse yields {len(sinks)} sinks for {len(frames)} frames", dict(bytes=b.hex()))
            elif [dict(f.metadata) for f in frames] != seen:
                ctx.fail("frame metadata seen when a sink is handed over is not that frame's", dict(bytes=b.hex(), seen=str(seen)))
            elif [dict(f.metadata) for f in frames] != seen_at_start:
                ctx.fail("frame metadata seen when the sink for a frame is created is not that frame's",
                         dict(bytes=b.hex(), seen=str(seen_at_start), want=str([dict(f.metadata) for f in frames])))
            else:
                cat = [st for sk in sinks for st in sk.store]
                flat_st = [e for e in s["events"] if not hasattr(e, "prefix")]
                if [stmt_text(x) for x in cat] != [stmt_text(x) for x in flat_st]:
                    ctx.fail("grouped sinks concatenated differ from the flat parse", dict(bytes=b.hex()))
            if cuts is None:
                reqs.append(f"par grouped 0 1 seek {b.hex()}")
                resp.append(impl.run_par("grouped", False, "seek", b))
                reqs.append(f"par flat 0 1 seek {b.hex()}")
                resp.append(flat)
    ctx.corr("PARSE", reqs, resp)
    _big_frame_cases(ctx, ctx.rng("big-frames"), ctx.n(9, 48))
    # (b, rdflib) one Graph/Dataset per frame with exactly that frame's statements, for frame cuts inside a graph run
    import rimpl
    for i in range(ctx.n(80, 800)):
        g = gen.G(r, star=False, generalized=False, case_langs=False)
        g.bnode = lambda: BlankNode(r.choice(["b0", "b1", "n1"]))
        s = refenc.build_valid_stream(r, g, n_stmts=r.randint(2, 8), physical=r.choice([1, 2, 2, 3, 3]))
        frames = refenc.cut_frames(r, s["rows"], cuts=sorted(r.sample(range(1, len(s["rows"])), min(len(s["rows"]) - 1, r.randint(1, 4)))) if len(s["rows"]) > 1 else [],
                                   repeat_options_prob=0.0, empty_prob=0.1, metadata_prob=0.4)
        b = refenc.frames_to_bytes(frames, True)
        gen_grouped = impl.run_par("grouped", False, "seek", b)
        if not gen_grouped.endswith(" end"):
            continue
        per_frame = [sorted(set(st for st in sk[1:-1].split("|", 1)[1].split("/") if st)) for sk in gen_grouped.rsplit(" ", 1)[0].split(" ") if sk]
        if any(t == "I" for fr in per_frame for st in fr for t in st.split(",")):
            continue  # rdflib cannot name a graph by the empty IRI (it substitutes a fresh blank node): not pyjelly's doing
        sinks, err = [], None
        rmd: ContextVar = ContextVar("rmd")
        seen_start, seen_end = [], []
        try:
            import rdflib
            from pyjelly.integrations.rdflib.parse import parse_jelly_grouped as rgrouped

            def gf(rmd=rmd, seen_start=seen_start):
                seen_start.append(dict(rmd.get({})))
                return rdflib.Graph()

            def df(rmd=rmd, seen_start=seen_start):
                seen_start.append(dict(rmd.get({})))
                return rdflib.Dataset()

            for sk in rgrouped(io.BytesIO(b), gf, df, frame_metadata=rmd):
                sinks.append(rimpl.store_quads(sk))  # contents at the moment the sink is yielded
                seen_end.append(dict(rmd.get({})))
        except Exception as e:  # noqa: BLE001
            err = type(e).__name__
        want_md = [dict(f.metadata) for f in frames]
        if err is None and (seen_start != want_md or seen_end != want_md):
            ctx.fail("rdflib grouped parse: frame metadata visible when a frame's graph/dataset is created or handed over is not that frame's",
                     dict(bytes=b.hex(), at_creation=str(seen_start)[:300], at_yield=str(seen_end)[:300], want=str(want_md)[:300]))
        ctx.case(("rdflib-grouped", b.hex()), True)
        ctx.dist["rdflib_grouped_streams"] += 1
        if err or [sorted(set(x)) for x in sinks] != per_frame:
            ctx.fail(f"rdflib grouped parse: per-frame contents differ from the frames' statements ({err})",
                     dict(bytes=b.hex(), got=[x[:3] for x in sinks][:6], want=[x[:3] for x in per_frame][:6]))
    # (c)/(d) grouped serialization with a grouped logical type: one frame per non-empty sink, state carried over
    reqs, resp = [], []
    for _ in range(ctx.n(150, 1500)):
        cls = r.choice("TQ")
        o = rand_opts(r, cls, lt=r.choice([3, 13] if cls == "T" else [4, 14, 114]), delimited=True)
        if r.random() < 0.25:
            # the grouped logical type requested through an explicit (empty, hence falsy) flow object instead
            o.lt = 0
            o.flow = ("graphs" if cls == "T" else "datasets", 0, 0)
        k = r.randint(1, 5)
        parts = [gen_fitting(r, cls, o, r.randint(0, 5)) for _ in range(k)]
        if r.random() < 0.06:
            # one input larger than the default bounded frame size: still exactly one frame for it
            parts[r.randrange(k)] = gen_fitting(r, cls, o, 260)
        if not parts[0]:
            parts[0] = gen_fitting(r, cls, o, 1) or parts[0]
        if not parts[0]:
            continue
        sinks = [mk_sink(p) for p in parts]
        line, b = impl.run_ser_grouped(o, sinks)
        reqs.append(f"ser {cls} grouped {o.token()} " + "+".join(sink_arg(s) for s in sinks))
        resp.append(line)
        ctx.case(("grouped-ser", reqs[-1]), True)
        if not line.endswith(" end"):
            continue
        spec = __import__("common").run_driver([spec_line(b, True)])[0]
        shape = [int(x) for x in spec.split(" ; frames ")[1].split()] if " ; frames " in spec else []
        nonempty = sum(1 for p in parts if p)
        ctx.dist["grouped_serializations"] += 1
        if len(shape) != nonempty:
            ctx.fail(f"{len(shape)} frames written for {nonempty} non-empty sinks", dict(request=reqs[-1]))
        want = expected_events([st for p in parts for st in p], cls)
        try:
            got = real_parse_flat(b)
        except Exception as e:  # noqa: BLE001
            ctx.fail(f"grouped serialization with a shared stream does not parse back: {type(e).__name__}", dict(request=reqs[-1]))
            continue
        if [stmt_text(x) for x in got] != [stmt_text(x) for x in want]:
            ctx.fail("grouped serialization with a shared stream does not round-trip", dict(request=reqs[-1]))
    ctx.corr("SER", reqs, resp)
    # (c, rdflib) the same through the rdflib integration: Graphs / Datasets sharing one stream, one frame each
    from pyjelly.integrations.rdflib import parse as rparse, serialize as rser
    from pyjelly.serialize.streams import SerializerOptions as _SO
    for _ in range(ctx.n(40, 400)):
        data_cls = r.choice("TQ")
        o = Opts(fs=r.choice([1, 3, 250]), lt=0, gen=False, star=False, delim=True, pn=r.choice([16, 128]), pp=r.choice([0, 4]), pd=4)
        stores = [_to_store(_rdf11_statements(r, data_cls, o, r.randint(0, 6)), data_cls) for _ in range(r.randint(1, 4))]
        if not len(stores[0]):
            continue
        so = o.real()
        lt = r.choice([3, 13]) if data_cls == "T" else r.choice([4, 14, 114])
        if r.random() < 0.25:
            from pyjelly.serialize import flows as _flows
            so = _SO(flow=(_flows.GraphsFrameFlow() if data_cls == "T" else _flows.DatasetsFrameFlow()), params=so.params, lookup_preset=so.lookup_preset)
        else:
            so = _SO(logical_type=lt, frame_size=so.frame_size, params=so.params, lookup_preset=so.lookup_preset)
        ctx.case(("grouped-ser-rdflib", data_cls, o.token(), tuple(len(st) for st in stores)), True)
        ctx.dist["grouped_serializations_rdflib"] += 1
        try:
            frames = list(rser.grouped_stream_to_frames((st for st in stores), options=so))
            b = impl.frames_bytes(frames, True)
            back = [rimpl.store_quads(g) for g in rparse.parse_jelly_grouped(io.BytesIO(b))]
        except Exception as e:  # noqa: BLE001
            ctx.fail(f"rdflib grouped serialization / parse raised {type(e).__name__}: {e}", dict(opts=o.describe()))
            continue
        nonempty = [st for st in stores if len(st)]
        if len(frames) != len(nonempty):
            ctx.fail(f"rdflib: {len(frames)} frames written for {len(nonempty)} non-empty graphs/datasets", dict(opts=o.describe(), sizes=[len(st) for st in stores]))
        elif [sorted(set(_norm_text(t) for t in x)) for x in back] != [sorted(set(_norm_text(t) for t in rimpl.store_quads(st))) for st in nonempty]:
            ctx.fail("rdflib grouped serialization with a shared stream does not give the graphs/datasets back one per frame", dict(opts=o.describe()))
    # (c, rdflib) a Dataset written with a GRAPHS-family logical type: its graphs travel as triples, ONE FRAME PER non-empty GRAPH
    import rdflib as _rdflib
    for _ in range(ctx.n(30, 300)):
        o = Opts(fs=r.choice([1, 3, 250]), lt=0, gen=False, star=False, delim=True, pn=r.choice([16, 128]), pp=r.choice([0, 4]), pd=4)
        quads = _rdf11_statements(r, "Q", o, r.randint(2, 9))
        ds = _to_store(quads, "Q")
        per_graph = {}
        for s_, p_, o_, g_ in ds.quads():
            gid = g_.identifier if isinstance(g_, _rdflib.Graph) else g_
            per_graph.setdefault(gid, set()).add(_norm_text(rimpl.rdflib_stmt_text((s_, p_, o_))))
        want_sets = sorted(sorted(v) for v in per_graph.values() if v)
        so = _SO(logical_type=r.choice([3, 13]), frame_size=o.fs, params=o.real().params, lookup_preset=o.real().lookup_preset)
        for how in ("grouped_stream_to_frames", "Dataset.serialize"):
            ctx.case(("dataset-as-graphs", how, o.token(), stmts_text(quads)), True)
            ctx.dist["rdflib_dataset_as_graphs"] += 1
            try:
                if how == "grouped_stream_to_frames":
                    frames = list(rser.grouped_stream_to_frames((x for x in [ds]), options=so))
                    b = impl.frames_bytes(frames, True)
                else:
                    b = rimpl.plugin_serialize(ds, options=so)
                back = [sorted(set(",".join(_norm_text(t).split(",")[:3]) for t in rimpl.store_quads(g))) for g in rparse.parse_jelly_grouped(io.BytesIO(b))]
            except Exception as e:  # noqa: BLE001
                ctx.fail(f"rdflib {how} of a Dataset with a GRAPHS logical type raised {type(e).__name__}: {e}", dict(opts=o.describe()))
                continue
            if sorted(x for x in back if x) != want_sets or len([x for x in back if x]) != len(want_sets):
                ctx.fail(f"rdflib {how}: a Dataset of {len(want_sets)} non-empty graphs written with a GRAPHS logical type comes back as "
                         f"{len([x for x in back if x])} non-empty frames (one frame per graph expected)",
                         dict(opts=o.describe(), graphs=[len(x) for x in want_sets], frames=[len(x) for x in back]))


# ---------------------------------------------------------------------------------------------
# C08 / C09 / C10
# ---------------------------------------------------------------------------------------------

def _c08_partial_writes(ctx: Ctx, cls: str, o: Opts, stmts, cap: int = 7) -> None:
    from pyjelly.integrations.rdflib import serialize as rser

    import rimpl

    if not all(rimpl.rdf11(st) for st in stmts):
        return
    store = _to_store(stmts, cls)
    outcome = {}
    for delim in (True, False):
        oo = Opts(**{**o.__dict__})
        oo.delim, oo.gen, oo.star = delim, False, False

        sink = _ShortWriter(cap)
        sink.taken = sink.data
        try:
            stream, opts = rimpl.make_stream(cls, oo)
            rser.RDFLibJellySerializer(store).serialize(sink, options=opts, stream=stream)
            line = impl.run_par("flat", False, "seek", bytes(sink.taken))
            outcome[delim] = "wrote:" + line
        except Exception:  # noqa: BLE001
            outcome[delim] = "refused"
    ctx.dist["paired_partial_writes"] += 1
    if outcome[True] != outcome[False]:
        ctx.fail("an output stream that takes only part of each write: the delimited and the non-delimited writer behave differently",
                 dict(opts=o.describe(), delimited=outcome[True][:200], single=outcome[False][:200]))


def check_C08(ctx: Ctx) -> None:
    from pyjelly.parse.ioutils import delimited_jelly_hint

    r = ctx.rng("hint")
    # the detector depends only on the three (== 0x0A) bits, and needs 3 bytes
    table = {}
    if ctx.quick():
        vals = [0x00, 0x01, 0x09, 0x0A, 0x0B, 0x12, 0x1A, 0x7A, 0x7F, 0x80, 0x8A, 0xC8, 0xFE, 0xFF, 0x0C, 0x02]
        space = itertools.product(vals, repeat=3)
    else:
        space = itertools.product(range(256), repeat=3)
        ctx.exhaustive = True
    nh = 0
    for a, b, c in space:
        v = delimited_jelly_hint(bytes((a, b, c)))
        key = (a == 10, b == 10, c == 10)
        nh += 1
        if table.setdefault(key, v) != v:
            ctx.fail("delimited_jelly_hint depends on more than the three ==0x0A bits", dict(header=[a, b, c]))
            break
    ctx.dist["headers_tabulated"] = nh
    ctx.evaluations += nh
    reps = [bytes((10 if x else 1, 10 if y else 1, 10 if z else 1)) for x in (0, 1) for y in (0, 1) for z in (0, 1)]
    reps += [b"", b"\n", b"\n\n", b"\x01", b"\x01\n", b"\n\n\x00\x00", b"\x01\x02\x03\x04"]
    # peek(3) may hand the detector MORE than three bytes: the verdict must not depend on what follows
    reps += [h + tail for h in list(reps[:8]) for tail in (b"\x00", b"\n", b"\n\n\n", b"\x08\x12\x00")]
    reqs = [f"hint {h.hex()}" if h else "hint" for h in reps]
    ctx.corr("HINT", reqs, [impl.run_hint(h) for h in reps])
    # paired outputs in both modes, with stream names driving the options row / first frame through 0x0A lengths
    reqs, resp = [], []
    for i in range(ctx.n(200, 2000)):
        cls = r.choice("TQG")
        namelen = r.choice([0, 1, 2, 3, 4, 5, 6, 7, 8, 9, 10, 11, 12, 118, 119, 120, 121, 122, 123, 124, 125, 126, 127, 128])
        o = Opts(fs=r.choice([1, 250]), lt=r.choice([0, {"T": 1, "Q": 2, "G": 2}[cls]]), gen=True, star=True,
                 name="n" * namelen, pn=r.choice([8, 16, 100, 128, 4000]), pp=r.choice([0, 1, 150]), pd=r.choice([0, 16, 32]))
        if i % 3 == 0:
            # aim at an options row of exactly 10 bytes (0A 0A 0A ...) and at a first frame of exactly 10 bytes
            o.gen = o.star = False
            o.name = ""
            try:
                probe, _ = impl.make_stream(cls, o)
                from pyjelly.serialize.encode import encode_options
                base = len(encode_options(probe.options.lookup_preset, probe.stream_types, probe.options.params).options.SerializeToString())
                if base <= 8:
                    o.name = "n" * (10 - base - 2) if 10 - base - 2 >= 1 else ""
                ctx.dist[f"options_row_len:{base + (len(o.name) + 2 if o.name else 0)}"] += 1
            except Exception:  # noqa: BLE001
                pass
        stmts = gen_fitting(r, cls, o, r.randint(0, 3))
        out = {}
        for delim in (True, False):
            o.delim = delim
            line, b = impl.run_ser_frames(cls, o, stmts, is_sink=False)
            if not line.endswith(" end") or not b:
                out = None
                break
            out[delim] = b
            reqs.append(f"hint {b[:3].hex()}")
            resp.append(impl.run_hint(b[:3]))
            truth = "1" if delim else "0"
            ctx.dist[f"first_bytes:{b[:3].hex()}"] += 0
            if resp[-1] != truth:
                ctx.fail(f"{'delimited' if delim else 'non-delimited'} output detected as the opposite",
                         dict(header=b[:3].hex(), opts=o.describe(), bytes=b.hex()))
            if b[0] == 10 or (len(b) > 1 and b[1] == 10):
                ctx.dist["headers_with_0x0A_coincidence"] += 1
        if not out:
            continue
        ctx.case((cls, o.token(), stmts_text(stmts)), True, sample=dict(opts=o.describe(), delimited_header=out[True][:3].hex(), single_header=out[False][:3].hex()))
        pa = impl.run_par("flat", False, "seek", out[True])
        pb = impl.run_par("flat", False, "seek", out[False])
        if pa != pb:
            ctx.fail("same content written in both modes parses differently", dict(delimited=out[True].hex(), single=out[False].hex()))
        # the same two outputs from a non-seekable source whose first raw read delivers everything (peek sees it all)
        # ... and from sources whose first reads deliver the three header bytes in every possible split (2+, 1+1+, 1+2+, 1+1+1)
        for delim in (True, False):
            n = len(out[delim]) + 5
            for sched in (str(n), "2,4096", "1,1,4096", "1,2,4096", "1"):
                line = impl.run_par("flat", False, f"raw:{sched}", out[delim])
                reqs.append(f"par flat 0 1 raw:{sched} {out[delim].hex()}")
                resp.append(line)
                ctx.dist["paired_outputs_from_non_seekable_sources"] += 1
                if line != pa:
                    ctx.fail(f"{'delimited' if delim else 'non-delimited'} output read from a non-seekable source (reads of {sched} bytes) parses differently",
                             dict(bytes=out[delim].hex(), got=line[:300], want=pa[:300]))
        # ... and written to an output stream that takes only part of what it is handed: the two modes behave alike
        # (both refuse, or both files hold the same content)
        _c08_partial_writes(ctx, cls, o, stmts, cap=7)
        _c08_partial_writes(ctx, cls, o, stmts, cap=0)   # a stream that takes nothing at all
        # what the reader is TOLD about the framing (ParserOptions.params.delimited) is the mode the bytes were written in
        for delim in (True, False):
            told = impl.run_par("options", False, "seek", out[delim])
            if f"delim={'true' if delim else 'false'}" not in told:
                ctx.fail(f"a {'delimited' if delim else 'non-delimited'} stream is reported to the reader as {told[-40:]}", dict(bytes=out[delim].hex()))
    ctx.corr("HINT", reqs, resp)
    # a frame longer than the reader's chunk size (1 MiB, not a multiple of it) followed by more frames: both framings of
    # the same content parse alike
    for size in (1048577 + 80, 1572945):
        big = [Triple(IRI("http://big/s"), IRI("http://big/p"), Literal("x" * size)),
               Triple(IRI("http://big/s2"), IRI("http://big/p"), Literal("after")), Triple(IRI("http://big/s3"), IRI("http://big/p"), Literal("last"))]
        o = Opts(fs=1, lt=1, gen=True, star=True, pn=16, pp=8, pd=8)
        outs = {}
        for delim in (True, False):
            o.delim = delim
            line, b = impl.run_ser_frames("T", o, big, is_sink=False)
            outs[delim] = impl.run_par("flat", False, "seek", b) if line.endswith(" end") and b else line[-40:]
        ctx.case(("big-frame-pair", size), True)
        ctx.dist["paired_outputs_with_a_frame_over_1MiB"] += 1
        if outs[True] != outs[False] or not outs[True].endswith(" end") or outs[True].count("S") < 3:
            ctx.fail(f"content with a {size}-byte literal parses differently in the two framings (delimited: …{outs[True][-60:]}; non-delimited: …{outs[False][-60:]})",
                     dict(literal_bytes=size))
    _c08_positioned_and_plugin(ctx, r)
    # reference-encoder streams: first frame empty or starting with a row, every first-frame / first-row length
    for i in range(ctx.n(200, 2000)):
        g = gen.G(r)
        s = refenc.build_valid_stream(r, g, n_stmts=r.randint(0, 3))
        h = impl.run_hint(s["bytes"][:3])
        ctx.case(("ref", s["bytes"][:3].hex(), s["delimited"]), True)
        if len(s["bytes"]) >= 3 and h != ("1" if s["delimited"] else "0"):
            ctx.fail("valid stream misclassified", dict(bytes=s["bytes"].hex(), delimited=s["delimited"]))
        got = impl.run_par("flat", False, "seek", s["bytes"])
        if got != s["events_text"] + " end":
            ctx.fail("valid stream (first frame empty or starting with a row) is classified correctly but does not parse to its content",
                     dict(bytes=s["bytes"].hex(), delimited=s["delimited"], got=got[:600], want=s["events_text"][:600]))
        if s["bytes"][:1] == b"\x00":
            ctx.dist["reference_streams_with_leading_empty_frame"] += 1


def _c08_positioned_and_plugin(ctx: Ctx, r) -> None:
    import shutil
    import tempfile

    tmpdir = tempfile.mkdtemp(prefix="verif_c08_")
    try:
        for i in range(ctx.n(12, 120)):
            cls = r.choice("TQ")
            o = Opts(fs=250, lt=0, gen=True, star=True, name="n" * r.choice([0, 1, 2, 3, 9]), pn=16, pp=8, pd=8)
            stmts = gen_fitting(r, cls, o, r.randint(1, 3))
            for delim in (True, False):
                o.delim = delim
                line, b = impl.run_ser_frames(cls, o, stmts, is_sink=False)
                if not line.endswith(" end"):
                    continue
                base = impl.run_par("flat", False, "seek", b)
                ctx.case(("positioned", cls, o.token(), stmts_text(stmts)), True)
                for label, got in _positioned_parses(b, tmpdir, r):
                    ctx.dist["positioned_seekable"] += 1
                    if got != base:
                        ctx.fail(f"{'delimited' if delim else 'non-delimited'} output misread from {label}",
                                 dict(bytes=b.hex(), source=label, got=got[:300], want=base[:300]))
    finally:
        shutil.rmtree(tmpdir, ignore_errors=True)
    # the rdflib plugin, configured through options= or through a ready-made stream=, in both modes:
    # what it writes must be classified as the mode that was asked for, and both modes must parse alike
    import rdflib

    from pyjelly.options import StreamParameters
    from pyjelly.serialize.streams import QuadStream, SerializerOptions, TripleStream

    plug_reqs, plug_resp = [], []
    for i in range(ctx.n(16, 160)):
        cls = r.choice("TQ")
        o = Opts(fs=250, lt=0, gen=False, star=False, name="n" * r.choice([0, 1, 2, 3, 9]), pn=16, pp=8, pd=8)
        if i % 2 == 1:
            # an explicit flow object that cuts several frames (non-delimited output then holds several bare frames back to back)
            o.flow = ("flatTriples" if cls == "T" else "flatQuads", 0, r.choice([1, 2, 3]))
            ctx.dist["plugin:explicit-multi-frame-flow"] += 1
        stmts = _rdf11_statements(r, cls, o, r.randint(1, 4) if i % 2 == 0 else r.randint(3, 8))
        store = _to_store(stmts, cls)
        outs = {}
        import copy

        import rimpl
        for delim in (True, False):
            o.delim = delim
            for how in ("options", "stream"):
                oo = copy.copy(o)
                req, line, b = rimpl.run_plug(store, oo if how == "options" else None, (cls, oo) if how == "stream" else None)
                plug_reqs.append(req)
                plug_resp.append(line)
                if not line.endswith(" end") or b is None:
                    ctx.fail(f"rdflib plugin raised ({line[-40:]}) writing a {'delimited' if delim else 'non-delimited'} stream via {how}=", dict(opts=o.describe()))
                    continue
                outs[(delim, how)] = b
                ctx.dist[f"plugin:{how}:{'delimited' if delim else 'single'}"] += 1
                if impl.run_hint(b[:3]) != ("1" if delim else "0"):
                    ctx.fail(f"rdflib plugin ({how}=) asked for a {'delimited' if delim else 'non-delimited'} stream wrote the other framing",
                             dict(header=b[:3].hex(), opts=o.describe(), bytes=b.hex()))
        ctx.case(("plugin", cls, o.token(), stmts_text(stmts)), True)
        for delim in (True, False):
            a, b = outs.get((delim, "options")), outs.get((delim, "stream"))
            if a is not None and b is not None and a != b:
                ctx.fail("rdflib plugin writes different bytes for the same settings given as options= and as stream=",
                         dict(options=a.hex(), stream=b.hex(), delimited=delim))
        pa, pb = outs.get((True, "options")), outs.get((False, "options"))
        if pa is not None and pb is not None and impl.run_par("flat", False, "seek", pa) != impl.run_par("flat", False, "seek", pb):
            ctx.fail("rdflib plugin output in the two modes parses differently", dict(delimited=pa.hex(), single=pb.hex()))
    ctx.corr("PLUG", plug_reqs, plug_resp)


def _positioned_parses(b: bytes, tmpdir: str, r, k: int = 4):
    """Parse `b` from buffered seekable sources that are already positioned at the start of the stream (the application
    consumed its own preamble first), with the stream starting 0..4 bytes before a buffer boundary: yields (label, text)."""
    import gzip
    import os

    from pyjelly.integrations.generic.parse import parse_jelly_flat

    def run(src):
        evs, err = [], None
        try:
            for ev in parse_jelly_flat(src):
                evs.append(ev)
        except Exception as e:  # noqa: BLE001
            err = e
        return events_text(evs) + " " + ("end" if err is None else "!" + type(err).__name__)

    picks = []
    for buffering in (2, 16, 4096, -1):
        size = io.DEFAULT_BUFFER_SIZE if buffering == -1 else buffering
        for back in r.sample(range(0, 5), k=min(k, 5)):
            picks.append((buffering, max(1, size * r.choice([1, 1, 2]) - back)))
        picks.append((buffering, r.randint(1, 3 * size)))
    for buffering, pre in picks:
        p = os.path.join(tmpdir, "pos.bin")
        with open(p, "wb") as f:
            f.write(bytes(r.randrange(256) for _ in range(min(pre, 64))) + b"\n" * max(0, pre - 64) + b)
        with open(p, "rb", buffering=buffering) as f:
            assert len(f.read(pre)) == pre
            yield f"file(buffering={buffering}) positioned at {pre}", run(f)
    pre = r.randint(1, 40)
    src = io.BytesIO(b"\n" * pre + b)
    src.seek(pre)
    yield f"BytesIO positioned at {pre}", run(src)
    pz = os.path.join(tmpdir, "pos.gz")
    with gzip.open(pz, "wb") as f:
        f.write(b"\n" * pre + b)
    with gzip.open(pz, "rb") as f:
        f.read(pre)
        yield f"gzip positioned at {pre}", run(f)


def check_C09(ctx: Ctx) -> None:
    import gzip
    import os
    import tempfile

    from pyjelly.integrations.generic.parse import parse_jelly_flat, parse_jelly_grouped

    r = ctx.rng("io")
    reqs, resp = [], []
    tmpdir = tempfile.mkdtemp(prefix="verif_c09_")
    try:
        for i in range(ctx.n(120, 1200)):
            g = gen.G(r)
            s = refenc.build_valid_stream(r, g, n_stmts=r.randint(1, 8))
            b = s["bytes"]
            base = impl.run_par("flat", False, "seek", b)
            ctx.case(b.hex(), True, sample=dict(cfg=s["cfg"], delimited=s["delimited"], nbytes=len(b)))
            scheds = [[1] * 50, [2] * 50, [3], [5], [7, 1, 1], [r.randint(1, 9) for _ in range(30)], [len(b)], [1, 1, 5]]
            for sched in scheds:
                src = impl.RawSource(b, list(sched), default=r.choice([1, 3, 4096]))
                evs, err = [], None
                try:
                    for ev in parse_jelly_flat(src):
                        evs.append(ev)
                except Exception as e:  # noqa: BLE001
                    err = e
                got = events_text(evs) + " " + ("end" if err is None else "!" + type(err).__name__)
                ctx.dist[f"first_read:{min(sched[0], 3)}{'+' if sched[0] >= 3 else ''}"] += 1
                if got != base:
                    ctx.fail("result depends on read chunking", dict(bytes=b.hex(), schedule=sched[:10], got=got[:500], want=base[:500]))
            # a non-seekable source that is itself buffered (pipe / socket file object) over the same schedules
            for sched in scheds:
                src = io.BufferedReader(impl.RawSource(b, list(sched), default=r.choice([1, 3, 4096])))
                evs, err = [], None
                try:
                    for ev in parse_jelly_flat(src):
                        evs.append(ev)
                except Exception as e:  # noqa: BLE001
                    err = e
                got = events_text(evs) + " " + ("end" if err is None else "!" + type(err).__name__)
                ctx.dist["buffered_nonseekable"] += 1
                if got != base:
                    ctx.fail("result from a buffered non-seekable source depends on read chunking", dict(bytes=b.hex(), schedule=sched[:10], got=got[:500], want=base[:500]))
            # model: read schedules
            for n in ("1", "2", "3", "8", "1,1,1", "2,1", "1,2,5"):
                reqs.append(f"par flat 0 1 raw:{n} {b.hex()}")
                resp.append(impl.run_par("flat", False, f"raw:{n}", b))
            # buffered seekable sources: BufferedReader over a file, gzip
            p = os.path.join(tmpdir, "s.jelly")
            with open(p, "wb") as f:
                f.write(b)
            with open(p, "rb") as f:
                got = events_text(list(parse_jelly_flat(f))) + " end" if base.endswith(" end") else None
            if got is not None and got != base:
                ctx.fail("BufferedReader(file) parses differently from BytesIO", dict(bytes=b.hex()))
            pz = os.path.join(tmpdir, "s.jelly.gz")
            with gzip.open(pz, "wb") as f:
                f.write(b)
            with gzip.open(pz, "rb") as f:
                got = events_text(list(parse_jelly_flat(f))) + " end" if base.endswith(" end") else None
            if got is not None and got != base:
                ctx.fail("gzip source parses differently from BytesIO", dict(bytes=b.hex()))
            ctx.dist["file+gzip"] += 1
            if i % 4 == 0:
                for label, got in _positioned_parses(b, tmpdir, r, k=2):
                    ctx.dist["positioned_seekable"] += 1
                    if got != base:
                        ctx.fail(f"{label}: parses differently from an in-memory buffer of the same bytes", dict(bytes=b.hex(), source=label, got=got[:300], want=base[:300]))
        # streams of tens of kilobytes (more than the parser's 8 KiB buffer arrives in ONE read) through non-seekable sources
        # that are themselves buffered with a buffer larger or smaller than the parser's, and raw ones delivering 64 KiB at once
        for i in range(ctx.n(3, 12)):
            g = gen.G(r, n_prefixes=8, n_names=40)
            s = None
            while s is None or not s["delimited"]:
                s = refenc.build_valid_stream(r, g, n_stmts=r.randint(400, 700))
            b = s["bytes"]
            base = impl.run_par("flat", False, "seek", b)
            ctx.case(("large", len(b), b[:64].hex()), True, sample=dict(nbytes=len(b)))
            for label, mk in (("raw, 64 KiB per read", lambda: impl.RawSource(b, [1 << 16], default=1 << 16)),
                              ("raw, 2 then 64 KiB", lambda: impl.RawSource(b, [2, 1 << 16], default=1 << 16)),
                              ("BufferedReader(buffer_size=65536) over 64 KiB reads", lambda: io.BufferedReader(impl.RawSource(b, [1 << 16], default=1 << 16), buffer_size=1 << 16)),
                              ("BufferedReader(buffer_size=32768) over 20000-byte reads", lambda: io.BufferedReader(impl.RawSource(b, [20000], default=20000), buffer_size=1 << 15)),
                              ("BufferedReader(buffer_size=512) over 64 KiB reads", lambda: io.BufferedReader(impl.RawSource(b, [1 << 16], default=1 << 16), buffer_size=512))):
                evs, err = [], None
                try:
                    for ev in parse_jelly_flat(mk()):
                        evs.append(ev)
                except Exception as e:  # noqa: BLE001
                    err = e
                got = events_text(evs) + " " + ("end" if err is None else "!" + type(err).__name__)
                ctx.dist["large_streams_non_seekable"] += 1
                if got != base:
                    ctx.fail(f"a {len(b)}-byte stream from a non-seekable source ({label}) parses differently from the in-memory buffer",
                             dict(nbytes=len(b), source=label, got=got[-200:], want=base[-200:], bytes_head=b[:200].hex()))
        # the rdflib integration over the same kind of sources: parse_jelly_flat and the plugin behind Graph.parse(source=…)
        import rdflib

        import rimpl
        for i in range(ctx.n(25, 250)):
            g = gen.G(r, star=False, generalized=False, case_langs=False)
            g.bnode = lambda: BlankNode(r.choice(["b0", "b1", "n1"]))
            s = refenc.build_valid_stream(r, g, n_stmts=r.randint(2, 10), physical=1)
            b = s["bytes"]
            base = rimpl.run_par_flat(False, "seek", b)
            if not base.endswith(" end"):
                continue
            want_graph = sorted(set(e[1:] for e in base.split(" ")[:-1] if e.startswith("S")))
            ctx.case(("rdflib-io", b.hex()), True)
            ends, pos = [], 0
            for f in s["frames"]:
                pos += len(refenc.frames_to_bytes([f], True)) if s["delimited"] else len(b)
                ends.append(pos)
            for sched in ([1] * 40, [2, 1, 1], [3], [7, 1, 7], [ends[0]] if ends else [5], [max(1, ends[0] - 1)] if ends else [4],
                          [r.randint(1, 9) for _ in range(20)], [len(b)]):
                default = r.choice([1, 5, 4096])
                got = rimpl.rdflib_events_text([])
                evs, err = [], None
                try:
                    from pyjelly.integrations.rdflib.parse import parse_jelly_flat as rflat
                    for ev in rflat(impl.RawSource(b, list(sched), default=default)):
                        evs.append(ev)
                except Exception as e:  # noqa: BLE001
                    err = e
                got = rimpl.rdflib_events_text(evs) + " " + ("end" if err is None else "!" + type(err).__name__)
                ctx.dist["rdflib_raw_schedules"] += 1
                if got != base:
                    ctx.fail("rdflib parse_jelly_flat: result depends on read chunking", dict(bytes=b.hex(), schedule=sched[:10], then=default, got=got[:300], want=base[:300]))
                for buffered in (False, True):
                    src = impl.RawSource(b, list(sched), default=default)
                    if buffered:
                        src = io.BufferedReader(src)
                    gr = rdflib.Graph()
                    try:
                        gr.parse(source=src, format="jelly")
                        got_g = rimpl.store_quads(gr)
                    except Exception as e:  # noqa: BLE001
                        got_g = ["!" + type(e).__name__]
                    ctx.dist["rdflib_plugin_raw_schedules"] += 1
                    if sorted(set(got_g)) != want_graph:
                        ctx.fail("Graph.parse(source=<non-seekable>, format='jelly'): result depends on read chunking",
                                 dict(bytes=b.hex(), schedule=sched[:10], then=default, buffered=buffered, got=got_g[:5], want=want_graph[:5]))
        # directed header shapes x every way of delivering the first four bytes in short reads
        opt_min = jelly.RdfStreamOptions(physical_type=1, max_name_table_size=8, version=1)
        opt_ten = jelly.RdfStreamOptions(physical_type=1, logical_type=1, max_name_table_size=8, version=1)
        body = [jelly.RdfStreamRow(triple=jelly.RdfTriple(s_bnode="a", p_bnode="b", o_bnode="c")),
                jelly.RdfStreamRow(triple=jelly.RdfTriple(o_bnode="d"))]
        shapes = {
            "delimited, first frame of exactly 10 bytes (0A 0A NN)": refenc.frames_to_bytes(
                [jelly.RdfStreamFrame(rows=[jelly.RdfStreamRow(options=opt_min)]), jelly.RdfStreamFrame(rows=body)], True),
            "non-delimited, options row of exactly 10 bytes (0A 0A 0A)": refenc.frames_to_bytes(
                [jelly.RdfStreamFrame(rows=[jelly.RdfStreamRow(options=opt_ten), *body])], False),
            "delimited, first frame empty (00 ..)": refenc.frames_to_bytes(
                [jelly.RdfStreamFrame(), jelly.RdfStreamFrame(rows=[jelly.RdfStreamRow(options=opt_min), *body])], True),
            "delimited, ordinary": refenc.frames_to_bytes([jelly.RdfStreamFrame(rows=[jelly.RdfStreamRow(options=opt_ten), *body])], True),
        }
        heads = [[1, 1, 1, 1], [1, 1, 2], [1, 2, 1], [1, 3], [2, 1, 1], [2, 2], [3, 1], [4], [1], [2], [3], [2, 1], [1, 2], [7, 1, 7]]
        for label, b in shapes.items():
            base = impl.run_par("flat", False, "seek", b)
            ctx.case(("header-shape", label), True)
            ctx.dist["header_shape:" + b[:3].hex()] += 1
            if not base.endswith(" end"):
                ctx.fail(f"{label}: does not parse from an in-memory buffer ({base[-40:]})", dict(bytes=b.hex()))
                continue
            for sched in heads:
                for default in (1, 4096):
                    for buffered in (False, True):
                        src = impl.RawSource(b, list(sched), default=default)
                        if buffered:
                            src = io.BufferedReader(src)
                        evs, err = [], None
                        try:
                            for ev in parse_jelly_flat(src):
                                evs.append(ev)
                        except Exception as e:  # noqa: BLE001
                            err = e
                        got = events_text(evs) + " " + ("end" if err is None else "!" + type(err).__name__)
                        ctx.dist["header_shape_schedules"] += 1
                        if got != base:
                            ctx.fail(f"{label}: result depends on how the first bytes are delivered",
                                     dict(bytes=b.hex(), schedule=sched, then=default, buffered=buffered, got=got[:300], want=base[:300]))
                reqs.append(f"par flat 0 1 raw:{','.join(map(str, sched))} {b.hex()}")
                resp.append(impl.run_par("flat", False, f"raw:{','.join(map(str, sched))}", b))
    finally:
        import shutil

        shutil.rmtree(tmpdir, ignore_errors=True)
    ctx.corr("IO", reqs, resp)


def check_C10(ctx: Ctx) -> None:
    r = ctx.rng("cut")
    reqs, resp = [], []
    for i in range(ctx.n(40, 400)):
        g = gen.G(r)
        s = None
        while s is None or not s["delimited"]:
            s = refenc.build_valid_stream(r, g, n_stmts=r.randint(1, 8))
        b = s["bytes"]
        full = s["events_text"].split(" ") if s["events_text"] != "_" else []
        # frame end offsets
        # ... and, independently of any parser, how many events the frames delivered so far denote
        ends, pos, events_upto, nev = [], 0, {}, 0
        for f in s["frames"]:
            pos += len(refenc.frames_to_bytes([f], True))
            ends.append(pos)
            nev += sum(1 for row in f.rows if row.WhichOneof("row") in ("triple", "quad", "namespace"))
            events_upto[pos] = nev
        ctx.case(b.hex(), True, sample=dict(cfg=s["cfg"], nbytes=len(b), frames=len(ends)))
        ks = range(0, len(b) + 1) if (len(b) <= 400 or not ctx.quick()) else sorted(r.sample(range(len(b) + 1), 400))
        for k in ks:
            line = impl.run_par("flat", False, "seek", b[:k])
            ctx.dist["cuts"] += 1
            body, _, tail = line.rpartition(" ")
            got = body.split(" ") if body != "_" else []
            if got != full[: len(got)]:
                ctx.fail("truncated stream yields something that is not a prefix of the original",
                         dict(bytes=b.hex(), cut=k, got=body[:1000], want=s["events_text"][:1000]))
            # every fully delivered frame must be delivered (counted from the frames themselves, not from another parse)
            done = max([e for e in ends if e <= k], default=0)
            if done >= 3 and len(got) < events_upto[done]:
                ctx.fail(f"statements of fully delivered frames were lost: {len(got)} yielded, {events_upto[done]} delivered ({tail})",
                         dict(bytes=b.hex(), cut=k))
            ctx.dist["outcome:" + tail.lstrip("!")] += 1
            if k >= 4 and (k in ends or k % 11 == 0 or not ctx.quick()) and r.random() < (0.5 if ctx.quick() else 0.15):
                # the same cut reached while the parser is already reading (the producer appends, then dies at k): the
                # input had only `v0` bytes when it was opened, and every later read finds what it asks for up to k
                v0 = r.choice([r.randint(3, k), r.randint(3, k)] + [e + d for e in ends for d in (-1, 0, 1, 2) if 3 <= e + d <= k])
                src = r.choice(["grow", "growfile"]) + f":{v0}"
                grown = impl.run_par("flat", False, src, b[:k])
                ctx.dist["cuts_on_a_growing_input"] += 1
                if grown.rpartition(" ")[0] != body:
                    ctx.fail(f"a stream cut at {k} parses differently when it had {v0} bytes at the time the parser opened it ({src.split(':')[0]})",
                             dict(bytes=b.hex(), cut=k, visible_at_open=v0, source=src, got=grown[-400:], want=line[-400:]))
            if k >= 1 and (k in ends or k % 13 == 0):
                # the same cut stream arriving through a non-seekable source whose first reads are short (1 byte at a time;
                # 2 bytes then the rest): the transport's chunking must not change what a truncated stream yields
                for sched in ("1", "2,4096", "1,1,4096"):
                    chunked = impl.run_par("flat", False, f"raw:{sched}", b[:k])
                    ctx.dist["cuts_through_short_reads"] += 1
                    if chunked.rpartition(" ")[0] != body:
                        ctx.fail(f"a stream cut at {k} yields something else when it arrives in reads of {sched} bytes",
                                 dict(bytes=b.hex(), cut=k, schedule=sched, got=chunked[-400:], want=line[-400:]))
            if ctx.quick() and k % 7 != 0 and k not in ends:
                continue
            reqs.append(f"par flat 0 1 seek {b[:k].hex()}" if k else "par flat 0 1 seek")
            resp.append(line)
        if len(ks) == len(b) + 1:
            ctx.dist["streams_cut_exhaustively"] += 1
    ctx.corr("IO", reqs, resp)
    # complete streams whose prefix / datatype tables are larger than the name table and fully used (cut at the very end)
    _tables_larger_than_names(ctx, ctx.rng("big-tables"), ctx.n(6, 60))
    # the rdflib integration on the same kind of cuts (RDF 1.1 reference streams): prefix, and delivered frames delivered
    import rimpl
    # ... typed literals in legal but non-canonical lexical forms: what the rdflib reader yields from every cut is a prefix of
    # what the stream DENOTES (lexical forms as transmitted), frame by frame
    XS = gen.XSD
    nc = [Triple(IRI(f"http://nc/s{j}"), IRI("http://nc/p"), Literal(lex, datatype=XS + dt))
          for j, (lex, dt) in enumerate([("01", "integer"), ("+7", "integer"), ("1.50", "decimal"), ("1", "boolean"), ("1.0E0", "double"), (" 1 ", "int")])]
    line_nc, b_nc = impl.run_ser_frames("T", Opts(fs=2, pn=16, pp=4, pd=8), nc, is_sink=False)
    want_nc = [_norm_text("S" + stmt_text(x)) for x in nc]
    for k in range(0, len(b_nc) + 1, 3):
        got_nc = [_norm_text(e) for e in rimpl.run_par_flat(False, "seek", b_nc[:k]).split(" ") if e.startswith("S")]
        ctx.dist["rdflib_cuts_noncanonical"] += 1
        if got_nc != want_nc[: len(got_nc)]:
            ctx.fail("rdflib: a cut stream yields a statement that is not the one in the original at that position (lexical form rewritten)",
                     dict(bytes=b_nc.hex(), cut=k, got=got_nc[-2:], want=want_nc[: len(got_nc)][-2:]))
            break
    reqs, resp = [], []
    for i in range(ctx.n(20, 200)):
        g = gen.G(r, star=False, generalized=False, case_langs=False)
        g.bnode = lambda: BlankNode(r.choice(["b0", "b1", "n1"]))
        s = None
        while s is None or not s["delimited"]:
            s = refenc.build_valid_stream(r, g, n_stmts=r.randint(1, 8))
        b = s["bytes"]
        full = s["events_text"].split(" ") if s["events_text"] != "_" else []
        ends, pos, events_upto, nev = [], 0, {}, 0
        for f in s["frames"]:
            pos += len(refenc.frames_to_bytes([f], True))
            ends.append(pos)
            nev += sum(1 for row in f.rows if row.WhichOneof("row") in ("triple", "quad", "namespace"))
            events_upto[pos] = nev
        ctx.case(("rdflib", b.hex()), True)
        ks = sorted(set(ends) | set(e - 1 for e in ends) | set(e + 1 for e in ends if e + 1 <= len(b)) | set(r.sample(range(len(b) + 1), min(len(b) + 1, 25))))
        for k in ks:
            line = rimpl.run_par_flat(False, "seek", b[:k])
            ctx.dist["rdflib_cuts"] += 1
            body, _, tail = line.rpartition(" ")
            got = body.split(" ") if body != "_" else []
            if got != full[: len(got)]:
                ctx.fail("rdflib: truncated stream yields something that is not a prefix of the original",
                         dict(bytes=b.hex(), cut=k, got=body[:1000], want=s["events_text"][:1000]))
            done = max([e for e in ends if e <= k], default=0)
            if done >= 3 and len(got) < events_upto[done]:
                ctx.fail(f"rdflib: statements of fully delivered frames were lost: {len(got)} yielded, {events_upto[done]} delivered ({tail})",
                         dict(bytes=b.hex(), cut=k))
            reqs.append(f"par flat 0 0 seek {b[:k].hex()}" if k else "par flat 0 0 seek")
            resp.append(line)
    ctx.corr("IO-rdflib", reqs, resp)


# ---------------------------------------------------------------------------------------------
# C13
# ---------------------------------------------------------------------------------------------

def check_C13(ctx: Ctx) -> None:
    from pyjelly.integrations.generic.parse import parse_jelly_flat, parse_jelly_grouped

    r = ctx.rng("hdr")
    reqs, resp = [], []
    names = ["", "s", "näme-ü", "日本", "x" * 5, "x" * 6, "x" * 7, "\x00", "a b", "é" * 60]
    for i in range(ctx.n(300, 3000)):
        cls = r.choice("TQG")
        o = rand_opts(r, cls, lt=r.choice(gen.LOGICAL), explicit_flow=r.random() < 0.25)
        o.name = r.choice(names)
        o.gen, o.star, o.ns = r.random() < 0.5, r.random() < 0.5, r.random() < 0.4
        o.pn = r.choice([8, 9, 127, 128, 4000, 4096, 5000])
        stmts = gen_fitting(r, cls, o, r.randint(0, 3))
        line, b = impl.run_ser_frames(cls, o, stmts, is_sink=False)
        reqs.append(f"ser {cls} frames {o.token()} gen:{stmts_text(stmts)}")
        resp.append(line)
        ok = line.endswith(" end")
        ctx.case((cls, o.token()), ok, sample=dict(cls=cls, opts=o.describe(), outcome=line[-40:]))
        ctx.dist["writer:" + ("ok" if ok else line.split(" ")[-1])] += 1
        if not ok or not b:
            continue
        opt_line = impl.run_par("options", False, "seek", b)
        reqs.append(f"par options 0 1 seek {b.hex()}")
        resp.append(opt_line)
        phys = {"T": 1, "Q": 2, "G": 3}[cls]
        # the logical type the stream resolves to
        from pyjelly.serialize.streams import GraphStream, QuadStream, TripleStream  # noqa: PLC0415
        stream, _ = impl.make_stream(cls, o)
        # a logical type the caller asked for is the one the reader must be told (independent of how the flow is inferred);
        # only when none was requested (or an explicit flow object carries its own) is the stream's resolved type used
        if o.flow is not None:
            # an explicit flow object decides: the logical type it was built with, else the one of its class (computed here,
            # not read off the stream under test)
            want_lt = o.flow[1] or {"manual": 0, "bounded": 0, "flatTriples": 1, "flatQuads": 2, "graphs": 3, "datasets": 4}[o.flow[0]]
            ctx.dist["header:explicit-flow"] += 1
            if want_lt and not _pair_ok(phys, want_lt):
                ctx.fail(f"a stream of physical type {phys} given a flow object of logical type {want_lt} (a forbidden pair) was written instead of refused",
                         dict(request=reqs[-2], header=opt_line))
                continue
        else:
            want_lt = o.lt if o.lt != 0 else int(stream.stream_types.logical_type)
        want = (f"pt={phys} lt={want_lt} n={o.pn} p={o.pp} d={o.pd} name={hx(o.name)} "
                f"gen={'true' if o.gen else 'false'} star={'true' if o.star else 'false'} v={2 if o.ns else 1} "
                f"delim={'true' if o.delim else 'false'} nd={'true' if o.ns else 'false'}")
        if opt_line != want:
            sig = None
            if o.pn > 4096 and opt_line.startswith("pt="):
                sig = None
            ctx.fail("header read back differs from the options written", dict(request=reqs[-2], got=opt_line, want=want), known=sig)
    # whatever version= the caller passes (also via dataclasses.replace on existing parameters), the header declares
    # version 2 exactly when namespace declarations are enabled
    import dataclasses
    from pyjelly.options import StreamParameters
    from pyjelly.serialize.streams import SerializerOptions, TripleStream
    from pyjelly.integrations.generic.serialize import GenericSinkTermEncoder, stream_frames as g_stream_frames
    for ver in (0, 1, 2, 3, 7):
        for nd in (False, True):
            for via_replace in (False, True):
                try:
                    p = dataclasses.replace(StreamParameters(version=ver), namespace_declarations=nd) if via_replace else StreamParameters(version=ver, namespace_declarations=nd)
                except Exception:  # noqa: BLE001  (refusing a version is not a violation)
                    ctx.dist["version_refused"] += 1
                    continue
                so = SerializerOptions(params=p)
                st = TripleStream(encoder=GenericSinkTermEncoder(lookup_preset=so.lookup_preset), options=so)
                sink = mk_sink([Triple(IRI("http://v/s"), IRI("http://v/p"), Literal("o"))], [("ex", IRI("http://v/"))])
                b = impl.frames_bytes(list(g_stream_frames(st, sink)), True)
                opt_line = impl.run_par("options", False, "seek", b)
                ctx.case(("version", ver, nd, via_replace), True)
                want_v = 2 if nd else 1
                if f" v={want_v} " not in opt_line or f"nd={'true' if nd else 'false'}" not in opt_line:
                    ctx.fail(f"StreamParameters(version={ver}, namespace_declarations={nd}){' via replace' if via_replace else ''}: header says {opt_line}",
                             dict(bytes=b.hex(), version=ver, namespace_declarations=nd))
    # a stream constructed directly with an encoder that was NOT built from the options' preset: the header still tells the
    # reader the options the stream was given
    from pyjelly.options import LookupPreset
    from pyjelly.serialize.streams import GraphStream as _GS, QuadStream as _QS
    for scls, n_terms in ((TripleStream, 3), (_QS, 4), (_GS, 3)):
        for preset in ((8, 0, 0), (128, 32, 32), (16, 4, 4), (4000, 150, 32), (300, 7, 1)):
            for enc_preset in (None, (4000, 150, 32), (64, 8, 8)):
                for delim in (True, False):
                    so = SerializerOptions(lookup_preset=LookupPreset(*preset), params=StreamParameters(delimited=delim, stream_name="h"))
                    encoder = GenericSinkTermEncoder() if enc_preset is None else GenericSinkTermEncoder(lookup_preset=LookupPreset(*enc_preset))
                    try:
                        st = scls(encoder=encoder, options=so)
                        st.enroll()
                        fr = st.flow.to_stream_frame()
                        b = impl.frames_bytes([fr] if fr is not None else [], delim)
                    except Exception as e:  # noqa: BLE001
                        ctx.dist["mismatched_encoder_refused"] += 1
                        continue
                    opt_line = impl.run_par("options", False, "seek", b)
                    ctx.case(("encoder-mismatch", scls.__name__, preset, enc_preset, delim), True)
                    if f" n={preset[0]} p={preset[1]} d={preset[2]} " not in opt_line:
                        ctx.fail(f"{scls.__name__} given options with tables {preset} (encoder built with {enc_preset}) tells the reader {opt_line}",
                                 dict(bytes=b.hex(), options_preset=list(preset), encoder_preset=enc_preset))
    # strict gates over all 8 logical types x {flat, grouped} parser, reading streams with each logical type
    for lt in gen.LOGICAL:
        for phys in (1, 2, 3):
            enc = refenc.RefEncoder(r, physical=phys, logical=lt, sizes=(8, 4, 4)) if _pair_ok(phys, lt) else None
            if enc is None:
                continue
            g = gen.G(r)
            if phys == 3:
                enc.graph_start(g.term("g"))
            enc.statement(g.quad() if phys == 2 else g.triple())
            b = refenc.frames_to_bytes([jelly.RdfStreamFrame(rows=enc.rows)], True)
            for entry, accept in (("flat", lt in (1, 2)), ("grouped", lt in (3, 4, 13, 14, 114))):
                for strict in (True, False):
                    line = impl.run_par(entry, strict, "seek", b)
                    reqs.append(f"par {entry} {int(strict)} 1 seek {b.hex()}")
                    resp.append(line)
                    ok = line.endswith(" end")
                    ctx.case(("gate", lt, phys, entry, strict), True)
                    ctx.dist["strict_gate_cases"] += 1
                    if strict and ok != accept:
                        ctx.fail(f"strict {entry} parser {'accepts' if ok else 'rejects'} logical type {lt}", dict(bytes=b.hex()))
                    if not strict and not ok:
                        ctx.fail(f"non-strict {entry} parser rejects logical type {lt}", dict(bytes=b.hex(), got=line))
            # the same gates in the rdflib integration (RDF 1.1 content)
            import rimpl
            enc = refenc.RefEncoder(r, physical=phys, logical=lt, sizes=(8, 4, 4))
            if phys == 3:
                enc.graph_start(IRI("http://gate/g"))
            st = (IRI("http://gate/s"), IRI("http://gate/p"), Literal("o"))
            enc.statement(Quad(*st, IRI("http://gate/g")) if phys == 2 else Triple(*st))
            if phys == 3:
                enc.graph_end()
            rb = refenc.frames_to_bytes([jelly.RdfStreamFrame(rows=enc.rows)], True)
            for entry, accept in (("flat", lt in (1, 2)), ("grouped", lt in (3, 4, 13, 14, 114))):
                for strict in (True, False):
                    if entry == "flat":
                        ok = rimpl.run_par_flat(strict, "seek", rb).endswith(" end")
                    else:
                        ok = rimpl.run_par_grouped(strict, "seek", rb)[1] is None
                    ctx.case(("rgate", lt, phys, entry, strict), True)
                    ctx.dist["strict_gate_cases_rdflib"] += 1
                    if strict and ok != accept:
                        ctx.fail(f"rdflib strict {entry} parser {'accepts' if ok else 'rejects'} logical type {lt}", dict(bytes=rb.hex()))
                    if not strict and not ok:
                        ctx.fail(f"rdflib non-strict {entry} parser rejects logical type {lt}", dict(bytes=rb.hex()))
            # the flat parsers called with a header that was read before (`frames=`, `options=`: the form parse_jelly_to_graph
            # uses): the strict gate must not depend on who read the header
            from pyjelly.integrations.generic import parse as gparse
            from pyjelly.integrations.rdflib import parse as rparse
            from pyjelly.parse.ioutils import get_options_and_frames
            for integ, mod, data in (("generic", gparse, b), ("rdflib", rparse, rb)):
                for strict in (True, False):
                    try:
                        src = io.BytesIO(data)
                        opts_, frames_ = get_options_and_frames(src)
                        n_ev = sum(1 for _ in mod.parse_jelly_flat(src, frames=frames_, options=opts_, logical_type_strict=strict))
                        ok = True
                    except Exception:  # noqa: BLE001
                        ok = False
                    ctx.case(("pre-read-gate", integ, lt, phys, strict), True)
                    ctx.dist["strict_gate_cases_pre_read_header"] += 1
                    if strict and ok != (lt in (1, 2)):
                        ctx.fail(f"{integ} strict flat parser given a pre-read header {'accepts' if ok else 'rejects'} logical type {lt}", dict(bytes=data.hex()))
                    if not strict and not ok:
                        ctx.fail(f"{integ} non-strict flat parser given a pre-read header rejects logical type {lt}", dict(bytes=data.hex()))
    # forbidden pairs / small name table / oversized tables / new version on read
    for phys, lt in itertools.product(range(0, 4), gen.LOGICAL):
        row = jelly.RdfStreamRow(options=jelly.RdfStreamOptions(physical_type=phys, logical_type=lt, max_name_table_size=8, version=1))
        b = refenc.frames_to_bytes([jelly.RdfStreamFrame(rows=[row])], True)
        line = impl.run_par("flat", False, "seek", b)
        reqs.append(f"par flat 0 1 seek {b.hex()}")
        resp.append(line)
        ctx.case(("pair", phys, lt), True)
        allowed = phys != 0 and _pair_ok(phys, lt)
        if line.endswith(" end") != allowed:
            ctx.fail(f"reader {'accepts' if line.endswith(' end') else 'rejects'} physical/logical pair ({phys},{lt})", dict(bytes=b.hex(), got=line))
    # physical types outside the enum (proto3 keeps unknown enum values): rejected whatever the rows look like, by both integrations
    import rimpl
    shapes = {
        "triples": [jelly.RdfStreamRow(triple=jelly.RdfTriple(s_bnode="a", p_bnode="b", o_bnode="c"))],
        "quads": [jelly.RdfStreamRow(quad=jelly.RdfQuad(s_bnode="a", p_bnode="b", o_bnode="c", g_default_graph=jelly.RdfDefaultGraph()))],
        "graphs": [jelly.RdfStreamRow(graph_start=jelly.RdfGraphStart(g_default_graph=jelly.RdfDefaultGraph())),
                   jelly.RdfStreamRow(triple=jelly.RdfTriple(s_bnode="a", p_bnode="b", o_bnode="c")),
                   jelly.RdfStreamRow(graph_end=jelly.RdfGraphEnd())],
        "none": [],
    }
    for phys in (0, 4, 5, 99):
        for lt in (0, 1, 2, 3):
            for shape, rows in shapes.items():
                row = jelly.RdfStreamRow(options=jelly.RdfStreamOptions(physical_type=phys, logical_type=lt, max_name_table_size=8, version=1))
                b = refenc.frames_to_bytes([jelly.RdfStreamFrame(rows=[row, *rows])], True)
                ctx.case(("unknown-physical", phys, lt, shape), True)
                for entry in ("flat", "grouped"):
                    line = impl.run_par(entry, False, "seek", b)
                    reqs.append(f"par {entry} 0 1 seek {b.hex()}")
                    resp.append(line)
                    if line.endswith(" end"):
                        ctx.fail(f"generic {entry} parser accepts a stream of undefined physical type {phys} ({shape}-shaped rows)", dict(bytes=b.hex(), got=line[:300]))
                if rimpl.run_par_flat(False, "seek", b).endswith(" end"):
                    ctx.fail(f"rdflib flat parser accepts a stream of undefined physical type {phys} ({shape}-shaped rows)", dict(bytes=b.hex()))
                if rimpl.run_par_grouped(False, "seek", b)[1] is None:
                    ctx.fail(f"rdflib grouped parser accepts a stream of undefined physical type {phys} ({shape}-shaped rows)", dict(bytes=b.hex()))
    # the rdflib plugin: the header tells the options it was given (table sizes, name, flags), with the logical type left
    # open or set, delimited or not
    import rdflib
    plug_reqs, plug_resp = [], []
    for i in range(ctx.n(40, 400)):
        is_ds = r.random() < 0.5
        store = rdflib.Dataset() if is_ds else rdflib.Graph()
        store.add((rdflib.URIRef("http://h/s"), rdflib.URIRef("http://h/p"), rdflib.Literal("o")))
        o = Opts(fs=250, lt=r.choice([0, 0, 2 if is_ds else 1]), gen=False, star=False, delim=r.random() < 0.6, ns=r.random() < 0.3,
                 name=r.choice(["", "n", "näme"]), pn=r.choice([8, 16, 128, 4000]), pp=r.choice([0, 4, 32, 150]), pd=r.choice([0, 4, 32]))
        req, line, b = rimpl.run_plug(store, o, None)
        plug_reqs.append(req)
        plug_resp.append(line)
        ctx.case(("plugin-header", is_ds, o.token()), True)
        ctx.dist["plugin_headers"] += 1
        if not line.endswith(" end") or not b:
            continue
        opt_line = impl.run_par("options", False, "seek", b)
        want_bits = [f" n={o.pn} p={o.pp} d={o.pd} ", f"name={hx(o.name)} ", f" v={2 if o.ns else 1} ", f"pt={2 if is_ds and o.lt % 10 != 3 else 1} "]
        if o.lt:
            want_bits.append(f" lt={o.lt} ")
        if not all(w in " " + opt_line + " " for w in want_bits):
            ctx.fail("rdflib plugin: the header does not tell the options the stream was written with",
                     dict(opts=o.describe(), got=opt_line, want=want_bits, bytes=b.hex()[:400]))
    ctx.corr("PLUG", plug_reqs, plug_resp)
    for kw in (dict(max_name_table_size=7), dict(max_name_table_size=4097), dict(max_name_table_size=8, max_prefix_table_size=4097),
               dict(max_name_table_size=8, max_datatype_table_size=2**32 - 1), dict(max_name_table_size=8, version=3)):
        base = dict(physical_type=1, version=1)
        base.update(kw)
        row = jelly.RdfStreamRow(options=jelly.RdfStreamOptions(**base))
        b = refenc.frames_to_bytes([jelly.RdfStreamFrame(rows=[row])], True)
        line = impl.run_par("flat", False, "seek", b)
        reqs.append(f"par flat 0 1 seek {b.hex()}")
        resp.append(line)
        ctx.case(("reject", str(kw)), True)
        if line.endswith(" end"):
            ctx.fail(f"reader accepts {kw}", dict(bytes=b.hex()))
    ctx.corr("HEADER", reqs, resp)


def _pair_ok(phys: int, lt: int) -> bool:
    if lt == 0:
        return True
    return (phys == 1) == (lt in (1, 3, 13))


# ---------------------------------------------------------------------------------------------
# C11
# ---------------------------------------------------------------------------------------------

class Stall(Exception):
    pass


class StallSource(io.RawIOBase):
    """Raw non-seekable source that has delivered `limit` bytes and then stalls forever; a stall is
    represented by raising, so the test observes exactly when the parser asks for undelivered bytes."""

    def __init__(self, data: bytes, limit: int, chunk: int = 1 << 16):
        self._data, self._pos, self._limit, self._chunk = data, 0, limit, chunk

    def readable(self):
        return True

    def seekable(self):
        return False

    def readinto(self, b):
        if self._pos >= self._limit:
            raise Stall
        n = min(len(b), self._limit - self._pos, self._chunk)
        b[:n] = self._data[self._pos:self._pos + n]
        self._pos += n
        return n


def _real_trace(cls: str, o: Opts, stmts, integration: str = "generic"):
    """pull/yield trace of stream_frames(stream, generator) on the real code."""
    from pyjelly.integrations.generic import serialize as gser

    if integration == "rdflib":
        import rimpl
        from pyjelly.integrations.rdflib import parse as rparse, serialize as gser  # noqa: F811

        stream, _ = rimpl.make_stream(cls, o)
        stmts = [tuple(rimpl.to_rdflib(t) for t in st) for st in stmts]
        if cls != "T":
            stmts = [rparse.Quad(*st) for st in stmts]
    else:
        stream, _ = impl.make_stream(cls, o)
    tr: list[str] = []
    stmt_rows_out = [0]
    pulls = [0]
    lookahead = []

    def source():
        i = 0
        for st in stmts:
            i += 1
            pulls[0] = i
            tr.append(f"p{i}:{len(stream.flow)}")
            yield st
        pulls[0] = i + 1
        tr.append(f"p{i + 1}:{len(stream.flow)}")

    err = None
    try:
        for f in gser.stream_frames(stream, source()):
            tr.append(f"y{len(f.rows)}")
            stmt_rows_out[0] += sum(1 for r in f.rows if r.WhichOneof("row") in ("triple", "quad"))
            if pulls[0] <= len(stmts):
                lookahead.append(pulls[0] - stmt_rows_out[0])
    except Exception as e:  # noqa: BLE001
        err = e
    line = " ".join(tr) + f" flow={len(stream.flow)} " + ("end" if err is None else "!" + type(err).__name__)
    return line, tr, lookahead, stream


def check_C11(ctx: Ctx) -> None:
    from pyjelly.integrations.generic.parse import parse_jelly_flat

    r = ctx.rng("trace")
    reqs, resp = [], []
    for i in range(ctx.n(300, 3000)):
        cls = r.choice("TTQQG")
        o = rand_opts(r, cls, delimited=True, lt=r.choice([0, {"T": 1, "Q": 2, "G": 2}[cls]]))
        o.fs = r.choice([1, 2, 3, 5, 7, 250])
        if cls != "G" and r.random() < 0.25:
            # the frame size given through a ready-made flow object (as the library's own e2e tests do), options.frame_size left alone
            want_fs = r.choice([1, 2, 3, 5, 7])
            o.flow = ("flatTriples" if cls == "T" else "flatQuads", 0, want_fs)
            o.fs = 250
            o.lt = 0
        else:
            want_fs = o.fs
        integ = "rdflib" if i % 4 == 3 else "generic"
        if integ == "rdflib":
            o.gen = o.star = False
            stmts = _rdf11_statements(r, cls, o, r.randint(0, 16))
        else:
            stmts = gen_fitting(r, cls, o, r.randint(0, 16))
        line, tr, lookahead, stream = _real_trace(cls, o, stmts, integ)
        ctx.dist["integration:" + integ] += 1
        rdflib_graphs = integ == "rdflib" and cls == "G"
        if not rdflib_graphs:
            # (the rdflib GraphStream fed from a generator first materialises ALL quads into a Dataset, regrouped and
            # de-duplicated: outside the trace model, and the subject of the known finding below)
            reqs.append(f"trace {cls} {o.token()} {stmts_text(stmts)}")
            resp.append(line)
        ctx.case((cls, o.token(), stmts_text(stmts)), len(stmts) >= 2, sample=dict(cls=cls, frame_size=o.fs, trace=line[:200]))
        ctx.dist[f"cls:{cls}"] += 1
        if not line.endswith(" end"):
            continue
        fs = stream.flow.frame_size
        if fs != want_fs:
            ctx.fail(f"the flow uses frame size {fs}, the caller asked for {want_fs}", dict(opts=o.describe()))
        req_text = f"trace[{integ}] {cls} {o.token()} {stmts_text(stmts)}"
        # (i) from the second statement on fewer than frame_size rows are pending at every pull
        for ev in tr:
            if ev.startswith("p"):
                idx, pend = map(int, ev[1:].split(":"))
                if idx >= 2 and pend >= want_fs:
                    ctx.fail(f"{pend} rows pending at pull {idx} with frame_size {want_fs}", dict(request=req_text, trace=line),
                             known=("C11-rdflib-graphs-materialised" if rdflib_graphs else "C11-graphs-lookahead") if cls == "G" else None)
                    break
        # (ii) at most one frame between two pulls (each frame is handed out at once)
        body = tr[: max(j for j, ev in enumerate(tr) if ev.startswith("p"))] if any(ev.startswith("p") for ev in tr) else []
        if cls != "G" and any(a.startswith("y") and b.startswith("y") for a, b in zip(body, body[1:])):
            ctx.fail("two frames between consecutive pulls", dict(request=req_text, trace=line))
        # (iii) input consumed no further than the statement that completed the frame
        if any(x > 0 for x in lookahead):
            ctx.fail("input consumed beyond the statement that completed the frame",
                     dict(request=req_text, trace=line, lookahead=lookahead[:10]),
                     known=("C11-rdflib-graphs-materialised" if rdflib_graphs else "C11-graphs-lookahead") if cls == "G" else None)
    ctx.corr("SERSTEP", reqs, resp)
    # parse side: the source stalls forever after frame j
    for i in range(ctx.n(80, 800)):
        g = gen.G(r)
        s = None
        while s is None or not s["delimited"]:
            s = refenc.build_valid_stream(r, g, n_stmts=r.randint(1, 8))
        b = s["bytes"]
        ends, pos = [], 0
        for f in s["frames"]:
            pos += len(refenc.frames_to_bytes([f], True))
            ends.append(pos)
        ctx.case(("stall", b.hex()), True)
        for j, lim in enumerate(ends):
            if lim < 3:
                continue
            want = impl.run_par("flat", False, "seek", b[:lim]).rsplit(" ", 1)[0]
            for kind in ("raw", "buffered", "buffered-small"):
                src = StallSource(b, lim, chunk=r.choice([1, 2, 3, 7, 1 << 16]))
                if kind == "buffered":
                    src = io.BufferedReader(src)
                elif kind == "buffered-small":
                    # a source whose own buffer is smaller than the parser's and already holds everything delivered
                    # when the parser's first fill comes (its readinto1 would then go to the transport again)
                    src = io.BufferedReader(StallSource(b, lim), buffer_size=r.choice([4, 16, lim, lim + 1, 2 * lim + 5, 4096]))
                evs = []
                try:
                    for ev in parse_jelly_flat(src):
                        evs.append(ev)
                    ended = "end"
                except Stall:
                    ended = "stall"
                except Exception as e:  # noqa: BLE001
                    ended = "!" + type(e).__name__
                got = events_text(evs)
                ctx.dist[f"stall:{kind}"] += 1
                if got != want:
                    ctx.fail(f"{kind} source: statements of delivered frames not yielded before more bytes were required "
                             f"(frame {j + 1}/{len(ends)}, ended {ended})",
                             dict(bytes=b.hex(), limit=lim, got=got[:500], want=want[:500]))
        # a seekable input that is still being appended to (a spool file, a shared buffer): whatever has arrived by the time
        # the parser asks for it must be delivered — a parser that measured the input once, at the start, stops early
        full = impl.run_par("flat", False, "seek", b)
        for lim in r.sample(ends, min(2, len(ends))) + [max(3, ends[0] - 1)]:
            if lim < 3 or lim >= len(b):
                continue
            for kind in ("growing-raw", "growing-buffered", "growing-file"):
                if kind == "growing-file":
                    src = io.BufferedReader(impl.GrowingFile(b, lim))
                else:
                    src = impl.GrowingSource(b, lim)
                    if kind == "growing-buffered":
                        src = io.BufferedReader(src)
                evs = []
                try:
                    for ev in parse_jelly_flat(src):
                        evs.append(ev)
                    ended = "end"
                except Exception as e:  # noqa: BLE001
                    ended = "!" + type(e).__name__
                finally:
                    try:
                        src.close()
                    except Exception:  # noqa: BLE001
                        pass
                got = events_text(evs) + " " + ended
                ctx.dist[f"stall:{kind}"] += 1
                if got != full:
                    ctx.fail(f"{kind} input ({lim} of {len(b)} bytes present when the parser started, the rest appended before it was asked for): "
                             f"statements of frames that had arrived were not delivered (ended {ended})",
                             dict(bytes=b.hex(), visible_at_start=lim, got=got[:500], want=full[:500]))
    _c11_to_file_raw_sinks(ctx, r)
    _c11_rdflib_stall(ctx, r)


class _RawSink(io.RawIOBase):
    """An unbuffered output stream (a socket, a file opened with buffering=0) that takes everything it is handed."""

    def __init__(self) -> None:
        super().__init__()
        self.count = 0

    def writable(self) -> bool:
        return True

    def write(self, b) -> int:
        self.count += len(b)
        return len(b)


def _c11_to_file_raw_sinks(ctx: Ctx, r) -> None:
    """The `*_stream_to_file` entry points writing to an unbuffered output stream: whenever the serializer asks its input for
    the next statement, every frame completed so far must already have reached the caller's stream (bytes held back in a
    private buffer are rows held back)."""
    import rimpl
    from pyjelly.integrations.generic import serialize as gser
    from pyjelly.integrations.rdflib import parse as rparse, serialize as rser

    for i in range(ctx.n(40, 400)):
        cls = r.choice("TQ")
        integ = "rdflib" if i % 2 else "generic"
        o = Opts(fs=r.choice([1, 2, 3, 5]), lt={"T": 1, "Q": 2}[cls], gen=integ == "generic", star=integ == "generic", delim=True,
                 pn=16, pp=8, pd=8)
        stmts = _rdf11_statements(r, cls, o, r.randint(3, 12)) if integ == "rdflib" else gen_fitting(r, cls, o, r.randint(3, 12))
        if len(stmts) < 3:
            continue
        if integ == "rdflib":
            data = [tuple(rimpl.to_rdflib(t) for t in st) for st in stmts]
            data = data if cls == "T" else [rparse.Quad(*st) for st in data]
            to_frames, to_file = rser.flat_stream_to_frames, rser.flat_stream_to_file
        else:
            data, to_frames, to_file = stmts, gser.flat_stream_to_frames, gser.flat_stream_to_file
        # reference run: which frame is complete after how many pulls, and how many bytes it has on the wire
        pulls = [0]

        def src(data=data, pulls=pulls, seen=None):
            for k, st in enumerate(data, 1):
                pulls[0] = k
                if seen is not None:
                    seen.append(sink.count)
                yield st
            pulls[0] = len(data) + 1
            if seen is not None:
                seen.append(sink.count)

        done = []   # (pulls when the frame was handed out, cumulative bytes up to and including it)
        total = 0
        try:
            for f in to_frames(src(), o.real()):
                total += len(impl.frames_bytes([f], True))
                done.append((pulls[0], total))
        except Exception as e:  # noqa: BLE001
            ctx.fail(f"{integ} flat_stream_to_frames raised {type(e).__name__}", dict(opts=o.describe(), statements=stmts_text(stmts)[:300]))
            continue
        sink, seen = _RawSink(), []
        try:
            to_file(src(seen=seen), sink, options=o.real())
        except Exception as e:  # noqa: BLE001
            ctx.fail(f"{integ} flat_stream_to_file raised {type(e).__name__} on an unbuffered output stream", dict(opts=o.describe()))
            continue
        ctx.case(("to-file-raw", integ, cls, o.token(), stmts_text(stmts)), True)
        ctx.dist[f"to_file_raw_sink:{integ}"] += 1
        if sink.count != total:
            ctx.fail(f"{integ} flat_stream_to_file wrote {sink.count} bytes to an unbuffered stream, the frames have {total}", dict(opts=o.describe()))
            continue
        for k, have in enumerate(seen, 1):   # at the k-th pull (k-1 statements consumed)
            must = max([t for p, t in done if p <= k - 1] or [0])
            if have < must:
                ctx.fail(f"{integ} flat_stream_to_file: when statement {k} was asked for, {must} bytes of completed frames existed but "
                         f"only {have} had reached the (unbuffered) output stream", dict(opts=o.describe(), statements=stmts_text(stmts)[:300]))
                break


# ---------------------------------------------------------------------------------------------
# C12
# ---------------------------------------------------------------------------------------------

class _Err:
    def __init__(self, name):
        self.name = name


def _c12_workload(seed: int, n: int = 12):
    """Deterministic (seed-derived) list of (cls, Opts, statements)."""
    import random

    r = random.Random(f"c12|{seed}")
    out = []
    for _ in range(n):
        cls = r.choice("TQG")
        o = rand_opts(r, cls, ns=r.random() < 0.4)
        out.append((cls, o, gen_fitting(r, cls, o, r.randint(1, 12))))
    return out


def _c12_data(cls, o, stmts):
    """Sink input with several bindings when declarations are on (their order must not depend on hashing)."""
    if not o.ns:
        return stmts, False
    return mk_sink(stmts, _c12_bindings(stmts)), True


def _c12_bindings(stmts):
    """Bindings that differ from workload to workload (a function of the statements): another label set, other IRIs, or none
    at all — what leaks from one sink or stream into another then shows in the bytes and in the sinks read back."""
    import zlib
    k = zlib.crc32(stmts_text(stmts).encode()) % 5
    if k == 4:
        return []
    k = k % 4
    labels = ["zeta", "a", "mid", "b2", "", "x9"][k: k + 3 + k]
    return [(p, IRI(f"http://ns{j}-{k}.example/{p}#")) for j, p in enumerate(labels)]


def _c12_bytes(work) -> list[bytes]:
    out = []
    for cls, o, stmts in work:
        data, is_sink = _c12_data(cls, o, stmts)
        out.append(impl.run_ser_frames(cls, o, data, is_sink=is_sink)[1] or b"")
    return out


def _c11_rdflib_stall(ctx: Ctx, r) -> None:
    """Parse-side liveness through the rdflib integration (flat parser, TRIPLES / QUADS / GRAPHS streams)."""
    import rimpl
    from pyjelly.integrations.rdflib.parse import parse_jelly_flat as rflat

    for i in range(ctx.n(60, 600)):
        g = gen.G(r, star=False, generalized=False, case_langs=False)
        g.bnode = lambda: BlankNode(r.choice(["b0", "b1", "n1"]))
        s = None
        while s is None or not s["delimited"]:
            s = refenc.build_valid_stream(r, g, n_stmts=r.randint(2, 8), physical=r.choice([1, 2, 3]))
        b = s["bytes"]
        ends, pos = [], 0
        for f in s["frames"]:
            pos += len(refenc.frames_to_bytes([f], True))
            ends.append(pos)
        ctx.case(("rdflib-stall", b.hex()), True)
        for j, lim in enumerate(ends):
            if lim < 3:
                continue
            want = rimpl.run_par_flat(False, "seek", b[:lim]).rsplit(" ", 1)[0]
            src = StallSource(b, lim, chunk=r.choice([1, 2, 3, 7, 1 << 16]))
            evs = []
            try:
                for ev in rflat(src):
                    evs.append(ev)
                ended = "end"
            except Stall:
                ended = "stall"
            except Exception as e:  # noqa: BLE001
                ended = "!" + type(e).__name__
            got = rimpl.rdflib_events_text(evs)
            ctx.dist["stall:rdflib-raw"] += 1
            if got != want:
                ctx.fail(f"rdflib flat parser: statements of delivered frames not yielded before more bytes were required "
                         f"(frame {j + 1}/{len(ends)}, ended {ended})", dict(bytes=b.hex(), limit=lim, got=got[:400], want=want[:400]))


def check_C12(ctx: Ctx) -> None:
    import hashlib
    import os
    import subprocess
    import sys
    import threading

    from pyjelly.integrations.generic import serialize as gser
    from pyjelly.integrations.generic.parse import parse_jelly_flat

    r = ctx.rng("iso")
    # (0) model = pure function: real bytes equal the model's bytes under every condition below
    work = _c12_workload(ctx.seed, ctx.n(16, 60))
    alone = _c12_bytes(work)
    reqs, resp_alone = [], []
    for cls, o, st in work:
        data, is_sink = _c12_data(cls, o, st)
        reqs.append(f"ser {cls} frames {o.token()} " + (("sink:" + sink_arg(data)) if is_sink else ("gen:" + stmts_text(st))))
        resp_alone.append(impl.run_ser_frames(cls, o, data, is_sink=is_sink)[0])
    ctx.corr("SER", reqs, resp_alone)
    for (cls, o, st), b in zip(work, alone):
        ctx.case((cls, o.token(), stmts_text(st)), True, sample=dict(cls=cls, opts=o.describe(), nbytes=len(b)))
    # (0b) what was declared for ONE workload is what its reader finds in the sinks built for it — no more (bindings of other
    # sinks, made before or in between, must not show), through the grouped and the to-graph entry points
    from pyjelly.integrations.generic.parse import parse_jelly_grouped, parse_jelly_to_graph
    for (cls, o, st), b in zip(work, alone):
        if not (o.ns and b and o.delim):
            continue
        want_ns = [(p, term_text(i)) for p, i in _c12_bindings(st)]
        try:
            sinks = list(parse_jelly_grouped(io.BytesIO(b)))
            whole = parse_jelly_to_graph(io.BytesIO(b))
        except Exception as e:  # noqa: BLE001
            ctx.fail(f"generic grouped / to-graph parse of pyjelly's own output raised {type(e).__name__}", dict(bytes=b.hex()))
            continue
        got_first = [(p, term_text(i)) for p, i in (sinks[0].namespaces if sinks else [])]
        got_rest = [(p, term_text(i)) for sk in sinks[1:] for p, i in sk.namespaces]
        got_whole = [(p, term_text(i)) for p, i in whole.namespaces]
        ctx.dist["sinks_read_back_with_bindings"] += 1
        if got_first != want_ns or got_rest or got_whole != want_ns:
            ctx.fail("a sink read back carries namespace bindings that its stream did not declare (or lacks declared ones)",
                     dict(bytes=b.hex(), declared=want_ns, first_sink=got_first, later_sinks=got_rest[:6], to_graph=got_whole))
    # (0c) the bytes depend on the statements, not on which Python objects carry them: every term rebuilt as a fresh, equal
    # object (what a parser or a generator hands over) gives the same bytes
    def _fresh(t):
        if isinstance(t, IRI):
            return IRI(str(iri_s(t)))
        if isinstance(t, BlankNode):
            return BlankNode(str(bn_id(t)))
        if isinstance(t, Literal):
            return Literal("" + lit_lex(t), lit_lang(t), lit_dt(t))
        if isinstance(t, (Triple, Quad)):
            return type(t)(*[_fresh(x) for x in t])
        return t
    fresh_work = [(cls, o, [_fresh(x) for x in st]) for cls, o, st in work]
    fresh = _c12_bytes(fresh_work)
    ctx.dist["rerun_with_fresh_equal_objects"] += len(work)
    if fresh != alone:
        ctx.fail("bytes differ when the same statements are carried by other (equal) Python objects",
                 dict(index=[i for i, (a, b) in enumerate(zip(alone, fresh)) if a != b][:5],
                      request=[q for q, a, b in zip(reqs, alone, fresh) if a != b][:1]))
    # (1) prior history: abandoned streams, then again
    for cls, o, st in work[:6]:
        try:
            s, _ = impl.make_stream(cls, o)
            it = gser.stream_frames(s, (x for x in st))
            next(it, None)  # abandon mid-way
        except Exception:  # noqa: BLE001
            pass
    again = _c12_bytes(work)
    ctx.dist["rerun_after_abandoned_streams"] += len(work)
    if again != alone:
        ctx.fail("bytes differ after other streams were created and abandoned", dict(index=[i for i, (a, b) in enumerate(zip(alone, again)) if a != b][:5]))
    # (2) interleaved generator steps of several serializers and parsers
    for trial in range(ctx.n(10, 100)):
        idx = r.sample(range(len(work)), min(4, len(work)))
        gens, outs = {}, {}
        for i in idx:
            cls, o, st = work[i]
            try:
                s, _ = impl.make_stream(cls, o)
            except Exception:  # noqa: BLE001
                continue
            data, is_sink = _c12_data(cls, o, st)
            gens[("ser", i)] = gser.stream_frames(s, data if is_sink else (x for x in st))
            outs[("ser", i)] = []
            if alone[i] and o.delim:
                gens[("par", i)] = parse_jelly_flat(io.BytesIO(alone[i]))
                outs[("par", i)] = []
        live = list(gens)
        while live:
            k = r.choice(live)
            try:
                outs[k].append(next(gens[k]))
            except StopIteration:
                live.remove(k)
            except Exception as e:  # noqa: BLE001
                outs[k].append(_Err(type(e).__name__))
                live.remove(k)
        for (kind, i), v in outs.items():
            cls, o, st = work[i]
            ctx.dist["interleaved_" + kind] += 1
            if kind == "ser":
                frames = [f for f in v if not isinstance(f, _Err)]
                if impl.frames_bytes(frames, o.delim) != alone[i] and not any(isinstance(f, _Err) for f in v):
                    ctx.fail("interleaved serialization differs from serialization alone", dict(request=reqs[i]))
            else:
                want = impl.run_par("flat", False, "seek", alone[i])
                got = events_text([e for e in v if not isinstance(e, _Err)]) + " " + ("end" if not any(isinstance(e, _Err) for e in v) else "!" + v[-1].name)
                if got != want:
                    ctx.fail("interleaved parse differs from parse alone", dict(bytes=alone[i].hex()))
    # (3) threads
    results: dict[int, list[bytes]] = {}

    def worker(t):
        results[t] = _c12_bytes(work)

    ths = [threading.Thread(target=worker, args=(t,)) for t in range(ctx.n(4, 8))]
    for t in ths:
        t.start()
    for t in ths:
        t.join()
    for t, v in results.items():
        ctx.dist["thread_runs"] += 1
        if v != alone:
            ctx.fail("serialization in a thread differs from serialization alone", dict(thread=t))
    # (3b) the same under a 1 µs switch interval (a thread switch is possible between any two bytecodes), each thread
    # writing its own mix of triple and quad streams
    old_interval = sys.getswitchinterval()
    sys.setswitchinterval(1e-6)
    try:
        results.clear()
        rounds = ctx.n(3, 12)

        def worker2(t):
            sub = work[t % 3::3] or work
            want = [alone[i] for i in range(t % 3, len(work), 3)] or alone
            bad = 0
            for _ in range(rounds):
                if _c12_bytes(sub) != want:
                    bad += 1
            results[t] = bad

        ths = [threading.Thread(target=worker2, args=(t,)) for t in range(6)]
        for t in ths:
            t.start()
        for t in ths:
            t.join()
    finally:
        sys.setswitchinterval(old_interval)
    for t, bad in results.items():
        ctx.dist["thread_runs_fine_grained"] += rounds
        if bad:
            ctx.fail("serialization in a thread (1 µs switch interval) differs from serialization alone", dict(thread=t, bad_rounds=bad, rounds=rounds))
    _c12_rdflib_parsers(ctx, r)
    _c12_rdflib_serializers(ctx, r)
    _c12_rdflib_defaults(ctx, r)
    # (4) fresh processes with different hash seeds
    digest = hashlib.sha256(b"".join(len(b).to_bytes(4, "big") + b for b in alone)).hexdigest()
    code = ("import sys; sys.path.insert(0, %r); import props, hashlib; "
            "w = props._c12_workload(%d, %d); b = props._c12_bytes(w); "
            "print(hashlib.sha256(b''.join(len(x).to_bytes(4, 'big') + x for x in b)).hexdigest())") % (
                os.path.dirname(os.path.abspath(__file__)), ctx.seed, len(work))
    for hs in (["0", "1", "2", "12345"] if ctx.quick() else ["0", "1", "2", "3", "7", "12345", "random", "4294967295"]):
        env = dict(os.environ, PYTHONHASHSEED=hs)
        p = subprocess.run([sys.executable, "-c", code], capture_output=True, text=True, env=env, timeout=600, check=False)
        ctx.dist["hash_seed_runs"] += 1
        out = p.stdout.strip().split("\n")[-1] if p.stdout.strip() else ""
        if p.returncode != 0:
            raise RuntimeError("C12 subprocess failed: " + p.stderr[-1000:])
        if out != digest:
            ctx.fail(f"bytes differ under PYTHONHASHSEED={hs}", dict(hash_seed=hs))
    # (5) static frame condition: module/class level mutable objects of pyjelly are never mutated
    hits = _c12_static_scan()
    ctx.extra["static_scan"] = dict(shared_mutable_bindings=hits["bindings"], mutation_sites=hits["mutations"])
    if hits["mutations"]:
        ctx.fail("a module- or class-level mutable object of pyjelly is mutated at run time", dict(sites=hits["mutations"]))


_NONCANONICAL = [("04", gen.XSD + "integer"), ("+7", gen.XSD + "integer"), ("1.50", gen.XSD + "decimal"), ("1.0E0", gen.XSD + "double"),
                 ("1", gen.XSD + "boolean"), (" 1 ", gen.XSD + "int")]


def _c12_rdflib_parsers(ctx: Ctx, r) -> None:
    """Two or three rdflib parsers alive at once, on streams of the same physical type and EQUAL options, stepped in a
    random interleaving: each must yield what it yields alone (flat and grouped; TRIPLES / QUADS / GRAPHS)."""
    import rimpl
    from pyjelly.integrations.rdflib.parse import parse_jelly_flat as rflat, parse_jelly_grouped as rgrouped

    def alone_flat(b):
        return [rimpl.rdflib_events_text([e]) for e in rflat(io.BytesIO(b))]

    def alone_grouped(b):
        return [sorted(rimpl.store_quads(g)) for g in rgrouped(io.BytesIO(b))]

    import rdflib

    for trial in range(ctx.n(12, 120)):
        cls = r.choice("TQGG")
        o = Opts(fs=r.choice([1, 2, 250]), lt=0, gen=False, star=False, delim=True, pn=16, pp=8, pd=8)
        flag_before = rdflib.NORMALIZE_LITERALS
        files = []
        for j in range(r.choice([2, 2, 3])):
            stmts = _rdf11_statements(r, cls, o, r.randint(2, 6))
            # typed literals in legal but non-canonical lexical forms, early and late in the file (what a process-wide rdflib
            # setting flipped by ANOTHER parser would rewrite)
            for pos, (lex, dt) in ((1, r.choice(_NONCANONICAL)), (len(stmts), r.choice(_NONCANONICAL))):
                extra = (IRI(f"http://c12/s{pos}"), IRI("http://c12/p"), Literal(lex, datatype=dt))
                stmts.insert(min(pos, len(stmts)), Triple(*extra) if cls == "T" else Quad(*extra, stmts[0][3] if stmts else DefaultGraph))
            if j and r.random() < 0.3:
                stmts = files[0][0]
            line, b = impl.run_ser_frames(cls, o, stmts, is_sink=False)
            if line.endswith(" end") and b:
                files.append((stmts, b))
        if len(files) < 2:
            continue
        for mode, mk, solo in (("flat", lambda b: (rimpl.rdflib_events_text([e]) for e in rflat(io.BytesIO(b))), alone_flat),
                               ("grouped", lambda b: (sorted(rimpl.store_quads(g)) for g in rgrouped(io.BytesIO(b))), alone_grouped)):
            try:
                want = [solo(b) for _, b in files]
            except Exception as e:  # noqa: BLE001
                ctx.fail(f"rdflib {mode} parser raised {type(e).__name__} on pyjelly's own output", dict(bytes=files[0][1].hex()))
                continue
            gens = [mk(b) for _, b in files]
            outs = [[] for _ in files]
            live = list(range(len(files)))
            while live:
                k = r.choice(live)
                try:
                    outs[k].append(next(gens[k]))
                except StopIteration:
                    live.remove(k)
                except Exception as e:  # noqa: BLE001
                    outs[k].append("!" + type(e).__name__)
                    live.remove(k)
            ctx.case(("rdflib-parsers", mode, cls, tuple(b.hex() for _, b in files)), True)
            ctx.dist[f"interleaved_rdflib_parsers:{mode}:{cls}"] += 1
            for k, (got, w) in enumerate(zip(outs, want)):
                if got != w:
                    ctx.fail(f"rdflib {mode} parser of a {cls} stream is affected by another parser active at the same time",
                             dict(bytes=[b.hex() for _, b in files], index=k, got=str(got)[:400], want=str(w)[:400]))
            if rdflib.NORMALIZE_LITERALS != flag_before:
                ctx.fail(f"parsing changed the process-wide rdflib.NORMALIZE_LITERALS from {flag_before} to {rdflib.NORMALIZE_LITERALS} "
                         "(every later parser and every other user of rdflib in the process is affected)", dict(mode=mode, cls=cls))
                rdflib.NORMALIZE_LITERALS = flag_before


def _c12_rdflib_defaults(ctx: Ctx, r) -> None:
    """rdflib entry points with options=None (everything guessed): the same statements give the same bytes whatever fresh
    Graph / generator object carries them, in this process and under other hash seeds."""
    import os
    import subprocess
    import sys

    import rdflib

    from pyjelly.integrations.rdflib import serialize as rser

    def one_triple_graph(k):
        g = rdflib.Graph()
        g.add((rdflib.URIRef(f"http://d/s{k}"), rdflib.URIRef("http://d/p"), rdflib.Literal(str(k))))
        return g

    def flat_bytes(k):
        out = io.BytesIO()
        data = [(rdflib.URIRef(f"http://d/s{j}"), rdflib.URIRef("http://d/p"), rdflib.Literal(str(j))) for j in range(k)]
        rser.flat_stream_to_file((x for x in data), out)
        return out.getvalue()

    def plugin_bytes(k):
        out = io.BytesIO()
        one_triple_graph(k).serialize(destination=out, format="jelly")
        return out.getvalue()

    def grouped_bytes(k):
        out = io.BytesIO()
        rser.grouped_stream_to_file((one_triple_graph(j) for j in range(k)), out)
        return out.getvalue()

    import hashlib
    for name, fn in (("flat_stream_to_file", flat_bytes), ("Graph.serialize", plugin_bytes), ("grouped_stream_to_file", grouped_bytes)):
        for k in (1, 3):
            a, b = fn(k), fn(k)
            ctx.case(("rdflib-defaults", name, k), True)
            ctx.dist["rdflib_default_option_runs"] += 2
            if a != b:
                ctx.fail(f"rdflib {name} with guessed options: two runs over the same statements write different bytes",
                         dict(entry=name, first=a.hex()[:300], second=b.hex()[:300]))
    digest = _c12_rdflib_defaults_digest()
    # the default graph named by the rdflib constant and by an equal URIRef built from its string: same bytes
    from rdflib.graph import DATASET_DEFAULT_GRAPH_ID as _DG
    from pyjelly.integrations.rdflib import parse as _rparse

    def quad_bytes(gname):
        out = io.BytesIO()
        qs = [_rparse.Quad(rdflib.URIRef(f"http://d/s{j}"), rdflib.URIRef("http://d/p"), rdflib.Literal(str(j)), gname if j % 2 == 0 else rdflib.URIRef("http://d/g")) for j in range(4)]
        rser.flat_stream_to_file((x for x in qs), out)
        return out.getvalue()
    ctx.case(("rdflib-default-graph-by-value",), True)
    if quad_bytes(_DG) != quad_bytes(rdflib.URIRef(str(_DG))):
        ctx.fail("rdflib: quads in the default graph are written differently when the graph name is an equal URIRef that is not the constant object",
                 dict(constant=quad_bytes(_DG).hex()[:200], equal_uriref=quad_bytes(rdflib.URIRef(str(_DG))).hex()[:200]))
    code = ("import sys; sys.path.insert(0, %r); import common, props, framework, hashlib; "
            "ctx = framework.Ctx('C12', 'quick', 0); print(props._c12_rdflib_defaults_digest())") % os.path.dirname(os.path.abspath(__file__))
    for hs in ("0", "7", "random"):
        p_ = subprocess.run([sys.executable, "-c", code], capture_output=True, text=True, env=dict(os.environ, PYTHONHASHSEED=hs), timeout=300, check=False)
        out = p_.stdout.strip().split("\n")[-1] if p_.stdout.strip() else ""
        ctx.dist["rdflib_default_hash_seed_runs"] += 1
        if p_.returncode != 0:
            raise RuntimeError("C12 subprocess failed: " + p_.stderr[-800:])
        if out != digest:
            ctx.fail(f"rdflib entry points with guessed options: bytes differ in a fresh process (PYTHONHASHSEED={hs})", dict(hash_seed=hs))


def _c12_rdflib_defaults_digest() -> str:
    import hashlib

    import rdflib

    from pyjelly.integrations.rdflib import serialize as rser

    def g1(k):
        g = rdflib.Graph()
        g.add((rdflib.URIRef(f"http://d/s{k}"), rdflib.URIRef("http://d/p"), rdflib.Literal(str(k))))
        return g

    out1 = io.BytesIO()
    rser.flat_stream_to_file(((rdflib.URIRef(f"http://d/s{j}"), rdflib.URIRef("http://d/p"), rdflib.Literal(str(j))) for j in range(3)), out1)
    out2 = io.BytesIO()
    g1(2).serialize(destination=out2, format="jelly")
    out3 = io.BytesIO()
    rser.grouped_stream_to_file((g1(j) for j in range(2)), out3)
    # a one-triple Graph / Dataset with several bound namespaces, declarations ON: the declaration rows (and the lookup ids
    # they create) must come in the store's own binding order, whatever the hash seed
    from pyjelly.options import StreamParameters
    from pyjelly.serialize.streams import SerializerOptions
    outs = []
    for store in (g1(5), rdflib.Dataset()):
        if isinstance(store, rdflib.Dataset):
            store.add((rdflib.URIRef("http://d/s"), rdflib.URIRef("http://d/p"), rdflib.Literal("o"), rdflib.URIRef("http://d/g")))
        for j, label in enumerate(["zeta", "alpha", "mid", "b2", "x9", "omega"]):
            store.bind(label, rdflib.URIRef(f"http://ns{j}.example/{label}#"))
        o4 = io.BytesIO()
        store.serialize(destination=o4, format="jelly", options=SerializerOptions(params=StreamParameters(namespace_declarations=True)))
        outs.append(o4.getvalue())
    return hashlib.sha256(out1.getvalue() + out2.getvalue() + out3.getvalue() + b"".join(outs)).hexdigest()


def _c12_rdflib_serializers(ctx: Ctx, r) -> None:
    """Two to four rdflib serializers (and a parser) alive at once, their generators stepped in a random interleaving,
    some sharing ONE options object: each writes the bytes it writes alone."""
    import rimpl
    from pyjelly.integrations.rdflib import parse as rparse, serialize as rser

    for trial in range(ctx.n(15, 150)):
        works = []
        shared = None
        for j in range(r.randint(2, 4)):
            cls = r.choice("TQ")
            o = Opts(fs=r.choice([1, 2, 5, 250]), lt=0, gen=False, star=False, delim=True, ns=False, pn=r.choice([16, 128]), pp=r.choice([0, 4]), pd=4)
            stmts = _rdf11_statements(r, cls, o, r.randint(2, 8))
            data = [tuple(rimpl.to_rdflib(t) for t in st) for st in stmts]
            if cls != "T":
                data = [rparse.Quad(*x) for x in data]
            try:
                if shared is not None and r.random() < 0.4:
                    so = shared  # the same SerializerOptions object handed to two streams
                else:
                    so = o.real()
                    shared = so
                alone_stream = rimpl.STREAMS[cls].for_rdflib(options=so)
                alone = [f.SerializeToString() for f in rser.stream_frames(alone_stream, (x for x in data))]
                works.append((cls, so, data, alone))
            except Exception as e:  # noqa: BLE001
                ctx.fail(f"rdflib serializer raised {type(e).__name__} on RDF 1.1 data", dict(opts=o.describe()))
        gens, outs = {}, {}
        for k, (cls, so, data, alone) in enumerate(works):
            gens[k] = rser.stream_frames(rimpl.STREAMS[cls].for_rdflib(options=so), (x for x in data))
            outs[k] = []
        live = list(gens)
        while live:
            k = r.choice(live)
            try:
                outs[k].append(next(gens[k]).SerializeToString())
            except StopIteration:
                live.remove(k)
            except Exception as e:  # noqa: BLE001
                outs[k].append(b"!" + type(e).__name__.encode())
                live.remove(k)
        ctx.case(("rdflib-serializers", trial, tuple(len(w[2]) for w in works)), True)
        ctx.dist["interleaved_rdflib_serializers"] += len(works)
        for k, (cls, so, data, alone) in enumerate(works):
            if outs[k] != alone:
                ctx.fail("rdflib serializer interleaved with other serializers writes different frames than alone",
                         dict(index=k, cls=cls, alone=[x.hex() for x in alone][:4], interleaved=[x.hex() for x in outs[k]][:4]))


def _c12_static_scan() -> dict:
    import ast
    from pathlib import Path

    import common

    root = Path(common.REPO) / "pyjelly"
    bindings, mutations = [], []
    names: set[str] = set()
    trees = {}
    for p in sorted(root.rglob("*.py")):
        if "jelly/rdf_pb2" in str(p):
            continue
        try:
            trees[p] = ast.parse(p.read_text())
        except SyntaxError:
            continue
    mutable = (ast.Dict, ast.List, ast.Set, ast.DictComp, ast.ListComp, ast.SetComp)

    def is_mutable(v):
        if isinstance(v, mutable):
            return True
        return isinstance(v, ast.Call) and isinstance(v.func, ast.Name) and v.func.id in ("dict", "list", "set", "OrderedDict", "deque", "defaultdict")

    for p, tree in trees.items():
        scopes = [tree] + [n for n in ast.walk(tree) if isinstance(n, ast.ClassDef)]
        for sc in scopes:
            for st in sc.body:
                tgt, val = None, None
                if isinstance(st, ast.Assign) and len(st.targets) == 1 and isinstance(st.targets[0], ast.Name):
                    tgt, val = st.targets[0].id, st.value
                elif isinstance(st, ast.AnnAssign) and isinstance(st.target, ast.Name) and st.value is not None:
                    tgt, val = st.target.id, st.value
                if tgt and val is not None and is_mutable(val):
                    bindings.append(f"{p.relative_to(root.parent)}:{st.lineno}:{tgt}")
                    names.add(tgt)
    mut_methods = {"append", "extend", "update", "add", "pop", "popitem", "clear", "remove", "insert", "setdefault", "discard", "appendleft"}
    for p, tree in trees.items():
        for n in ast.walk(tree):
            base = None
            if isinstance(n, (ast.Assign, ast.AugAssign, ast.Delete)):
                tgts = n.targets if isinstance(n, (ast.Assign, ast.Delete)) else [n.target]
                for t in tgts:
                    if isinstance(t, ast.Subscript):
                        base = t.value
            if isinstance(n, ast.Call) and isinstance(n.func, ast.Attribute) and n.func.attr in mut_methods:
                base = n.func.value
            if base is None:
                continue
            nm = base.id if isinstance(base, ast.Name) else (base.attr if isinstance(base, ast.Attribute) else None)
            if nm in names and nm.isupper() or (nm in names and nm == "registry"):
                mutations.append(f"{p.relative_to(root.parent)}:{n.lineno}:{nm}")
    return dict(bindings=bindings, mutations=mutations)


# ---------------------------------------------------------------------------------------------
# C18 / C20 (writer under stress; the Lean referee judges the real bytes)
# ---------------------------------------------------------------------------------------------

def _overflowing_statement(r, g, cls: str, which: str, k: int):
    """A statement that needs `k` distinct entries of table `which` (prefix / name / datatype)."""
    if which == "datatype":
        dts = r.sample(gen.DTS[:-1] + ["urn:dt:3", "urn:dt:4", "urn:dt:5"], k)
        lits = [Literal(r.choice(gen.LEX), datatype=d) for d in dts]
        terms = (lits + [g.iri(), g.iri(), g.iri()])[:3]
        if k >= 3:
            terms = lits[:3]
        elif k == 2:
            terms = [lits[0], g.iri(), lits[1]]
        st = list(terms)
    elif which == "prefix":
        pf = r.sample(gen.PREFIXES[:4] + ["http://p5/", "http://p6/", "http://p7#", "http://p8/"], min(k, 8))
        iris = [IRI(p + r.choice(["a", "b", "c"])) for p in pf]
        if len(iris) >= 3 and r.random() < 0.4:
            # a key that comes back later in the same row (A, B, …, A, …, C): the row's entries are then not simply the
            # tail of the recency order that starts at the row's first key
            iris = iris[:-1] + [IRI(pf[r.randrange(len(pf) - 1)] + "again")] + iris[-1:]
            if cls != "T" and len(iris) == 4:
                return Quad(*iris)
        st = _pack_iris(iris)
    else:
        iris = [IRI("http://n/" + f"name{j}") for j in r.sample(range(60), k)]
        if len(iris) >= 3 and r.random() < 0.4:
            iris = iris[:-1] + [iris[r.randrange(len(iris) - 1)]] + iris[-1:]
        st = _pack_iris(iris)
    if cls != "T":
        st = st + [g.term("g")] if len(st) == 3 else st
    return (Quad if cls != "T" else Triple)(*st[: (4 if cls != "T" else 3)])


def _pack_iris(iris):
    """Put any number of IRIs into s/p/o using nested quoted triples."""
    iris = list(iris)
    while len(iris) < 3:
        iris.append(iris[-1])
    if len(iris) == 3:
        return iris

    def build(xs):
        if len(xs) <= 3:
            xs = xs + [xs[-1]] * (3 - len(xs))
            return Triple(*xs)
        third = max(1, len(xs) // 3)
        a, b, c = xs[:third], xs[third:2 * third], xs[2 * third:]
        mk = lambda part: part[0] if len(part) == 1 else build(part)  # noqa: E731
        return Triple(mk(a), mk(b), mk(c))

    t = build(iris)
    return [t.s, t.p, t.o]


def check_C18(ctx: Ctx) -> None:
    r = ctx.rng("overflow")
    cases = []
    for i in range(ctx.n(300, 3000)):
        cls = r.choice("TQG")
        which = r.choice(["prefix", "datatype", "name"])
        if which == "name":
            pn, pp, pd = r.choice([8, 9, 12, 16, 26]), r.choice([0, 4, 16]), 4
            k = pn + r.choice([-1, 0, 1, 2, 3])
        elif which == "prefix":
            pn, pp, pd = 16, r.choice([1, 2, 3]), 4
            k = pp + r.choice([0, 1, 1, 2, 3])
        else:
            pn, pp, pd = 16, 8, r.choice([1, 2, 3])
            k = min(3, pd + r.choice([0, 1, 1, 2]))
        o = Opts(fs=r.choice([1, 3, 250]), lt=0, gen=True, star=True, delim=r.random() < 0.8, pn=pn, pp=pp, pd=pd)
        g = gen.G(r, typed=True, n_prefixes=2, n_names=4)
        pre = [s for s in g.statements(r.randint(0, 3), cls != "T") if gen.fits([s], pn, pp, pd)]
        big = _overflowing_statement(r, g, cls, which, max(1, k))
        post = [s for s in g.statements(r.randint(0, 3), cls != "T") if gen.fits([s], pn, pp, pd)]
        stmts = pre + [big] + post
        resp, b = impl.run_ser_frames(cls, o, stmts, is_sink=False)
        req = f"ser {cls} frames {o.token()} gen:{stmts_text(stmts)}"
        cases.append(dict(cls=cls, o=o, stmts=stmts, req=req, resp=resp, bytes=b, which=which,
                          overflows=not gen.fits([big], pn, pp, pd)))
    model = ctx.corr("SER", [c["req"] for c in cases], [c["resp"] for c in cases])
    todo = [c for c in cases if c["resp"].startswith("ok ") and c["resp"].endswith(" end") and c["bytes"]]
    got = __import__("common").run_driver([spec_line(c["bytes"], c["o"].delim) for c in todo])
    model_by_req = {c["req"]: m for c, m in zip(cases, model)}
    for c in cases:
        ctx.dist[f"table:{c['which']}"] += 1
        ctx.dist["overflowing" if c["overflows"] else "fitting"] += 1
        ctx.case((c["req"]), c["overflows"], sample=dict(table=c["which"], preset=[c["o"].pn, c["o"].pp, c["o"].pd], statements=stmts_text(c["stmts"])[:300]))
        if not (c["resp"].startswith("ok ") and c["resp"].endswith(" end")):
            ctx.dist["writer_raised"] += 1
    for c, line in zip(todo, got):
        verdict, evs, _ = parse_spec_response(line)
        want_st = expected_events(c["stmts"], "T" if c["cls"] == "T" else "Q")
        want = "_" if not want_st else " ".join("S" + stmt_text(s) for s in want_st)
        if verdict == "ok" and _norm_text(evs) == _norm_text(want):
            continue
        ctx.fail(f"written file decodes to different data ({verdict})",
                 dict(request=c["req"], referee=line[:1200], want=want[:1200]))
    _c18_rdflib(ctx, r)
    _continue_after_refusal(ctx, ctx.rng("continue"), ctx.n(60, 600), "too-big")


def _c18_rdflib(ctx: Ctx, r) -> None:
    """The rdflib integration under tiny datatype / prefix tables: generalized statements fed as rdflib tuples, with
    explicit xsd:string literals (which need no datatype entry) next to as many other datatypes as the table holds."""
    import rimpl

    XS = rimpl.XSD_STRING
    cases = []
    for i in range(ctx.n(120, 1200)):
        cls = r.choice("TQ")
        pd = r.choice([1, 2, 3])
        pp = r.choice([1, 2, 8])
        o = Opts(fs=r.choice([1, 3, 250]), lt=0, gen=True, star=False, delim=True, pn=16, pp=pp, pd=pd)
        dts = r.sample(["urn:dt:1", "urn:dt:2", "urn:dt:3", "http://www.w3.org/2001/XMLSchema#integer"], 3)
        stmts = []
        for j in range(r.randint(1, 4)):
            k = min(2, pd) if r.random() < 0.7 else min(3, pd + r.choice([0, 1]))
            lits = [Literal(r.choice(["a", "0", "", "x y"]), datatype=d) for d in r.sample(dts, k)]
            slots = [Literal(r.choice(["a", "s", ""]), datatype=XS)] + lits
            while len(slots) < 3:
                slots.append(IRI("http://c18/" + r.choice("abc")))
            r.shuffle(slots)
            st = slots[:3]
            if not isinstance(st[1], (IRI, Literal)):
                continue
            stmts.append(Triple(*st) if cls == "T" else Quad(*st, r.choice([DefaultGraph, IRI("http://c18/g")])))
        if not stmts:
            continue
        data = [tuple(rimpl.to_rdflib(t) for t in st) for st in stmts]
        try:
            req, resp, b = rimpl.run_serr(cls, o, data)
        except Exception as e:  # noqa: BLE001
            ctx.fail(f"rdflib serializer harness raised {type(e).__name__}: {e}", dict(statements=stmts_text(stmts)[:400]))
            continue
        cases.append(dict(cls=cls, o=o, stmts=stmts, req=req, resp=resp, bytes=b,
                          overflows=not all(gen.fits([x], o.pn, o.pp, o.pd) for x in stmts)))
    model = ctx.corr("SERR", [c["req"] for c in cases], [c["resp"] for c in cases])
    todo = [c for c in cases if c["resp"].startswith("ok ") and c["resp"].endswith(" end") and c["bytes"]]
    got = __import__("common").run_driver([spec_line(c["bytes"], True) for c in todo])
    model_by_req = {c["req"]: m for c, m in zip(cases, model)}
    for c in cases:
        ctx.dist["rdflib:" + ("overflowing" if c["overflows"] else "fitting")] += 1
        ctx.case(("rdflib", c["req"]), c["overflows"])
    for c, line in zip(todo, got):
        verdict, evs, _ = parse_spec_response(line)
        want = " ".join("S" + stmt_text(x) for x in expected_events(c["stmts"], c["cls"]))
        if verdict == "ok" and _norm_text(evs) == _norm_text(want):  # "a"^^xsd:string and the plain "a" are the same term
            continue
        ctx.fail(f"file written by the rdflib serializer decodes to different data ({verdict})",
                 dict(request=c["req"][:1500], referee=line[:1200], want=want[:1200]))


def _tiny_prefix_tables(ctx: Ctx, r, n: int, integrations=("generic", "rdflib")) -> None:
    """Statements whose IRIs come from more namespaces than the prefix table has slots (1..3), mixed so that a row RE-USES a
    resident prefix and then needs new ones: the writer must refuse such a row or write something that decodes to the input
    (a reused entry that is not kept for the rest of its row is evicted under the row's feet). Bytes are compared with the
    model; the real bytes go to the Lean referee."""
    import rimpl

    cases = []
    for i in range(n):
        cls = r.choice("TQ")
        pp = r.choice([1, 2, 3])
        o = Opts(fs=r.choice([1, 3, 250]), lt=0, gen=False, star=False, delim=r.random() < 0.8, pn=16, pp=pp, pd=4)
        spaces = [f"http://n{j}.example/" for j in range(pp + 2)]
        stmts, prev = [], None
        for j in range(r.randint(2, 6)):
            # a walk over namespaces in which the first term tends to come back to the namespace the previous row ended in
            first = prev if prev is not None and r.random() < 0.6 else r.choice(spaces)
            use = [first] + [r.choice(spaces) for _ in range(3)]
            terms = [IRI(use[k] + r.choice("abc") + str(r.randint(0, 2))) for k in range(4)]
            prev = use[2]
            stmts.append(Triple(*terms[:3]) if cls == "T" else Quad(*terms[:3], r.choice([DefaultGraph, terms[3]])))
        integ = r.choice(integrations)
        try:
            if integ == "rdflib":
                data = [tuple(rimpl.to_rdflib(t) for t in st) for st in stmts]
                req, resp, b = rimpl.run_serr(cls, o, data)
            else:
                resp, b = impl.run_ser_frames(cls, o, stmts, is_sink=False)
                req = f"ser {cls} frames {o.token()} gen:{stmts_text(stmts)}"
        except Exception as e:  # noqa: BLE001
            ctx.fail(f"serializer harness raised {type(e).__name__}: {e}", dict(statements=stmts_text(stmts)[:400]))
            continue
        cases.append(dict(cls=cls, o=o, stmts=stmts, req=req, resp=resp, bytes=b, integ=integ,
                          overflows=not all(gen.fits([x], o.pn, o.pp, o.pd) for x in stmts)))
    for integ, suite in (("generic", "SER"), ("rdflib", "SERR")):
        sub = [c for c in cases if c["integ"] == integ]
        ctx.corr(suite, [c["req"] for c in sub], [c["resp"] for c in sub])
    todo = [c for c in cases if c["resp"].startswith("ok ") and c["resp"].endswith(" end") and c["bytes"]]
    got = __import__("common").run_driver([spec_line(c["bytes"], c["o"].delim) for c in todo])
    for c in cases:
        ctx.dist[f"tiny-prefix-table:{c['integ']}:" + ("overflowing" if c["overflows"] else "fitting")] += 1
        ctx.case(("tiny-prefix", c["req"]), c["overflows"])
        if not (c["resp"].startswith("ok ") and c["resp"].endswith(" end")):
            ctx.dist["tiny-prefix-table:writer_refused"] += 1
    for c, line in zip(todo, got):
        verdict, evs, _ = parse_spec_response(line)
        want = " ".join("S" + stmt_text(x) for x in expected_events(c["stmts"], c["cls"]))
        if verdict == "ok" and _norm_text(evs) == _norm_text(want):
            continue
        ctx.fail(f"a row needing more prefixes than the table holds was written, and the file decodes to different data ({verdict}; {c['integ']} serializer)",
                 dict(request=c["req"][:1500], referee=line[:1200], want=want[:1200]))


def _tables_larger_than_names(ctx: Ctx, r, n: int, integrations=("generic", "rdflib")) -> None:
    """Presets whose prefix and datatype tables are larger than the name table (8 / 16 / 16, 9 / 12 / 20) and streams that USE
    more prefixes and datatypes than the name table has slots: ids above the name-table size must resolve on the reader (a
    reader that sizes one table by another table's declared size fails here and nowhere else)."""
    import rimpl

    for i in range(n):
        pn, pp, pd = r.choice([(8, 16, 16), (9, 12, 20), (8, 4096, 32)])
        cls = r.choice("TQ")
        o = Opts(fs=r.choice([1, 7, 250]), lt=0, gen=False, star=False, delim=r.random() < 0.8, pn=pn, pp=pp, pd=pd)
        n_ns, n_dt = min(pp, 14), min(pd, 14)
        spaces = [f"http://big{j}.example/ns#" for j in range(n_ns)]
        dts = [f"urn:dt:big{j}" for j in range(n_dt)]
        stmts = []
        for j in range(max(n_ns, 2 * n_dt) + r.randint(0, 4)):
            s_ = IRI(spaces[j % n_ns] + r.choice("ab"))
            o_ = Literal(str(j), datatype=dts[(j // 2) % n_dt]) if j % 2 == 0 else IRI(spaces[(j * 5 + 1) % n_ns] + "c")
            st = (s_, IRI(spaces[(j + 3) % n_ns] + "p"), o_)
            stmts.append(Triple(*st) if cls == "T" else Quad(*st, r.choice([DefaultGraph, IRI(spaces[(j + 7) % n_ns] + "g")])))
        integ = r.choice(integrations)
        if integ == "rdflib":
            data = [tuple(rimpl.to_rdflib(t) for t in st) for st in stmts]
            req, resp, b = rimpl.run_serr(cls, o, data)
        else:
            resp, b = impl.run_ser_frames(cls, o, stmts, is_sink=False)
        ctx.case(("tables-larger-than-names", integ, cls, o.token()), True)
        ctx.dist[f"tables_larger_than_names:{integ}"] += 1
        if not (resp.startswith("ok ") and resp.endswith(" end")) or not b:
            ctx.fail(f"{integ} writer raised on statements that fit a {pn}/{pp}/{pd} preset ({resp[-40:]})", dict(opts=o.describe()))
            continue
        want = [stmt_text(gen.normalize_stmt(x)) for x in expected_events(stmts, cls)]
        got_g = [stmt_text(x) for x in real_parse_flat_safe(b)]
        got_r = [e[1:] for e in rimpl.run_par_flat(False, "seek", b).split(" ") if e.startswith("S")]
        line_r = rimpl.run_par_flat(False, "seek", b)
        if [_norm_text(x) for x in got_g] != [_norm_text(x) for x in want]:
            ctx.fail(f"{pn}/{pp}/{pd} tables, ids above the name-table size: the generic reader does not return what the {integ} writer wrote",
                     dict(opts=o.describe(), bytes=b.hex()[:3000], got=got_g[-3:], want=want[-3:]))
        elif not line_r.endswith(" end") or [_norm_text(x) for x in got_r] != [_norm_text(x) for x in want]:
            ctx.fail(f"{pn}/{pp}/{pd} tables, ids above the name-table size: the rdflib reader does not return what the {integ} writer wrote",
                     dict(opts=o.describe(), bytes=b.hex()[:3000], got=line_r[-200:], want=want[-3:]))


def _continue_after_refusal(ctx: Ctx, r, n: int, mode: str) -> None:
    """A Triple/QuadStream driven statement by statement (catch and continue), with statements the writer refuses in between:
    mode 'unsupported' — a new table-free subject, the previous predicate again, then an object Jelly cannot carry, and afterwards
    a statement with that same subject; mode 'too-big' — a statement needing one prefix more than the (1..2 slot) table holds,
    refused after it had changed the tables, and afterwards statements re-using its IRIs. What was written must be valid for
    the referee and denote exactly the statements whose call returned normally (a stream that refuses everything afterwards is
    fine). Bytes of every step are compared with the model."""
    import common

    reqs, resp, metas = [], [], []
    for i in range(n):
        cls = r.choice("TQ")
        if mode == "too-big":
            pp = r.choice([1, 2])
            o = Opts(fs=r.choice([1, 3, 250]), lt=0, gen=True, star=True, delim=True, pn=16, pp=pp, pd=4)
            spaces = [f"http://ov{j}.example/" for j in range(pp + 2)]
            mk = lambda k: IRI(spaces[k % len(spaces)] + r.choice("abc"))  # noqa: E731
            good = lambda: tuple(IRI(spaces[0] + r.choice("abc")) for _ in range(3))  # noqa: E731
            bad = lambda: tuple(mk(k) for k in range(3)) if pp == 2 else (mk(0), mk(1), mk(0))  # noqa: E731  pp+1 prefixes in one row
        else:
            o = Opts(fs=r.choice([1, 3, 250]), lt=0, gen=True, star=True, delim=True, pn=16, pp=4, pd=4)
            pred = IRI("http://ca.example/p")
            good = lambda: (BlankNode(r.choice(["s0", "s1"])), pred, Literal(r.choice("xyz")))  # noqa: E731
            bad = None
        ops, sts = [("enroll",)], []
        for j in range(r.randint(4, 8)):
            if j >= 1 and r.random() < 0.35:
                if mode == "too-big":
                    st = bad()
                else:
                    subj = BlankNode("rej%d" % j)
                    st = (subj, pred, UNSUPPORTED)
                    sts.append(st)
                    ops.append(("t" if cls == "T" else "q", st if cls == "T" else (*st, DefaultGraph)))
                    st = (subj, pred, Literal("after"))   # the same new subject, offered again in an encodable statement
            else:
                st = good()
            sts.append(st)
            ops.append(("t" if cls == "T" else "q", st if cls == "T" else (*st, DefaultGraph)))
        ops.append(("flush",))
        line = impl.run_step(cls, o, ops)
        reqs.append(f"step {cls} {o.token()} " + " ".join(impl.step_op_token(op) for op in ops))
        resp.append(line)
        toks = line.rsplit(" flow=", 1)[0].split(" ")
        accepted = [op[1] for op, t in zip(ops, toks) if op[0] in ("t", "q") and "!" not in t]
        refused = sum(1 for op, t in zip(ops, toks) if op[0] in ("t", "q") and "!" in t)
        frames = b"".join(bytes.fromhex(f[1:]) for t in toks for f in t.split("+") if f.startswith("F"))
        ctx.case((mode, reqs[-1]), refused > 0)
        ctx.dist[f"continue_after_refusal:{mode}:" + ("with_refusal" if refused else "none_refused")] += 1
        metas.append((reqs[-1], cls, accepted, frames, refused))
    model = [m.replace("~", "") for m in common.run_driver(reqs)]
    for q, a, m in zip(reqs, resp, model):
        ctx.compare("SERSTEP", q, a, m)
    got = common.run_driver([spec_line(fr, True) for _, _, _, fr, _ in metas])
    for (req, cls, accepted, frames, refused), line in zip(metas, got):
        verdict, evs, _ = parse_spec_response(line)
        want = " ".join("S" + stmt_text(x) for x in expected_events([Triple(*a) if len(a) == 3 else Quad(*a) for a in accepted], cls)) or "_"
        if verdict != "ok" or _norm_text(evs) != _norm_text(want):
            ctx.fail(f"a stream continued after {refused} refused statement(s) ({mode}): what was written is not valid / does not denote the accepted statements ({verdict})",
                     dict(request=req[:2500], referee=line[:800], want=want[:800]))


def check_C20(ctx: Ctx) -> None:
    r = ctx.rng("reject")
    reqs, resp, metas = [], [], []
    for i in range(ctx.n(300, 3000)):
        cls = r.choice("TQG")
        pd = r.choice([0, 4, 4])
        # every third case: a long history on small tables that are full and recycling their indices, with rejections that
        # come after the statement has already assigned entries (what a roll-back of the tables would have to undo exactly:
        # the entries, the evicted ones, and BOTH delta bases)
        recycling = i % 3 == 2
        if recycling:
            pd = r.choice([0, 2])
            o = Opts(fs=r.choice([1, 5, 250]), lt=0, gen=True, star=True, delim=True, pn=8, pp=r.choice([2, 3]), pd=pd)
        else:
            o = Opts(fs=r.choice([1, 2, 5, 250]), lt=0, gen=True, star=True, delim=True, pn=16, pp=r.choice([0, 4]), pd=pd)
        integ = "rdflib" if i % 4 == 3 else "generic"
        npf, nnm = (6, 10) if recycling else (3, 5)
        if integ == "rdflib":
            # the rdflib serializer driven statement by statement with rdflib terms (RDF 1.1 content; no quoted triples)
            o.gen = o.star = False
            g = gen.G(r, typed=pd != 0, n_prefixes=npf, n_names=nnm, star=False, generalized=False, case_langs=False)
            g.bnode = lambda: BlankNode(r.choice(["b0", "b1", "n1"]))
        else:
            g = gen.G(r, typed=pd != 0, n_prefixes=npf, n_names=nnm)
        n = r.randint(10, 20) if recycling else r.randint(2, 8)
        ops, accepted = [("enroll",)], []
        prev = None
        last_rejected = None
        for j in range(n):
            st = list(g.quad(prev) if cls == "Q" else g.triple(prev))
            if last_rejected is not None and r.random() < 0.5:
                # the statement that was just refused, offered again in an encodable form: its leading terms are what a
                # half-undone rejection would have left in the repeated-term memory
                st = list(last_rejected)
            elif integ == "generic" and r.random() < 0.3:
                # terms that do not use the lookup tables (a rejection after them leaves the stream usable)
                st[0] = BlankNode(r.choice(["t0", "t1", "t2"]))
                st[1] = prev[1] if prev is not None and r.random() < 0.6 else BlankNode(r.choice(["t0", "t1"]))
                st[2] = Literal(r.choice(["x", "y", "z"]), langtag=r.choice([None, "en"]))
            last_rejected = None
            orig = list(st)
            bad = r.random() < (0.12 if recycling else 0.35)
            cause = None
            if bad:
                cause = r.choice(["unsupported", "typed_disabled", "short"]) if pd == 0 else r.choice(["unsupported", "short", "nested"])
                if integ == "rdflib" and cause == "nested":
                    cause = "unsupported"
                if recycling and cause == "short":
                    cause = "unsupported"
                slot = r.randrange(1, len(st)) if recycling else r.randrange(len(st))
                if cause == "unsupported":
                    st[slot] = UNSUPPORTED
                elif cause == "typed_disabled":
                    slot = 2 if integ == "rdflib" else r.randrange(3)
                    st[slot] = Literal("1", datatype="http://dt.example/t1")
                elif cause == "nested":
                    slot = r.randrange(3)
                    st[slot] = Triple(g.iri(), g.iri(), Triple(g.iri(), UNSUPPORTED, g.iri()))
                else:
                    st = st[: r.randrange(0, len(st))]
                last_rejected = orig
            if cls == "G":
                gid = g.term("g") if not (bad and cause == "unsupported" and r.random() < 0.3) else UNSUPPORTED
                # several triples per graph: the ones before a rejected triple were accepted (and possibly already cut
                # into frames); the ones after it were never offered
                before, tp = [], None
                for _ in range(r.choice([0, 0, 1, 2, 4])):
                    tp = g.triple(tp)
                    before.append(tuple(tp))
                after = [tuple(g.triple(None)) for _ in range(r.choice([0, 0, 1]))]
                ops.append(("g", gid, before + [tuple(st)] + after))
                if gid is UNSUPPORTED:
                    acc = None
                elif bad:
                    acc = [Quad(*x, gid) for x in before] or None
                    bad_partial = bool(before)
                else:
                    acc = [Quad(*x, gid) for x in before + [tuple(st)] + after]
            else:
                ops.append(("q" if cls == "Q" else "t", tuple(st)))
                acc = [(Quad if cls == "Q" else Triple)(*st)] if not bad else None
            if r.random() < 0.2:
                ops.append(("flush",))
            if acc:
                prev = acc[0]
            metas_acc = acc
            accepted.append(metas_acc)
        ops.append(("flush",))
        info: list = []
        line = impl.run_step(cls, o, ops, integration=integ, info=info)
        ctx.dist["integration:" + integ] += 1
        reqs.append(f"step {cls} {o.token()} " + " ".join(impl.step_op_token(op) for op in ops))
        resp.append(line)
        metas.append((cls, o, ops, accepted, {d["op"]: d["accepted"] for d in info}))
    # the model marks a rejection that changed encoder state with '~' (the real code cannot tell)
    import common
    model_raw = common.run_driver(reqs)
    for q, a, mraw in zip(reqs, resp, model_raw):
        ctx.compare("SERSTEP", q, a, mraw.replace("~", ""))
    spec_reqs, todo = [], []
    for (cls, o, ops, accepted, ginfo), line, mraw, req in zip(metas, resp, model_raw, reqs):
        toks = line.split(" ")[:-1]
        frames = b"".join(bytes.fromhex(f[1:]) for t in toks for f in t.split("!")[0].split("+") if f.startswith("F"))
        n_rej = sum(1 for t in toks if "!" in t)
        ctx.case(req, n_rej > 0, sample=dict(cls=cls, ops=[impl.step_op_token(op)[:60] for op in ops][:8], outcome=line[-80:]))
        ctx.dist[f"rejections:{min(n_rej, 3)}"] += 1
        spec_reqs.append(spec_line(frames, True))
        todo.append((cls, o, ops, accepted, ginfo, line, mraw, req, frames))
    got = common.run_driver(spec_reqs)
    for (cls, o, ops, accepted, ginfo, line, mraw, req, frames), sline in zip(todo, got):
        toks = line.split(" ")[:-1]
        # which data ops were accepted by the real code
        data_ops = [op for op in ops if op[0] in ("t", "q", "g")]
        data_toks = [t for op, t in zip(ops, toks) if op[0] in ("t", "q", "g")]
        data_pos = [k for k, op in enumerate(ops) if op[0] in ("t", "q", "g")]
        acc_real = []
        first_rej = None
        for idx, (op, t, acc) in enumerate(zip(data_ops, data_toks, accepted)):
            if "!" in t:
                if first_rej is None:
                    first_rej = idx
                if op[0] == "g":
                    # the triples of this graph that the stream took before it raised (none if it refused the graph itself)
                    acc_real += [Quad(*x, op[1]) for x in op[2][: ginfo.get(data_pos[idx], 0)]]
            elif acc:
                acc_real += acc
            else:
                acc_real += [Quad(*x, op[1]) for x in op[2]] if op[0] == "g" else [(Quad if op[0] == "q" else Triple)(*op[1])]
        # both alternatives the property allows ("left no trace" / "refuses further use") come to the same thing for what
        # was written: it is valid and decodes to exactly the statements the stream accepted, in order
        verdict, evs, _ = parse_spec_response(sline)
        want_st = [gen.normalize_stmt(s) for s in acc_real]
        want = "_" if not want_st else " ".join("S" + stmt_text(s) for s in want_st)
        if verdict == "ok" and evs == want:
            continue
        ctx.fail(f"stream corrupt after a rejected statement ({verdict})",
                 dict(request=req, response=line[:1500], referee=sline[:1200], want=want[:1200]))


# ---------------------------------------------------------------------------------------------
# C17
# ---------------------------------------------------------------------------------------------

def _varint(n: int) -> bytes:
    out = bytearray()
    while True:
        b = n & 0x7F
        n >>= 7
        if n:
            out.append(b | 0x80)
        else:
            out.append(b)
            return bytes(out)


def _hostile(r) -> bytes:
    """Structure-aware hostile streams."""
    k = r.randrange(9)
    opt = jelly.RdfStreamRow(options=jelly.RdfStreamOptions(physical_type=1, max_name_table_size=8, max_prefix_table_size=8,
                                                           max_datatype_table_size=8, version=1))
    if k == 0:  # huge declared table sizes
        o = jelly.RdfStreamOptions(physical_type=r.choice([1, 2, 3]), max_name_table_size=r.choice([2**32 - 1, 2**31, 4097, 10**9]),
                                   max_prefix_table_size=r.choice([0, 2**32 - 1]), max_datatype_table_size=r.choice([0, 2**32 - 1]), version=1)
        return refenc.frames_to_bytes([jelly.RdfStreamFrame(rows=[jelly.RdfStreamRow(options=o)])], True)
    if k == 1:  # huge declared frame length
        body = jelly.RdfStreamFrame(rows=[opt]).SerializeToString()
        return _varint(r.choice([2**40, 2**63 - 1, 2**64 - 1, 2**31, len(body) + 1])) + body
    if k == 2:  # deep quoted-triple nesting
        depth = r.choice([5, 50, 90, 97, 98, 99, 100, 101, 150, 400])
        t = b"\x12\x01a\x32\x01b\x52\x01c"
        for _ in range(depth):
            t = b"\x12\x01a\x32\x01b\x62" + _varint(len(t)) + t
        row = b"\x12" + _varint(len(t)) + t
        body = jelly.RdfStreamFrame(rows=[opt]).SerializeToString() + b"\x0a" + _varint(len(row)) + row
        return _varint(len(body)) + body
    if k == 3:  # options rows in odd places / only empty frames / no frames
        frames = [jelly.RdfStreamFrame() for _ in range(r.randint(0, 3))] + [jelly.RdfStreamFrame(rows=[jelly.RdfStreamRow(name=jelly.RdfNameEntry(id=1, value="x")), opt])]
        return refenc.frames_to_bytes(frames[: r.randint(0, len(frames))], True)
    if k == 4:  # huge length-delimited field inside a frame
        return _varint(12) + b"\x0a" + _varint(2**35) + b"\x00" * 6
    if k == 5:  # over-long varints
        return bytes([0x80] * r.randint(1, 12)) + bytes([r.randint(0, 255) for _ in range(r.randint(0, 5))])
    if k == 6:  # invalid UTF-8 in strings
        body = b"\x0a" + _varint(6) + b"\x4a\x04\x12\x02\xff\xfe"
        pre = jelly.RdfStreamFrame(rows=[opt]).SerializeToString()
        return _varint(len(pre) + len(body)) + pre + body
    if k == 7:  # entry ids near 2^32, references near 2^32
        rows = [opt, jelly.RdfStreamRow(name=jelly.RdfNameEntry(id=r.choice([2**32 - 1, 2**31, 9, 10**6, 4 * 10**6, 10**7]), value="x")),
                jelly.RdfStreamRow(triple=jelly.RdfTriple(s_iri=jelly.RdfIri(name_id=2**32 - 1, prefix_id=2**32 - 1), p_bnode="b", o_bnode="c"))]
        return refenc.frames_to_bytes([jelly.RdfStreamFrame(rows=rows[: r.randint(1, 3)])], True)
    if r.random() < 0.25:  # a SECOND options row, in a later row or frame, declaring other (huge) table sizes
        big = jelly.RdfStreamRow(options=jelly.RdfStreamOptions(
            physical_type=1, max_name_table_size=r.choice([8, 2**26, 2**31]), max_prefix_table_size=r.choice([8, 2**26, 2**32 - 1]),
            max_datatype_table_size=r.choice([8, 2**26]), version=1))
        t = jelly.RdfStreamRow(triple=jelly.RdfTriple(s_bnode="a", p_bnode="b", o_bnode="c"))
        frames = [jelly.RdfStreamFrame(rows=[opt, t]), jelly.RdfStreamFrame(rows=[big, t])] if r.random() < 0.5 else [jelly.RdfStreamFrame(rows=[opt, t, big, t])]
        return refenc.frames_to_bytes(frames, True)
    # unknown fields / groups / wrong wire types
    junk = bytes([r.choice([0x0b, 0x0c, 0x13, 0x1b, 0x08, 0x0d, 0x09, 0x7a, 0x0a])]) + bytes([r.randint(0, 255) for _ in range(r.randint(0, 12))])
    return _varint(len(junk)) + junk


def _c17_allowance_kb(b: bytes) -> int:
    """Peak-RSS growth allowed for one input: a constant, 40x the input size, and 1 KB per REAL leading empty frame
    (each 0x00 byte at the head of a delimited stream is a whole frame the parser legitimately holds an object for;
    the property bounds memory in sizes merely DECLARED, not in the number of frames actually received)."""
    return 48_000 + 40 * len(b) // 1024 + (len(b) - len(b.lstrip(b"\x00")))


def _declares_huge_frame(b: bytes) -> bool:
    """Walk the length prefixes: does some frame declare far more bytes than the input has left?"""
    pos = 0
    while pos < len(b):
        n, shift, k = 0, 0, pos
        while k < len(b) and k - pos < 10:
            n |= (b[k] & 0x7F) << shift
            shift += 7
            k += 1
            if not b[k - 1] & 0x80:
                break
        else:
            return False
        if n > (len(b) - k) + (1 << 24):
            return True
        if n > len(b) - k:
            return False
        pos = k + n
    return False


def _c17_rebind_stream(n: int) -> bytes:
    """A valid delimited TRIPLES stream (version 2) with one triple and n namespace declarations `p: <http://e/i/>`, i < n."""
    rows = [jelly.RdfStreamRow(options=jelly.RdfStreamOptions(physical_type=1, max_name_table_size=8, max_prefix_table_size=8,
                                                              max_datatype_table_size=8, version=2)),
            jelly.RdfStreamRow(name=jelly.RdfNameEntry(id=0, value="")),
            jelly.RdfStreamRow(triple=jelly.RdfTriple(s_bnode="a", p_bnode="b", o_bnode="c"))]
    frames = [jelly.RdfStreamFrame(rows=rows)]
    rows = []
    for i in range(n):
        # every declaration brings its own prefix entry into slot 1 and refers to (prefix 1, name 1 = "")
        rows.append(jelly.RdfStreamRow(prefix=jelly.RdfPrefixEntry(id=1, value=f"http://e/{i}/")))
        rows.append(jelly.RdfStreamRow(namespace=jelly.RdfNamespaceDeclaration(name="p", value=jelly.RdfIri(prefix_id=1, name_id=1))))
        if len(rows) >= 200:
            frames.append(jelly.RdfStreamFrame(rows=rows))
            rows = []
    if rows:
        frames.append(jelly.RdfStreamFrame(rows=rows))
    return refenc.frames_to_bytes(frames, True)


def check_C17(ctx: Ctx) -> None:
    import os
    import subprocess
    import sys

    r = ctx.rng("fuzz")
    inputs = []
    valid = []
    for _ in range(ctx.n(40, 200)):
        valid.append(refenc.build_valid_stream(r, gen.G(r), n_stmts=r.randint(1, 6))["bytes"])
    n = ctx.n(1500, 15000)
    for i in range(n):
        k = r.random()
        if k < 0.25:
            b = bytes(r.getrandbits(8) for _ in range(r.choice([0, 1, 2, 3, 5, 8, 16, 40, 100])))
            kind = "random"
        elif k < 0.65:
            b = bytearray(r.choice(valid))
            for _ in range(r.randint(1, 4)):
                m = r.random()
                if m < 0.5 and b:
                    b[r.randrange(len(b))] ^= 1 << r.randrange(8)
                elif m < 0.7 and b:
                    del b[r.randrange(len(b))]
                elif m < 0.85:
                    b.insert(r.randrange(len(b) + 1), r.getrandbits(8))
                else:
                    o = bytearray(r.choice(valid))
                    a, c = r.randrange(len(b) + 1), r.randrange(len(o) + 1)
                    b = b[:a] + o[c:]
            b = bytes(b)
            kind = "mutated"
        else:
            b = _hostile(r)
            kind = "hostile"
        inputs.append((kind, r.choice(["flat", "flat", "grouped"]) + ":" + r.choice(["seek", "seek", "file", "raw:1", "raw:2", "raw:3", "raw:4096"]), b))
    # sizes "declared" inside lexical forms: a numeric literal whose exponent would expand to a huge canonical form
    # (the rdflib integration must keep the lexical form as written), through every rdflib entry point
    xsd = "http://www.w3.org/2001/XMLSchema#"
    for dt, lex in (("decimal", "1E+60000000"), ("decimal", "1E-60000000"), ("double", "1E+60000000"), ("integer", "1" + "0" * 2000),
                    ("float", "9e99999999"), ("decimal", "123456789E+99999999")):
        rows = [jelly.RdfStreamRow(options=jelly.RdfStreamOptions(physical_type=1, max_name_table_size=8, max_prefix_table_size=8,
                                                                  max_datatype_table_size=8, version=1)),
                jelly.RdfStreamRow(datatype=jelly.RdfDatatypeEntry(id=1, value=xsd + dt)),
                jelly.RdfStreamRow(triple=jelly.RdfTriple(s_bnode="a", p_bnode="b", o_literal=jelly.RdfLiteral(lex=lex, datatype=1)))]
        b = refenc.frames_to_bytes([jelly.RdfStreamFrame(rows=rows)], True)
        for e in ("rflat", "rgrouped", "rgraph", "flat"):
            inputs.append(("hostile", e + ":seek", b))
    # a small share of the random / mutated / hostile inputs also goes through the rdflib entry points
    for kind, entry, b in r.sample(inputs, min(len(inputs), ctx.n(150, 1500))):
        inputs.append((kind, r.choice(["rflat", "rgrouped", "rgraph"]) + ":" + entry.split(":", 1)[1], b))
    # long runs of leading empty frames in front of a small valid frame (linear work, constant stack)
    small = refenc.frames_to_bytes([jelly.RdfStreamFrame(rows=[jelly.RdfStreamRow(options=jelly.RdfStreamOptions(
        physical_type=1, max_name_table_size=8, max_prefix_table_size=8, max_datatype_table_size=8, version=1)),
        jelly.RdfStreamRow(triple=jelly.RdfTriple(s_bnode="a", p_bnode="b", o_bnode="c"))])], True)
    for count in ([3000, 60000] if ctx.quick() else [3000, 60000, 400000]):
        inputs.append(("hostile", "flat:seek", b"\x00" * count + small))
        inputs.append(("hostile", "flat:raw:4096", b"\x00" * count + small))  # (grouped would rightly build one sink per real frame)
        inputs.append(("hostile", "rflat:seek", b"\x00" * count + small))
    # a few bytes that DECLARE a frame of gigabytes, from every kind of source (in memory, a regular file, non-seekable)
    body = jelly.RdfStreamFrame(rows=[jelly.RdfStreamRow(options=jelly.RdfStreamOptions(physical_type=1, max_name_table_size=8, version=1))]).SerializeToString()
    for declared in (2**32, 2**36, 2**40, 2**62):
        for e in ("flat:seek", "flat:file", "grouped:file", "flat:raw:4096", "flat:raw:1", "rflat:file"):
            inputs.append(("hostile", e, _varint(declared) + body))
    # ... with the peak of Python-level allocations traced (a buffer of the declared size that is allocated but never touched
    # does not show in the resident set): declared 64 MiB, 512 MiB, 1 GiB - 1 from a file and from a non-seekable source
    for declared in (2**26, 2**29, 2**30 - 1):
        for e in ("tm:flat:file", "tm:flat:raw:4096"):
            inputs.append(("declared-frame-traced", e, _varint(declared) + body))
    # lookup tables are capped at 4096 entries each: an options row declaring more — by one, by ten times, by a million — is
    # refused whatever follows (the cap is part of the property, not only of the generated constants)
    for field in ("max_name_table_size", "max_prefix_table_size", "max_datatype_table_size"):
        for size in (4097, 50000, 1000000):
            kw = dict(physical_type=1, max_name_table_size=8, max_prefix_table_size=8, max_datatype_table_size=8, version=1)
            kw[field] = size
            rows = [jelly.RdfStreamRow(options=jelly.RdfStreamOptions(**kw)), jelly.RdfStreamRow(triple=jelly.RdfTriple(s_bnode="a", p_bnode="b", o_bnode="c"))]
            b = refenc.frames_to_bytes([jelly.RdfStreamFrame(rows=rows)], True)
            for e in ("flat:seek", "grouped:seek", "rflat:seek", "rgraph:seek"):
                inputs.append(("table-above-cap", e, b))
    # a length prefix that never ends: hundreds of kilobytes with the continuation bit set (a varint has at most ten bytes:
    # refusing is constant work; folding them into one integer is quadratic), at the start and after a valid frame
    for run in (b"\xff" * 600000, small + b"\xff" * 600000, b"\x80" * 600000):
        inputs.append(("hostile", "flat:seek", run))
        inputs.append(("hostile", "flat:raw:4096", run))
        inputs.append(("hostile", "rflat:seek", run))
    # LAST (a hang costs the worker one of its three strikes): thousands of namespace declarations that re-bind ONE prefix to
    # pairwise different IRIs. The flat parsers only yield Prefix events (linear); the rdflib graph-building entry points hand
    # every declaration to rdflib's Graph.bind(), which looks for a free name p1, p2, ... by linear search: quadratic
    # (known finding C17-rdflib-rebind-quadratic: 135 kB take a quarter of a minute).
    rebind = _c17_rebind_stream(4000)
    inputs.append(("rebind-control", "rflat:seek", rebind))
    inputs.append(("rebind", "rgraph:seek", rebind))
    # real code in a watchdogged subprocess with an address-space cap
    cap = 3 << 30
    payload = "".join(f"{e} {b.hex()}\n" for _, e, b in inputs)
    here = os.path.dirname(os.path.abspath(__file__))
    p = subprocess.run([sys.executable, os.path.join(here, "c17_worker.py"), str(cap)], input=payload, capture_output=True,
                       text=True, cwd=here, timeout=1800, check=False)
    lines = p.stdout.split("\n")
    if lines and lines[-1] == "":
        lines.pop()
    if p.returncode != 0 or len(lines) != len(inputs):
        k = len(lines)
        bad = inputs[k] if k < len(inputs) else None
        ctx.fail(f"the interpreter died (exit {p.returncode}) while parsing input #{k}",
                 dict(entry=bad[1] if bad else None, bytes=bad[2].hex() if bad else None, stderr=p.stderr[-1500:]))
        inputs = inputs[:k]
    reqs, resp = [], []
    base_rss = None
    for (kind, entry, b), line in zip(inputs, lines):
        out, rss, ms = line.rsplit("\t", 2)
        rss, ms = int(rss), int(ms)
        if out == "SKIPPED-AFTER-HANGS":
            ctx.dist["skipped_after_three_hangs"] += 1
            continue
        base_rss = rss if base_rss is None else base_rss
        ctx.case((entry, b.hex()), len(b) > 2, sample=dict(kind=kind, entry=entry, bytes=b.hex()[:120], outcome=out[-60:]))
        ctx.dist[f"kind:{kind}"] += 1
        oc = out.rsplit(" ", 1)[-1]
        ctx.dist["outcome:" + (oc if oc.startswith("!") or oc in ("end", "HANG") else "end")] += 1
        raw = ":raw" in entry
        if kind == "declared-frame-traced":
            m_tm = re.search(r" tm=(\d+)$", out)
            peak_kb = int(m_tm.group(1)) if m_tm else 0
            out = out[: m_tm.start()] if m_tm else out
            oc = out.rsplit(" ", 1)[-1]
            entry = entry[3:]
            if peak_kb > 16 * 1024:
                ctx.fail(f"{peak_kb // 1024} MiB allocated while parsing {len(b)} bytes that merely DECLARE a long frame", dict(entry=entry, bytes=b.hex()))
        if kind == "table-above-cap" and not oc.startswith("!"):
            ctx.fail("a stream declaring a lookup table of more than 4096 entries was accepted", dict(entry=entry, bytes=b.hex(), outcome=out[-80:]))
        if out == "HANG" or ms > 5000:
            ctx.fail(f"parser did not terminate promptly ({ms} ms)", dict(entry=entry, bytes=b.hex() if len(b) < 20000 else b.hex()[:2000] + "...", n_bytes=len(b)),
                     known="C17-rdflib-rebind-quadratic" if kind == "rebind" and entry.startswith(("rgraph", "rgrouped")) else None)
        elif out.startswith("!!") or out.endswith("!MemoryError") or out.endswith("!RecursionError"):
            ctx.fail(f"parser ended with {out}", dict(entry=entry, bytes=b.hex()))
        elif rss - base_rss > _c17_allowance_kb(b):
            ctx.fail(f"peak RSS grew by {(rss - base_rss) // 1024} MB while parsing {len(b)} bytes", dict(entry=entry, bytes=b.hex()[:4000]))
            base_rss = rss
        else:
            base_rss = max(base_rss, rss)
        e_name, e_src = entry.split(":", 1)
        if e_name.startswith("r"):
            ctx.dist["rdflib_entry_points"] += 1
            continue  # rdflib entry points: safety oracle only here (their results are compared in C15 / C02)
        if len(b) > 20000:
            ctx.dist["long_inputs_safety_only"] += 1
            continue
        if _declares_huge_frame(b):
            ctx.dist["declares_a_frame_far_longer_than_the_input"] += 1
        m_src = "seek" if e_src == "file" else e_src   # the byte-source model has one kind of seekable source
        reqs.append(f"par {e_name} 0 1 {m_src} {b.hex()}" if b else f"par {e_name} 0 1 {m_src}")
        resp.append(out)
    ctx.extra["peak_rss_kb"] = max([int(line.rsplit("\t", 2)[1]) for line in lines] or [0])
    ctx.corr("PARSE", reqs, resp)


# ---------------------------------------------------------------------------------------------
# rdflib-based properties: C02, C14, C15
# ---------------------------------------------------------------------------------------------

XSD_STRING_HEX = "h" + hx("http://www.w3.org/2001/XMLSchema#string")


def _norm_text(t: str) -> str:
    """xsd:string typed literal ≡ plain literal, on canonical statement text."""
    return t.replace(":-:" + XSD_STRING_HEX, ":-:-")


def _rdf11_statements(r, cls: str, o: Opts, n: int):
    import rimpl

    g = gen.G(r, star=False, generalized=False, typed=o.pd != 0, n_prefixes=r.choice([2, 4, 6]), n_names=r.choice([3, 6, 12]),
              case_langs=False)
    out, prev, tries = [], None, 0
    while len(out) < n and tries < 30 * n + 30:
        tries += 1
        st = g.quad(prev) if cls != "T" else g.triple(prev)
        if not rimpl.rdf11(st) or not gen.fits([st], o.pn, o.pp, o.pd):
            continue
        out.append(st)
        prev = st
    return out


def _to_store(stmts, cls: str):
    import rimpl
    from rdflib import Dataset, Graph

    if cls == "T":
        g = Graph()
        for st in stmts:
            g.add(tuple(rimpl.to_rdflib(t) for t in st[:3]))
        return g
    ds = Dataset()
    for st in stmts:
        s, p, o_, gname = (rimpl.to_rdflib(t) for t in st)
        ds.add((s, p, o_, ds.get_context(gname)))
    return ds


def check_C02(ctx: Ctx) -> None:
    import rimpl
    from rdflib import Dataset, Graph

    r = ctx.rng("rdflib")
    reqs, resp = [], []
    for i in range(ctx.n(250, 2500)):
        data_cls = r.choice("TQ")              # Graph or Dataset
        cls = "T" if data_cls == "T" else r.choice("QG")
        lt = r.choice({"T": [0, 1, 3, 13], "Q": [0, 2, 4, 14, 114], "G": [0, 2, 4, 14, 114]}[cls])
        o = rand_opts(r, cls, lt=lt)
        o.gen = o.star = False
        if not o.delim and lt not in (1, 2):
            # C02 quantifies non-delimited output over flat logical types (other combinations are C06's subject)
            o.lt = {"T": 1, "Q": 2, "G": 2}[cls]
        stmts = _rdf11_statements(r, data_cls, o, r.randint(0, 14))
        store = _to_store(stmts, data_cls)
        if data_cls == "Q" and r.random() < 0.35:
            # graphs that were registered but hold nothing (ds.graph(name)): Dataset.graphs() lists them
            from rdflib import BNode, URIRef
            for name in r.sample([URIRef("http://empty.example/g1"), URIRef("urn:empty:2"), BNode("e3"), URIRef("http://empty.example/ns#g4")], r.randint(1, 3)):
                store.graph(name)
            ctx.dist["datasets_with_empty_named_graphs"] += 1
        want = sorted(set(_norm_text(t) for t in rimpl.store_quads(store)))
        req, line, b = rimpl.run_serr(cls, o, store)
        reqs.append(req)
        resp.append(line)
        ok = line.startswith("ok ") and line.endswith(" end")
        ctx.case((cls, o.token(), tuple(want)), ok and len(want) >= 2, sample=dict(cls=cls, opts=o.describe(), statements=want[:4]))
        ctx.dist[f"cls:{cls}"] += 1
        ctx.dist["delimited" if o.delim else "non-delimited"] += 1
        if not ok:
            ctx.dist["refused:" + line.split(" ")[-1]] += 1
            continue
        if not b:
            continue
        # read back three ways
        for how in ("to_graph", "Graph.parse", "plugin"):
            try:
                if how == "to_graph":
                    back, err = rimpl.run_par_graph("seek", b)
                    if err:
                        raise RuntimeError(err)
                elif how == "Graph.parse":
                    back = Graph() if data_cls == "T" else Dataset()
                    back.parse(data=b, format="jelly")
                else:
                    # the plugin end to end: Graph.serialize with these options and this stream class
                    stream, opts = rimpl.make_stream(cls, o)
                    b2 = rimpl.plugin_serialize(store, options=opts, stream=stream)
                    back = Graph() if data_cls == "T" else Dataset()
                    back.parse(data=b2, format="jelly")
            except Exception as e:  # noqa: BLE001
                ctx.fail(f"rdflib round trip ({how}) raised {type(e).__name__}: {e}", dict(request=req))
                continue
            got = sorted(set(_norm_text(t) for t in rimpl.store_quads(back)))
            if got != want:
                ctx.fail(f"rdflib round trip ({how}) changed the data", dict(request=req, got=got[:20], want=want[:20]))
    ctx.corr("SER-rdflib", reqs, resp)
    _c02_entry_points(ctx, r)
    _c02_datatype_wrap(ctx, r)
    _tiny_prefix_tables(ctx, r, ctx.n(60, 600), integrations=("rdflib",))
    _tables_larger_than_names(ctx, r, ctx.n(12, 120), integrations=("rdflib",))
    _c02_shared_options_after_failure(ctx, r)
    _c02_continue_after_rejection(ctx, r)
    # non-canonical lexical forms survive (repaired defect: normalize=False)
    from rdflib import XSD, Literal as RL, URIRef
    g = Graph()
    for lex, dt in (("01", XSD.integer), ("1.50", XSD.decimal), ("abc", XSD.integer), ("+1", XSD.int), ("1", XSD.string)):
        g.add((URIRef("http://a/s"), URIRef("http://a/p"), RL(lex, datatype=dt, normalize=False)))
    out = io.BytesIO()
    import logging
    logging.disable(logging.CRITICAL)
    try:
        g.serialize(destination=out, format="jelly")
        back = Graph()
        back.parse(data=out.getvalue(), format="jelly")
    finally:
        logging.disable(logging.NOTSET)
    ctx.case("noncanonical-lexical", True)
    if sorted(_norm_text(t) for t in rimpl.store_quads(back)) != sorted(_norm_text(t) for t in rimpl.store_quads(g)):
        ctx.fail("non-canonical lexical forms are rewritten by the rdflib round trip", dict(got=rimpl.store_quads(back)))


def _c02_shared_options_after_failure(ctx: Ctx, r) -> None:
    """rdflib: ONE SerializerOptions object used for two exports; the first fails part-way (a term rdflib stores but Jelly
    cannot carry, or a statement source that raises) and the caller catches the error; the second export of another graph
    with the same options object must read back as exactly that graph."""
    import rdflib

    import rimpl
    from pyjelly.integrations.rdflib import serialize as rser

    class Boom(Exception):
        pass

    for i in range(ctx.n(30, 300)):
        cls = r.choice("TQ")
        o = Opts(fs=r.choice([2, 3, 7, 250]), lt={"T": 1, "Q": 2}[cls], gen=False, star=False, delim=r.random() < 0.8, pn=r.choice([8, 16]), pp=4, pd=4)
        first = _rdf11_statements(r, cls, o, r.randint(3, 8))
        second = _rdf11_statements(r, cls, o, r.randint(1, 6))
        if not first or not second:
            continue
        so = o.real()
        how = r.choice(["generator-raises", "bad-term"])
        sink = io.BytesIO()
        try:
            if how == "generator-raises":
                def src(first=first):
                    for st in first:
                        t = tuple(rimpl.to_rdflib(x) for x in st)
                        yield t if cls == "T" else rser.Quad(*t)
                    raise Boom
                rser.flat_stream_to_file(src(), sink, options=so)
            else:
                store = _to_store(first, cls)
                bad = (rdflib.URIRef("http://bad/s"), rdflib.URIRef("http://bad/p"), rdflib.Variable("v"))
                if cls == "T":
                    store.add(bad)
                else:
                    store.add((*bad, store.default_context))
                store.serialize(destination=sink, format="jelly", options=so)
        except Exception:  # noqa: BLE001  (the failure of the first export is the caller's business)
            pass
        store2 = _to_store(second, cls)
        out = io.BytesIO()
        try:
            store2.serialize(destination=out, format="jelly", options=so)
            back = rdflib.Graph() if cls == "T" else rdflib.Dataset()
            back.parse(data=out.getvalue(), format="jelly")
        except Exception as e:  # noqa: BLE001
            ctx.fail(f"second rdflib export with the options object of a failed export raised {type(e).__name__}: {e}", dict(opts=o.describe(), how=how))
            continue
        ctx.case(("c02-shared-options", cls, o.token(), stmts_text(second)), True)
        ctx.dist[f"shared_options_after_failed_export:{how}"] += 1
        want = sorted(set(_norm_text(t) for t in rimpl.store_quads(store2)))
        got = sorted(set(_norm_text(t) for t in rimpl.store_quads(back)))
        if got != want:
            ctx.fail("an rdflib export that re-uses the options object of a failed export does not read back as its own graph",
                     dict(opts=o.describe(), how=how, got=got[:12], want=want[:12]))


def _c02_continue_after_rejection(ctx: Ctx, r) -> None:
    """The rdflib stream driven statement by statement (Stream.triple / quad), a statement the encoder cannot carry in the
    middle (an rdflib Variable), the caller catches the error and carries on: what was written reads back, through the
    rdflib reader, as exactly the statements that were accepted — or the stream refused to go on."""
    import rdflib

    import rimpl

    for i in range(ctx.n(40, 400)):
        cls = r.choice("TQ")
        o = Opts(fs=r.choice([1, 3, 250]), lt=0, gen=False, star=False, delim=True, pn=16, pp=4, pd=4)
        stmts = _rdf11_statements(r, cls, o, r.randint(3, 7))
        if len(stmts) < 3:
            continue
        # the table-free shapes matter: a rejection after a blank-node subject leaves the stream usable
        k = r.randrange(1, len(stmts))
        bn = BlankNode("rej" + str(i % 3))   # subject of the refused statement AND of the one offered after it; new at that point
        stream, _ = rimpl.make_stream(cls, o)
        stream.enroll()
        frames, accepted = [], []
        for j, st in enumerate(stmts):
            terms = [rimpl.to_rdflib(t) for t in st]
            if j == k:
                # the same subject as the statement before, then something Jelly cannot carry
                bad = [rimpl.to_rdflib(bn), rdflib.Variable("v"), *terms[2:]]
                try:
                    f = stream.triple(bad) if cls == "T" else stream.quad(bad)
                    if f is not None:
                        frames.append(f)
                except Exception:  # noqa: BLE001
                    pass
                terms[0] = rimpl.to_rdflib(bn)
                st = type(st)(bn, *st[1:])
            try:
                f = stream.triple(terms) if cls == "T" else stream.quad(terms)
            except Exception:  # noqa: BLE001  (a stream that refuses to go on is one of the two allowed outcomes)
                break
            accepted.append(st)
            if f is not None:
                frames.append(f)
        last = stream.flow.to_stream_frame()
        if last is not None:
            frames.append(last)
        b = impl.frames_bytes(frames, True)
        ctx.case(("c02-continue", cls, o.token(), stmts_text(stmts), k), True)
        ctx.dist["rdflib_continue_after_rejection"] += 1
        line = rimpl.run_par_flat(False, "seek", b)
        want = [_norm_text(stmt_text(gen.normalize_stmt(x))) for x in expected_events(accepted, cls)]
        got = [_norm_text(e[1:]) for e in line.split(" ") if e.startswith("S")]
        if not line.endswith(" end") or got != want:
            ctx.fail("rdflib stream continued after a rejected statement: what was written does not read back as the accepted statements",
                     dict(opts=o.describe(), rejected_at=k, got=got[:8], want=want[:8], ended=line[-30:]))


def _c02_datatype_wrap(ctx: Ctx, r) -> None:
    """Typed literals over 5..7 distinct datatypes through datatype tables of 1..4 slots (the table wraps many times), written
    by the rdflib serializer from a generator (fixed order) and read back with every rdflib entry point."""
    import rdflib

    import rimpl

    dts = ["http://www.w3.org/2001/XMLSchema#integer", "http://www.w3.org/2001/XMLSchema#decimal", "http://www.w3.org/2001/XMLSchema#date",
           "urn:dt:1", "urn:dt:2", "http://dt.example/t3", "http://dt.example/t4"]
    reqs, resp = [], []
    for i in range(ctx.n(40, 400)):
        pd = r.choice([1, 2, 3, 4])
        o = Opts(fs=r.choice([1, 3, 250]), lt=0, gen=False, star=False, delim=r.random() < 0.8, pn=16, pp=4, pd=pd)
        use = r.sample(dts, r.randint(pd + 1, len(dts)))
        data = [(rdflib.URIRef("http://w/s%d" % (j % 3)), rdflib.URIRef("http://w/p"), rdflib.Literal(str(j), datatype=rdflib.URIRef(r.choice(use)), normalize=False))
                for j in range(r.randint(6, 20))]
        req, line, b = rimpl.run_serr("T", o, data)
        reqs.append(req)
        resp.append(line)
        ctx.case(("datatype-wrap", req), True)
        ctx.dist[f"datatype_wrap:pd={pd}"] += 1
        if not (line.startswith("ok ") and line.endswith(" end")) or not b:
            ctx.fail(f"rdflib serializer refused typed literals that fit a datatype table of {pd} ({line[-40:]})", dict(request=req[:800]))
            continue
        want = sorted(set(rimpl.rdflib_stmt_text(t) for t in data))
        back, err = rimpl.run_par_graph("seek", b)
        flat = rimpl.run_par_flat(False, "seek", b)
        g2 = rdflib.Graph()
        try:
            g2.parse(data=b, format="jelly")
            got3 = rimpl.store_quads(g2)
        except Exception as e:  # noqa: BLE001
            got3 = ["!" + type(e).__name__]
        got1 = rimpl.store_quads(back) if back is not None else ["!" + str(err)]
        got2 = sorted(set(e[1:] for e in flat.split(" ")[:-1] if e.startswith("S"))) if flat.endswith(" end") else [flat[-40:]]
        for how, got in (("parse_jelly_to_graph", got1), ("parse_jelly_flat", got2), ("Graph.parse", got3)):
            if sorted(set(got)) != want:
                ctx.fail(f"typed literals through a datatype table of {pd} slots: {how} gives back other data",
                         dict(request=req[:1500], got=sorted(set(got))[:8], want=want[:8]))
    ctx.corr("SER-rdflib", reqs, resp)


def _c02_entry_points(ctx: Ctx, r) -> None:
    """The remaining ways a Graph / Dataset gets written and read back with rdflib: the plugin with everything guessed,
    namespace declarations switched on, quads fed as a generator into a GraphStream / QuadStream, flat_stream_to_file and
    grouped_stream_to_file, read back with parse_jelly_grouped / parse_jelly_flat / Graph.parse."""
    import rimpl
    from rdflib import Dataset, Graph, URIRef

    from pyjelly.integrations.rdflib import parse as rparse, serialize as rser

    reqs, resp = [], []
    plug_reqs, plug_resp = [], []
    for i in range(ctx.n(120, 1200)):
        data_cls = r.choice("TQ")
        o = Opts(fs=r.choice([1, 3, 250]), lt=0, gen=False, star=False, delim=True, ns=r.random() < 0.5, pn=r.choice([16, 128]), pp=r.choice([0, 4, 16]), pd=8)
        stmts = _rdf11_statements(r, data_cls, o, r.randint(1, 10))
        if not stmts:
            continue
        store = _to_store(stmts, data_cls)
        for j in range(r.randint(0, 2)):
            store.bind(f"p{j}", URIRef(r.choice(["http://ns.example/a#", "http://ns.example/b/", "urn:x:"])), override=True, replace=True)
        want = sorted(set(_norm_text(t) for t in rimpl.store_quads(store)))
        how = r.choice(["plugin-defaults", "ns", "generator", "flat_to_file", "grouped_to_file"])
        ctx.case(("entry", how, data_cls, o.token(), tuple(want)), len(want) >= 2)
        ctx.dist["entry:" + how] += 1
        try:
            if how == "plugin-defaults":
                req, line, b = rimpl.run_plug(store, None, None)
                plug_reqs.append(req)
                plug_resp.append(line)
                if not line.endswith(" end"):
                    raise RuntimeError(line[-60:])
                back = Graph() if data_cls == "T" else Dataset()
                back.parse(data=b, format="jelly")
                got = rimpl.store_quads(back)
            elif how == "ns":
                cls = "T" if data_cls == "T" else r.choice("QG")
                req, line, b = rimpl.run_serr(cls, o, store)
                reqs.append(req)
                resp.append(line)
                if not (line.startswith("ok ") and line.endswith(" end")):
                    continue
                back, err = rimpl.run_par_graph("seek", b)
                if err:
                    raise RuntimeError(err)
                got = rimpl.store_quads(back)
            elif how == "generator":
                cls = "T" if data_cls == "T" else r.choice("QG")
                data = [tuple(rimpl.to_rdflib(t) for t in st) for st in stmts]
                o.ns = False
                req, line, b = rimpl.run_serr(cls, o, data)
                reqs.append(req)
                resp.append(line)
                if not (line.startswith("ok ") and line.endswith(" end")):
                    continue
                got = [e[1:] for e in rimpl.run_par_flat(False, "seek", b).split(" ")[:-1] if e.startswith("S")]
                if data_cls == "T":
                    got = [g for g in got]
            elif how == "flat_to_file":
                out = io.BytesIO()
                data = (tuple(rimpl.to_rdflib(t) for t in st) for st in stmts)
                if data_cls == "Q":
                    data = (rparse.Quad(*x) for x in data)
                use_opts = r.random() < 0.5
                o.ns = False
                rdata = [tuple(rimpl.to_rdflib(t) for t in st) for st in stmts]
                err = None
                try:
                    rser.flat_stream_to_file(data, out, o.real() if use_opts else None)
                except Exception as e:  # noqa: BLE001
                    err = e
                plug_reqs.append(f"rflat {o.token() if use_opts else '-'} " + "/".join(rimpl.rdflib_stmt_text(t) for t in rdata))
                plug_resp.append(f"ok {out.getvalue().hex()} " + ("end" if err is None else "!" + type(err).__name__))
                if err is not None:
                    raise err
                back = Graph() if data_cls == "T" else Dataset()
                back.parse(data=out.getvalue(), format="jelly")
                got = rimpl.store_quads(back)
            else:
                # several stores through one stream; read back one per frame and as a whole
                k = r.randint(1, 3)
                stores = [store] + [_to_store(_rdf11_statements(r, data_cls, o, r.randint(1, 5)), data_cls) for _ in range(k - 1)]
                stores = [st for st in stores if len(st)]
                so = o.real()
                so = type(so)(flow=so.flow, frame_size=so.frame_size, logical_type=3 if data_cls == "T" else 4, params=so.params, lookup_preset=so.lookup_preset)
                out = io.BytesIO()
                rser.grouped_stream_to_file((st for st in stores), out, options=so)
                sinks = [rimpl.store_quads(g) for g in rparse.parse_jelly_grouped(io.BytesIO(out.getvalue()))]
                want_each = [sorted(set(_norm_text(t) for t in rimpl.store_quads(st))) for st in stores]
                got_each = [sorted(set(_norm_text(t) for t in sk)) for sk in sinks]
                if got_each != want_each:
                    ctx.fail("rdflib grouped_stream_to_file -> parse_jelly_grouped does not give back the graphs/datasets one by one",
                             dict(opts=o.describe(), got=str(got_each)[:800], want=str(want_each)[:800]))
                continue
        except Exception as e:  # noqa: BLE001
            ctx.fail(f"rdflib round trip ({how}) raised {type(e).__name__}: {e}", dict(opts=o.describe(), statements=want[:6]))
            continue
        got = sorted(set(_norm_text(t) for t in got))
        if got != want:
            ctx.fail(f"rdflib round trip ({how}) changed the data", dict(opts=o.describe(), got=got[:20], want=want[:20]))
    ctx.corr("SER-rdflib", reqs, resp)
    ctx.corr("PLUG", plug_reqs, plug_resp)


def check_C14(ctx: Ctx) -> None:
    import rimpl
    from pyjelly.integrations.generic.parse import parse_jelly_flat, parse_jelly_to_graph
    from pyjelly.integrations.generic.generic_sink import Prefix
    from rdflib import Dataset, Graph, URIRef

    r = ctx.rng("ns")
    reqs, resp = [], []
    spec_reqs, spec_meta = [], []
    for i in range(ctx.n(200, 2000)):
        cls = r.choice("TQG")
        pn, pp, pd = r.choice([(8, 1, 1), (8, 2, 2), (8, 0, 1), (9, 3, 1), (16, 8, 8), (4000, 150, 32)])
        o = Opts(fs=r.choice([1, 3, 250]), lt=r.choice([0, {"T": 1, "Q": 2, "G": 2}[cls]]), gen=True, star=True, delim=r.random() < 0.8,
                 ns=True, pn=pn, pp=pp, pd=pd)
        stmts = gen_fitting(r, cls, o, r.randint(0, 8))
        g = gen.G(r)
        bindings = [(r.choice(["", "ex", "a", "ü", "p1", "p2"]), r.choice([g.iri(), IRI("http://ns.example/"), IRI("noslash"), IRI("http://ü/ü#")]))
                    for _ in range(r.randint(0, 5))]
        sink = mk_sink(stmts, bindings)
        want_ns = list(sink.namespaces)
        out = {}
        for ns_on in (True, False):
            o.ns = ns_on
            line, b = impl.run_ser_frames(cls, o, sink, is_sink=True)
            reqs.append(f"ser {cls} frames {o.token()} sink:{sink_arg(sink)}")
            resp.append(line)
            out[ns_on] = (line, b)
        ctx.case((cls, o.token(), sink_arg(sink)), bool(bindings), sample=dict(cls=cls, preset=[pn, pp, pd], bindings=[(p, iri_s(i)) for p, i in bindings]))
        if not all(l.endswith(" end") for l, _ in out.values()):
            continue
        try:
            evs_on = real_parse_flat(out[True][1]) if out[True][1] else []
            evs_off = real_parse_flat(out[False][1]) if out[False][1] else []
        except Exception as e:  # noqa: BLE001
            ctx.fail(f"stream written with namespace declarations does not parse back: {type(e).__name__}", dict(request=reqs[-2]))
            continue
        ns_on_ev = [(e.prefix, e.iri) for e in evs_on if isinstance(e, Prefix)]
        ctx.dist["bindings"] += len(want_ns)
        if [(p, term_text(i)) for p, i in ns_on_ev] != [(p, term_text(i)) for p, i in want_ns]:
            ctx.fail("namespace declarations read back differ from the bindings", dict(request=reqs[-2], got=str(ns_on_ev), want=str(want_ns)))
        if any(isinstance(e, Prefix) for e in evs_off):
            ctx.fail("namespace declaration written although the option is off", dict(request=reqs[-1]))
        st_on = [stmt_text(e) for e in evs_on if not isinstance(e, Prefix)]
        st_off = [stmt_text(e) for e in evs_off]
        if st_on != st_off:
            ctx.fail("enabling namespace declarations changes the statements read back", dict(request=reqs[-2]))
        # re-serialising what was read reproduces the declarations
        if out[True][1]:
            back = parse_jelly_to_graph(io.BytesIO(out[True][1]))
            if [(p, term_text(i)) for p, i in back.namespaces] != [(p, term_text(i)) for p, i in want_ns]:
                ctx.fail("sink.namespaces after parse differ from the bindings", dict(request=reqs[-2]))
            o.ns = True
            line2, b2 = impl.run_ser_frames(cls, o, back, is_sink=True)
            try:
                evs2 = real_parse_flat(b2) if b2 else []
            except Exception as e:  # noqa: BLE001
                ctx.fail(f"re-serialised stream does not parse back: {type(e).__name__}", dict(request=reqs[-2]))
                continue
            if [(e.prefix, term_text(e.iri)) for e in evs2 if isinstance(e, Prefix)] != [(p, term_text(i)) for p, i in want_ns]:
                ctx.fail("re-serialising what was read does not reproduce the declarations", dict(request=reqs[-2]))
            spec_reqs.append(spec_line(out[True][1], o.delim))
            spec_meta.append((reqs[-2], want_ns, True))
        if out[False][1]:
            spec_reqs.append(spec_line(out[False][1], o.delim))
            spec_meta.append((reqs[-1], [], False))
    # grouped: several sinks written through ONE stream, all carrying (partly the same) bindings
    for i in range(ctx.n(120, 1200)):
        cls = r.choice("TQ")
        pn, pp, pd = r.choice([(8, 1, 1), (8, 2, 2), (9, 4, 1), (16, 8, 8), (4000, 150, 32)])
        o = Opts(fs=r.choice([1, 3, 250]), lt=r.choice({"T": [1, 3], "Q": [2, 4]}[cls]), gen=True, star=True, delim=True, ns=True, pn=pn, pp=pp, pd=pd)
        g = gen.G(r, n_prefixes=3, n_names=4)
        shared = [(r.choice(["ex", "a", ""]), r.choice([g.iri(), IRI(g.prefixes[0]), IRI("http://ns.example/")])) for _ in range(r.randint(1, 3))]
        sinks, all_st, all_ns = [], [], []
        for j in range(r.randint(2, 4)):
            st = gen_fitting(r, cls, o, r.randint(1, 4))
            # start some graphs with an IRI in a declared namespace, so that prefix_id 0 right after the declarations matters
            if st and r.random() < 0.7:
                ns_iri = iri_s(shared[-1][1])
                first = list(st[0])
                first[0] = IRI(ns_iri + "s%d" % j)
                st[0] = type(st[0])(*first)
                if not gen.fits([st[0]], pn, pp, pd):
                    st = st[1:]
            sk = mk_sink(st, shared + ([(f"p{j}", g.iri())] if r.random() < 0.5 else []))
            sinks.append(sk)
            all_st += st
            all_ns += list(sk.namespaces)
        out = {}
        for ns_on in (True, False):
            o.ns = ns_on
            line, b = impl.run_ser_grouped(o, sinks)
            reqs.append(f"ser {cls} grouped {o.token()} " + "+".join(sink_arg(sk) for sk in sinks))
            resp.append(line)
            out[ns_on] = (line, b)
        ctx.case(("grouped-ns", reqs[-2]), True)
        ctx.dist["grouped_multi_sink"] += 1
        if not all(l.endswith(" end") for l, _ in out.values()):
            continue
        try:
            evs_on = real_parse_flat(out[True][1])
            evs_off = real_parse_flat(out[False][1])
        except Exception as e:  # noqa: BLE001
            ctx.fail(f"grouped: stream written with shared bindings does not parse back: {type(e).__name__}", dict(request=reqs[-2]))
            continue
        got_ns = [(e.prefix, term_text(e.iri)) for e in evs_on if isinstance(e, Prefix)]
        if got_ns != [(p, term_text(i)) for p, i in all_ns]:
            ctx.fail("grouped: declarations read back differ from the bindings of the sinks, in order", dict(request=reqs[-2], got=str(got_ns)[:600]))
        st_on = [stmt_text(e) for e in evs_on if not isinstance(e, Prefix)]
        st_off = [stmt_text(e) for e in evs_off]
        want_st = [stmt_text(x) for x in expected_events(all_st, cls)]
        if st_on != st_off or st_on != want_st:
            ctx.fail("grouped: enabling namespace declarations changes the statements read back", dict(request=reqs[-2], got=st_on[:6], want=want_st[:6]))
        # read back GROUPED: with a grouped logical type each source sink travels in its own frame, so each sink read back
        # must carry exactly the bindings of its source (compared after the whole stream was read: no sink may later acquire
        # bindings declared in another frame)
        if o.lt in (3, 4) and all(len(sk) for sk in sinks):
            from pyjelly.integrations.generic.parse import parse_jelly_grouped
            try:
                back = list(parse_jelly_grouped(io.BytesIO(out[True][1])))
            except Exception as e:  # noqa: BLE001
                ctx.fail(f"grouped: parse_jelly_grouped raised {type(e).__name__}", dict(request=reqs[-2]))
                continue
            want_b = [_dedup_bindings([(pfx, term_text(iri)) for pfx, iri in sk.namespaces]) for sk in sinks]
            got_b = [_dedup_bindings([(pfx, term_text(iri)) for pfx, iri in sk.namespaces]) for sk in back]
            ctx.dist["grouped_read_back_per_sink"] += 1
            if got_b != want_b:
                ctx.fail("grouped: the bindings of the sinks read back (one per frame) differ from the bindings of the source sinks",
                         dict(request=reqs[-2], got=str(got_b)[:600], want=str(want_b)[:600]))
    ctx.corr("SER", reqs, resp)
    import common
    for (req, want_ns, on), line in zip(spec_meta, common.run_driver(spec_reqs)):
        verdict, evs, _ = parse_spec_response(line)
        if verdict != "ok":
            ctx.fail(f"referee rejects the stream: {verdict}", dict(request=req))
            continue
        got = [e for e in evs.split(" ") if e.startswith("N")]
        want = [f"N{hx(p)}={term_text(i)}" for p, i in want_ns]
        if got != want:
            ctx.fail("namespace rows as read by the referee differ", dict(request=req, got=got, want=want))
    # rdflib integration
    reqs, resp = [], []
    for i in range(ctx.n(80, 800)):
        data_cls = r.choice("TQ")
        cls = "T" if data_cls == "T" else r.choice("QG")
        o = Opts(fs=r.choice([1, 3, 250]), lt=0, delim=True, ns=True, pn=r.choice([8, 4000]), pp=r.choice([1, 4, 150]), pd=8)
        stmts = _rdf11_statements(r, data_cls, o, r.randint(0, 6))
        store = _to_store(stmts, data_cls)
        extra = [(r.choice(["ex", "a1", "zz"]), URIRef(r.choice(["http://ns.example/", "http://x/y#", "urn:q:"]))) for _ in range(r.randint(0, 3))]
        # labels of the source for namespaces every fresh rdflib store pre-binds under another label
        if r.random() < 0.6:
            extra += r.sample([("dct", URIRef("http://purl.org/dc/terms/")), ("", URIRef("http://xmlns.com/foaf/0.1/")),
                               ("sch", URIRef("https://schema.org/")), ("w3owl", URIRef("http://www.w3.org/2002/07/owl#"))], r.randint(1, 2))
        for p, u in extra:
            store.bind(p, u)
        want_ns = [(p, str(u)) for p, u in store.namespaces()]
        req, line, b = rimpl.run_serr(cls, o, store)
        reqs.append(req)
        resp.append(line)
        ctx.case(("rdflib", req), True)
        if not line.endswith(" end"):
            continue
        flat = rimpl.run_par_flat(False, "seek", b)
        got_ns = [e for e in flat.split(" ") if e.startswith("N")]
        if got_ns != [f"N{hx(p)}=I{hx(u)}" for p, u in want_ns]:
            ctx.fail("rdflib: namespace declarations read back differ from Graph.namespaces()", dict(request=req, got=got_ns[:6]))
        back = Graph() if data_cls == "T" else Dataset()
        _ = back.namespace_manager  # rdflib creates it lazily and would re-bind its defaults over what was read
        try:
            back.parse(data=b, format="jelly")
        except Exception as e:  # noqa: BLE001
            ctx.fail(f"rdflib: a stream written with namespace declarations does not parse back ({type(e).__name__}: {e})", dict(request=req))
            continue
        # the grouped reader too (QUADS / GRAPHS streams go through another branch of it than TRIPLES streams)
        try:
            from pyjelly.integrations.rdflib.parse import parse_jelly_grouped as _rgrouped
            gsinks = list(_rgrouped(io.BytesIO(b)))
            ghave = {(p, str(u)) for sk in gsinks for p, u in sk.namespaces()}
            gmissing = [x for x in want_ns if x not in ghave]
            if gmissing:
                ctx.fail("rdflib: bindings missing from the graphs/datasets of parse_jelly_grouped", dict(request=req, missing=gmissing[:5]))
        except Exception as e:  # noqa: BLE001
            ctx.fail(f"rdflib parse_jelly_grouped raised {type(e).__name__} on a stream with namespace declarations: {e}", dict(request=req))
        have = {(p, str(u)) for p, u in back.namespaces()}
        missing = [x for x in want_ns if x not in have]
        if missing:
            ctx.fail("rdflib: bindings missing after Graph.parse", dict(request=req, missing=missing[:5]))
        ctx.dist["rdflib_bindings"] += len(want_ns)
        # the same store with the option OFF (through the stream functions, and through the plugin with everything guessed):
        # no declaration row may be written, and the statements are the same
        o_off = Opts(**{**o.__dict__})
        o_off.ns = False
        req2, line2, b2 = rimpl.run_serr(cls, o_off, store)
        reqs.append(req2)
        resp.append(line2)
        outs_off = [("stream functions", b2)] if line2.endswith(" end") and b2 else []
        try:
            outs_off.append(("plugin defaults", rimpl.plugin_serialize(store)))
        except Exception as e:  # noqa: BLE001
            ctx.fail(f"rdflib plugin with default options raised {type(e).__name__}", dict(request=req))
        for label, bb in outs_off:
            flat_off = rimpl.run_par_flat(False, "seek", bb)
            ctx.dist["rdflib_option_off"] += 1
            if any(e.startswith("N") for e in flat_off.split(" ")):
                ctx.fail(f"rdflib ({label}): namespace declarations written although the option is off",
                         dict(request=req2, declarations=[e for e in flat_off.split(" ") if e.startswith("N")][:4]))
            if label == "stream functions" and [e for e in flat_off.split(" ") if e.startswith("S")] != [e for e in flat.split(" ") if e.startswith("S")]:
                ctx.fail("rdflib: enabling namespace declarations changes the statements read back", dict(request=req))
    ctx.corr("SER-rdflib", reqs, resp)
    # the generic sink's own parse(): statements AND bindings of the stream end up in the sink
    for i in range(ctx.n(20, 200)):
        cls = r.choice("TQ")
        o = Opts(fs=r.choice([1, 250]), lt=0, gen=True, star=True, delim=r.random() < 0.8, ns=True, pn=16, pp=8, pd=8)
        stmts = gen_fitting(r, cls, o, r.randint(1, 5))
        g = gen.G(r)
        bindings = list({p: i_ for p, i_ in [(r.choice(["", "ex", "a", "p1"]), g.iri()) for _ in range(r.randint(1, 4))]}.items())
        line, b = impl.run_ser_frames(cls, o, mk_sink(stmts, bindings), is_sink=True)
        if not line.endswith(" end") or not b:
            continue
        sk = GenericStatementSink()
        try:
            sk.parse(io.BytesIO(b))
        except Exception as e:  # noqa: BLE001
            ctx.fail(f"GenericStatementSink.parse raised {type(e).__name__}", dict(bytes=b.hex()))
            continue
        ctx.case(("sink.parse", b.hex()), True)
        ctx.dist["generic_sink_parse"] += 1
        if [(p, term_text(i_)) for p, i_ in sk.namespaces] != [(p, term_text(i_)) for p, i_ in bindings]:
            ctx.fail("GenericStatementSink.parse: the sink's namespaces differ from the declarations in the stream",
                     dict(bytes=b.hex(), got=[(p, term_text(i_)) for p, i_ in sk.namespaces], want=[(p, term_text(i_)) for p, i_ in bindings]))
        if [stmt_text(x) for x in sk.store] != [stmt_text(x) for x in expected_events(stmts, cls)]:
            ctx.fail("GenericStatementSink.parse: the sink's statements differ from the stream", dict(bytes=b.hex()))


def check_C15(ctx: Ctx) -> None:
    import rimpl

    r = ctx.rng("agree")
    reqs, resp = [], []
    for i in range(ctx.n(200, 2000)):
        # RDF 1.1 valid streams from the reference encoder and from pyjelly
        if r.random() < 0.6:
            g = gen.G(r, star=False, generalized=False, case_langs=False)
            g.bnode = lambda: BlankNode(r.choice(["b0", "b1", "n1"]))  # rdflib-safe labels
            s = refenc.build_valid_stream(r, g, n_stmts=r.randint(0, 8))
            b = s["bytes"]
        else:
            cls = r.choice("TQG")
            o = rand_opts(r, cls, delimited=True, lt=0)
            stmts = _rdf11_statements(r, cls, o, r.randint(1, 8))
            line, b = impl.run_ser_frames(cls, o, stmts, is_sink=False)
            if not line.endswith(" end"):
                continue
        ctx.case(b.hex(), True, sample=dict(nbytes=len(b)))
        gflat = impl.run_par("flat", False, "seek", b)
        ggrp = impl.run_par("grouped", False, "seek", b)
        ggraph = impl.run_par("graph", False, "seek", b)
        reqs += [f"par flat 0 0 seek {b.hex()}", f"par flat 0 1 seek {b.hex()}"]
        rflat = rimpl.run_par_flat(False, "seek", b)
        resp += [rflat, gflat]
        # (a) one integration: flat == grouped concatenated == to_graph
        if gflat.endswith(" end"):
            flat_st = [e for e in gflat.split(" ")[:-1] if e.startswith("S")]
            grp_st = ["S" + st for sk in ggrp.rsplit(" ", 1)[0].split(" ") if sk for st in sk[1:-1].split("|", 1)[1].split("/") if st]
            graph_st = ["S" + st for st in ggraph.rsplit(" ", 1)[0][1:-1].split("|", 1)[1].split("/") if st] if ggraph.endswith(" end") else None
            if flat_st != grp_st or flat_st != graph_st:
                ctx.fail("generic flat / grouped / to_graph disagree", dict(bytes=b.hex()))
        # (b) across integrations, term for term
        if rflat != gflat:
            ctx.fail("rdflib and generic flat parsers disagree", dict(bytes=b.hex(), rdflib=rflat[:1500], generic=gflat[:1500]))
        empty_graph_iri = any(e.startswith("S") and len(e.split(",")) == 4 and e.split(",")[3] == "I" for e in gflat.split(" "))
        if gflat.endswith(" end") and not empty_graph_iri:  # rdflib cannot name a graph by the empty IRI
            sinks, err = rimpl.run_par_grouped(False, "seek", b)
            store, err2 = rimpl.run_par_graph("seek", b)
            want = sorted(set(e[1:] for e in gflat.split(" ")[:-1] if e.startswith("S")))
            if err or err2:
                ctx.fail(f"rdflib grouped/to_graph raised on a stream the flat parser accepts: {err or err2}", dict(bytes=b.hex()))
            else:
                if sorted(set(x for sk in sinks for x in sk)) != want or rimpl.store_quads(store) != want:
                    ctx.fail("rdflib flat / grouped / to_graph disagree", dict(bytes=b.hex()))
        ctx.dist["streams"] += 1
    # corpus: typed literals in legal but non-canonical lexical forms must come out of both integrations unchanged
    XS = gen.XSD
    lits = [("01", XS + "integer"), ("+7", XS + "integer"), ("1", XS + "boolean"), ("1.0E0", XS + "double"), ("1.50", XS + "decimal"),
            ("2020-01-01T00:00:00Z", XS + "dateTime"), ("abc", XS + "integer"), ("x", XS + "string"), (" 1 ", XS + "int")]
    stmts = [Triple(IRI("http://c/s"), IRI("http://c/p"), Literal(lex, datatype=dt)) for lex, dt in lits]
    line, b = impl.run_ser_frames("T", Opts(pn=8, pp=4, pd=16), stmts, is_sink=False)
    gflat = impl.run_par("flat", False, "seek", b)
    rflat = rimpl.run_par_flat(False, "seek", b)
    reqs += [f"par flat 0 0 seek {b.hex()}", f"par flat 0 1 seek {b.hex()}"]
    resp += [rflat, gflat]
    ctx.case("corpus:noncanonical-lexical-forms", True)
    if rflat != gflat:
        ctx.fail("rdflib and generic flat parsers disagree on non-canonical lexical forms", dict(bytes=b.hex(), rdflib=rflat[:800], generic=gflat[:800]))
    # corpus: the same lexical form under language tags that differ only in letter case (equal for rdflib's Literal.__eq__,
    # different on the wire), on different subjects and in different frames: every entry point must hand back the tag as written
    for fs in (1, 3, 250):
        tags = ["de-CH", "de-ch", "DE-CH", "en-GB", "en-gb", "en", "EN"]
        stmts = [Triple(IRI(f"http://c/s{j}"), IRI("http://c/p"), Literal(lex, langtag=tag))
                 for j, (lex, tag) in enumerate([(lx, tg) for lx in ("Zürich", "x") for tg in tags])]
        line, b = impl.run_ser_frames("T", Opts(fs=fs, pn=16, pp=4, pd=4), stmts, is_sink=False)
        gflat = impl.run_par("flat", False, "seek", b)
        rflat = rimpl.run_par_flat(False, "seek", b)
        reqs += [f"par flat 0 0 seek {b.hex()}", f"par flat 0 1 seek {b.hex()}"]
        resp += [rflat, gflat]
        ctx.case(("corpus:case-variant-language-tags", fs), True)
        want = sorted(e[1:] for e in gflat.split(" ")[:-1] if e.startswith("S"))
        if rflat != gflat or len(want) != len(stmts):
            ctx.fail("rdflib and generic flat parsers disagree on language tags that differ only in case", dict(bytes=b.hex(), rdflib=rflat[:800], generic=gflat[:800]))
        sinks, err = rimpl.run_par_grouped(False, "seek", b)
        store, err2 = rimpl.run_par_graph("seek", b)
        if err or err2:
            ctx.fail(f"rdflib grouped/to_graph raised: {err or err2}", dict(bytes=b.hex()))
        elif sorted(x for sk in sinks for x in sk) != want or sorted(rimpl.store_quads(store)) != want:
            ctx.fail("rdflib grouped / to_graph change language tags that differ only in case",
                     dict(bytes=b.hex(), grouped=sorted(x for sk in sinks for x in sk)[:6], to_graph=sorted(rimpl.store_quads(store))[:6], want=want[:6]))
    ctx.corr("PARSE-rdflib", reqs, resp)
    # (c) both serializers, corresponding data, same options: byte-identical
    reqs, resp = [], []
    for i in range(ctx.n(200, 2000)):
        cls = r.choice("TQ")
        o = rand_opts(r, cls)
        o.gen = o.star = False
        stmts = _rdf11_statements(r, cls, o, r.randint(0, 10))
        gline, gb = impl.run_ser_frames(cls, o, stmts, is_sink=False)
        rdata = [tuple(rimpl.to_rdflib(t) for t in st) for st in stmts]
        req, rline, rb = rimpl.run_serr(cls, o, rdata)
        reqs.append(req)
        resp.append(rline)
        ctx.case(("ser-pair", cls, o.token(), stmts_text(stmts)), len(stmts) >= 2)
        ctx.dist["serializer_pairs"] += 1
        if gline != rline:
            ctx.fail("generic and rdflib serializers differ on corresponding data", dict(request=req, generic=gline[:600], rdflib=rline[:600]))
    # (c2) the same with namespace declarations: an rdflib Graph / Dataset with its bindings against a generic sink holding
    # the same statements in the same order and the same bindings in the same order, small frame sizes included
    import rdflib

    def from_rdflib(t):
        if isinstance(t, rdflib.URIRef):
            return DefaultGraph if t == rdflib.graph.DATASET_DEFAULT_GRAPH_ID else IRI(str(t))
        if isinstance(t, rdflib.BNode):
            return BlankNode(str(t))
        return Literal(str(t), langtag=t.language, datatype=None if t.datatype is None else str(t.datatype))

    for i in range(ctx.n(60, 600)):
        cls = r.choice("TQ")
        o = rand_opts(r, cls, delimited=True)
        o.gen = o.star = False
        o.ns = True
        o.fs = r.choice([1, 2, 4, 8, 250])
        stmts = _rdf11_statements(r, cls, o, r.randint(1, 8))
        if not stmts:
            continue
        store = _to_store(stmts, cls)
        for j in range(r.randint(0, 3)):
            store.bind(f"u{j}", rdflib.URIRef(r.choice(["http://u.example/a#", "http://u.example/b/", "urn:u:"])), override=True, replace=True)
        req, rline, rb = rimpl.run_serr(cls, o, store)
        reqs.append(req)
        resp.append(rline)
        if cls == "T":
            ordered = [Triple(*(from_rdflib(t) for t in st)) for st in store]
        else:
            ordered = [Quad(from_rdflib(s_), from_rdflib(p_), from_rdflib(o_), from_rdflib(g_.identifier if isinstance(g_, rdflib.Graph) else g_))
                       for s_, p_, o_, g_ in store.quads()]
        sink = mk_sink(ordered, [(pfx, IRI(str(ns))) for pfx, ns in store.namespaces()])
        gline, gb = impl.run_ser_frames(cls, o, sink, is_sink=True)
        ctx.case(("ser-pair-ns", cls, o.token(), stmts_text(ordered)), True)
        ctx.dist["serializer_pairs_with_namespaces"] += 1
        if gline != rline:
            ctx.fail("generic and rdflib serializers differ on corresponding data with namespace declarations",
                     dict(request=req[:1500], generic=gline[:400], rdflib=rline[:400], frame_size=o.fs))
    # (c3) several stores through ONE stream (grouped entry points), with bindings shared between the stores
    from pyjelly.integrations.generic import serialize as gser
    from pyjelly.integrations.rdflib import serialize as rser
    for i in range(ctx.n(40, 400)):
        cls = r.choice("TQ")
        o = Opts(fs=r.choice([1, 4, 250]), lt=r.choice([0, 3 if cls == "T" else 4]), gen=False, star=False, delim=True, ns=r.random() < 0.7,
                 pn=r.choice([16, 128]), pp=r.choice([0, 4, 32]), pd=8)
        stores, sinks = [], []
        for j in range(r.randint(2, 3)):
            stmts = _rdf11_statements(r, cls, o, r.randint(1, 5))
            if not stmts:
                continue
            store = _to_store(stmts, cls)
            store.bind("ex", rdflib.URIRef("http://shared.example/ns#"), override=True, replace=True)
            if r.random() < 0.5:
                store.bind(f"own{j}", rdflib.URIRef(f"http://own{j}.example/"), override=True, replace=True)
            if cls == "T":
                ordered = [Triple(*(from_rdflib(t) for t in st)) for st in store]
            else:
                list(store.graphs())
                ordered = [Quad(from_rdflib(s_), from_rdflib(p_), from_rdflib(o_), from_rdflib(g_.identifier if isinstance(g_, rdflib.Graph) else g_))
                           for s_, p_, o_, g_ in store.quads()]
            stores.append(store)
            sinks.append(mk_sink(ordered, [(pfx, IRI(str(ns))) for pfx, ns in store.namespaces()]))
        if len(stores) < 2:
            continue
        try:
            rb = impl.frames_bytes(list(rser.grouped_stream_to_frames((st for st in stores), options=o.real())), True)
            gb = impl.frames_bytes(list(gser.grouped_stream_to_frames((sk for sk in sinks), options=o.real())), True)
        except Exception as e:  # noqa: BLE001
            ctx.fail(f"grouped serialization raised {type(e).__name__}: {e}", dict(opts=o.describe()))
            continue
        ctx.case(("ser-pair-grouped", cls, o.token(), tuple(len(sk) for sk in sinks)), True)
        ctx.dist["serializer_pairs_grouped"] += 1
        if rb != gb:
            ctx.fail("generic and rdflib GROUPED serializers differ on corresponding stores sharing one stream",
                     dict(opts=o.describe(), generic=gb.hex()[:400], rdflib=rb.hex()[:400], stores=[len(sk) for sk in sinks]))
    # (c3b) which configurations the two grouped entry points ACCEPT: the same options (every grouped logical type, base and
    # sub-types) on corresponding stores are accepted by both integrations or refused by both
    for data_cls in "TQ":
        for lt in (3, 13, 4, 14, 114, 1, 2):
            o = Opts(fs=250, lt=lt, gen=False, star=False, delim=True, pn=16, pp=4, pd=4)
            stmts = _rdf11_statements(r, data_cls, o, 2)
            if not stmts:
                continue
            store = _to_store(stmts, data_cls)
            sink = mk_sink([type(st)(*st) for st in stmts])
            outcome = {}
            for name, fn, data in (("rdflib", rser.grouped_stream_to_frames, store), ("generic", gser.grouped_stream_to_frames, sink)):
                try:
                    frames = list(fn((x for x in [data]), options=o.real()))
                    outcome[name] = "ok" if frames else "nothing"
                except Exception as e:  # noqa: BLE001
                    outcome[name] = "raised"
            ctx.case(("ser-pair-accept", data_cls, lt), True)
            ctx.dist["serializer_pairs_acceptance"] += 1
            if outcome["rdflib"] != outcome["generic"]:
                ctx.fail(f"grouped_stream_to_frames with logical type {lt} on a {'Graph' if data_cls == 'T' else 'Dataset'}: rdflib {outcome['rdflib']}, generic {outcome['generic']}",
                         dict(opts=o.describe(), data=data_cls))
    # (c4) the SAME generic term objects written twice, under different prefix-table settings: nothing may be remembered on the
    # terms between two serializations
    for i in range(ctx.n(40, 400)):
        cls = r.choice("TQ")
        o1 = Opts(fs=250, lt=0, gen=False, star=False, delim=True, pn=32, pp=r.choice([4, 16]), pd=8)
        stmts = _rdf11_statements(r, cls, o1, r.randint(2, 8))
        if not stmts:
            continue
        o2 = Opts(fs=250, lt=0, gen=False, star=False, delim=True, pn=64, pp=0, pd=8)
        order = [o1, o2] if r.random() < 0.5 else [o2, o1]
        rdata = [tuple(rimpl.to_rdflib(t) for t in st) for st in stmts]
        ctx.case(("ser-pair-reuse", cls, stmts_text(stmts)), True)
        ctx.dist["serializer_pairs_same_terms_twice"] += 1
        for oo in order:
            gline, gb2 = impl.run_ser_frames(cls, oo, stmts, is_sink=False)   # the same Triple/IRI objects each time
            req, rline, rb2 = rimpl.run_serr(cls, oo, rdata)
            reqs.append(req)
            resp.append(rline)
            if gline != rline:
                ctx.fail("generic and rdflib serializers differ when the same term objects are written a second time under other options",
                         dict(request=req[:1200], generic=gline[:300], rdflib=rline[:300]))
    ctx.corr("SER-rdflib", reqs, resp)

"""./check <PROPERTY> [--tier quick|thorough]   (honours VERIF_SEED, VERIF_TIER, VERIF_REPO)

exit 0 = property held on everything explored; exit 1 + `VIOLATION property=<id> replay=<path>`;
exit 2 = tooling failure (never disguised as a pass or a violation).
"""
from __future__ import annotations

import sys
import time
import traceback


def main(argv: list[str]) -> int:
    import os

    if len(argv) < 2:
        print(__doc__)
        return 2
    pid = argv[1]
    if "--tier" in argv:
        os.environ["VERIF_TIER"] = argv[argv.index("--tier") + 1]
    try:
        import common
        import framework
        import props
        import registry
    except SystemExit:
        raise
    except Exception:  # noqa: BLE001
        traceback.print_exc()
        return 2
    if "--replay" in argv:
        import replay
        return replay.replay_file(argv[argv.index("--replay") + 1])
    if pid not in registry.REGISTRY:
        print(f"unknown or unclaimed property {pid}")
        return 2
    spec = registry.REGISTRY[pid]
    ctx = framework.Ctx(pid, common.tier(), common.seed())
    try:
        b = framework.build(pid, spec["modules"], list(spec["theorems"]) + list(spec.get("table_theorems", [])), ctx.tier)
        if not b.driver_ok:
            print("tooling failure: the model or its driver does not build\n" + b.log[-3000:])
            return 2
        # everything below runs the code under test in this process: bound the address space, so that a change that makes
        # it allocate without limit ends in a MemoryError here instead of taking the machine down
        try:
            import resource
            soft, hard = resource.getrlimit(resource.RLIMIT_AS)
            limit = 16 << 30
            if hard == resource.RLIM_INFINITY or hard > limit:
                resource.setrlimit(resource.RLIMIT_AS, (limit, hard))
        except Exception:  # noqa: BLE001
            pass
        cov = None
        if ctx.tier == "thorough" or os.environ.get("VERIF_COVERAGE") == "1":
            try:
                import coverage  # line coverage of the code under test while the check runs (in-process part only)
                cov = coverage.Coverage(data_file=None, include=[str(common.REPO / "pyjelly" / "*")], omit=["*/rdf_pb2.py"])
                cov.start()
            except Exception:  # noqa: BLE001
                cov = None
        import signal

        def _budget(*_):
            raise framework.CaseBudgetExceeded

        try:
            framework.run_corpus(ctx)
            old_prof = signal.signal(signal.SIGPROF, _budget)
            signal.setitimer(signal.ITIMER_PROF, 4 * ctx.CASE_CPU_BUDGET)
            try:
                getattr(props, f"check_{pid}")(ctx)
            except framework.CaseBudgetExceeded:
                ctx.fail(f"the code under test did not finish one case within {ctx.CASE_CPU_BUDGET:.0f} s of CPU (it hangs, spins or has become "
                         "super-linear); the rest of the exploration was abandoned", dict(case=getattr(ctx, "last_case", None)))
            finally:
                signal.setitimer(signal.ITIMER_PROF, 0)
                signal.signal(signal.SIGPROF, old_prof)
        finally:
            if cov is not None:
                cov.stop()
                per_file, missing_lines = {}, {}
                for fn in sorted(cov.get_data().measured_files()):
                    try:
                        _, stmts, _, missing, _ = cov.analysis2(fn)
                        # lines executed at import time (module/class level, `def` headers) ran before measurement started:
                        # count only lines inside function bodies
                        import ast
                        body_lines = set()
                        for node in ast.walk(ast.parse(open(fn).read())):
                            if isinstance(node, (ast.FunctionDef, ast.AsyncFunctionDef)):
                                for st in node.body:
                                    body_lines.update(range(st.lineno, (st.end_lineno or st.lineno) + 1))
                        stmts = [x for x in stmts if x in body_lines]
                        missing = [x for x in missing if x in body_lines]
                        if stmts:
                            per_file[os.path.relpath(fn, common.REPO)] = round(100.0 * (len(stmts) - len(missing)) / len(stmts), 1)
                            missing_lines[os.path.relpath(fn, common.REPO)] = missing
                    except Exception:  # noqa: BLE001
                        pass
                ctx.extra["line_coverage_percent_of_pyjelly_files_during_this_run"] = per_file
                if os.environ.get("VERIF_COVERAGE_DUMP"):  # developer aid: which lines of the code under test this check never ran
                    import json
                    with open(os.environ["VERIF_COVERAGE_DUMP"], "w") as fh:
                        json.dump(missing_lines, fh)
        return framework.finish(ctx, b, spec)
    except common.DriverError as e:
        print(f"tooling failure: {e}")
        return 2
    except Exception:  # noqa: BLE001
        traceback.print_exc()
        print("tooling failure (exception in the harness)")
        return 2


if __name__ == "__main__":
    t0 = time.time()
    sys.exit(main(sys.argv))

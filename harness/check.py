"""./check <PROPERTY> [--tier quick|thorough]   (honours VERIF_SEED, VERIF_TIER, VERIF_REPO)

exit 0 = property held on everything explored; exit 1 + `VIOLATION property=<id> replay=<path>`;
exit 2 = tooling failure (never disguised as a pass or a violation).
"""
from __future__ import annotations

import sys
import time
import traceback


def main(argv: list[str]) -> int:
    import os

    if len(argv) < 2:
        print(__doc__)
        return 2
    pid = argv[1]
    if "--tier" in argv:
        os.environ["VERIF_TIER"] = argv[argv.index("--tier") + 1]
    try:
        import common
        import framework
        import props
        import registry
    except SystemExit:
        raise
    except Exception:  # noqa: BLE001
        traceback.print_exc()
        return 2
    if "--replay" in argv:
        import replay
        return replay.replay_file(argv[argv.index("--replay") + 1])
    if pid not in registry.REGISTRY:
        print(f"unknown or unclaimed property {pid}")
        return 2
    spec = registry.REGISTRY[pid]
    ctx = framework.Ctx(pid, common.tier(), common.seed())
    try:
        b = framework.build(pid, spec["modules"], list(spec["theorems"]) + list(spec.get("table_theorems", [])), ctx.tier)
        if not b.driver_ok:
            print("tooling failure: the model or its driver does not build\n" + b.log[-3000:])
            return 2
        framework.run_corpus(ctx)
        getattr(props, f"check_{pid}")(ctx)
        return framework.finish(ctx, b, spec)
    except common.DriverError as e:
        print(f"tooling failure: {e}")
        return 2
    except Exception:  # noqa: BLE001
        traceback.print_exc()
        print("tooling failure (exception in the harness)")
        return 2


if __name__ == "__main__":
    t0 = time.time()
    sys.exit(main(sys.argv))

"""Render seeded/RESULTS.json + meta.json files as the markdown table of DESIGN.md §10."""
import json
from pathlib import Path

V = Path(__file__).resolve().parent.parent
res = json.loads((V / "seeded" / "RESULTS.json").read_text())
rows = []
for sid in sorted(res):
    r = res[sid]
    meta = json.loads((V / "seeded" / sid / "meta.json").read_text())
    notes = (V / "seeded" / sid / "notes.md").read_text().strip().split("\n")
    title = meta.get("summary") or next((l.strip("# ").strip() for l in notes if l.strip()), "")[:110]
    d = r.get("detail", {})
    target = d.get(r["property"], {})
    own = "yes" if target.get("exit") == 1 and target.get("violation") and "no-failing" not in target["violation"] else (
        "yes (no-failing-input-found)" if target.get("exit") == 1 else "NO")
    others = [p for p, v in d.items() if v["exit"] == 1 and p != r["property"]]
    rows.append(f"| `{sid}` | {r['property']} | {title} | {own} | {' '.join(others) or '—'} |")
print("| seeded change | breaks | what it is | caught by its property's check (with a failing input) | also raises |")
print("|---|---|---|---|---|")
print("\n".join(rows))

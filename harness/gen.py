"""Input generators: terms, statements, options. Everything derives from one `random.Random`.

Biased towards small key alphabets, repeats and near-repeats so that lookup hits, evictions,
zero deltas and repeated terms all occur; includes empty strings, non-ASCII, IRIs without
separators, IRIs ending in a separator, nested quoted triples and generalized positions.
"""
from __future__ import annotations

import random

from impl import IRI, BlankNode, DefaultGraph, Literal, Opts, Quad, Triple, UNSUPPORTED
from common import bn_id, iri_s, lit_dt, lit_lang, lit_lex  # noqa: E402

XSD = "http://www.w3.org/2001/XMLSchema#"
PREFIXES = ["http://a.example/", "http://a.example/ns#", "http://b.example/x/", "urn:x:", "", "http://ü.example/ü/",
            "http://c.example/deep/path/", "https://d.example/#", "http://e.example/q?x=1/", "mailto:"]
NAMES = ["a", "b", "c", "", "n1", "n2", "n3", "ü", "日本", "x y", "n4", "n5", "n6", "n7", "n8", "n9", "n10", "n11", "long-name-0123456789"]
NOSEP = ["urn:isbn:0451450523", "plain", "", "a:b", "ü"]
LANGS = ["en", "en-US", "de", "ja"]
LANGS_CASE = ["en-GB", "en-gb", "EN", "En-Us"]  # same tag up to letter case: distinct terms for the generic API
DTS = [XSD + "integer", XSD + "decimal", XSD + "date", "http://dt.example/t1", "urn:dt:2", "dt-no-sep", XSD + "string"]
LEX = ["", "1", "01", "hello", "ü", "日本語", "a\nb", " ", "1.50", "x" * 40, "\x00", "\"q\""]
BN = ["b0", "b1", "", "ü", "n 1"]


class G:
    def __init__(self, r: random.Random, *, n_prefixes=4, n_names=6, n_dts=3, star=True, generalized=True,
                 typed=True, case_langs=True):
        self.langs = LANGS + (LANGS_CASE if case_langs else [])
        self.r = r
        self.prefixes = r.sample(PREFIXES, min(n_prefixes, len(PREFIXES)))
        self.names = r.sample(NAMES, min(n_names, len(NAMES)))
        self.dts = r.sample(DTS, min(n_dts, len(DTS)))
        self.star, self.generalized, self.typed = star, generalized, typed

    def iri(self):
        r = self.r
        if r.random() < 0.08:
            return IRI(r.choice(NOSEP))
        return IRI(r.choice(self.prefixes) + r.choice(self.names))

    def bnode(self):
        return BlankNode(self.r.choice(BN))

    def literal(self):
        r = self.r
        k = r.random()
        if k < 0.35:
            return Literal(r.choice(LEX))
        if k < 0.55:
            return Literal(r.choice(LEX), langtag=r.choice(self.langs))
        if not self.typed:
            return Literal(r.choice(LEX))
        return Literal(r.choice(LEX), datatype=r.choice(self.dts))

    def quoted(self, depth):
        return Triple(self.term("s", depth + 1), self.term("p", depth + 1), self.term("o", depth + 1))

    def term(self, pos: str, depth: int = 0):
        r = self.r
        x = r.random()
        if self.star and pos != "g" and depth < 3 and x < (0.10 if depth == 0 else 0.15):
            return self.quoted(depth)
        if pos == "p":
            if self.generalized and x < 0.25:
                return r.choice([self.bnode, self.literal])()
            return self.iri()
        if pos == "s":
            if self.generalized and x < 0.25:
                return self.literal()
            return r.choice([self.iri, self.iri, self.bnode])()
        if pos == "o":
            return r.choice([self.iri, self.bnode, self.literal, self.literal])()
        # graph
        if x < 0.25:
            return DefaultGraph
        if self.generalized and x < 0.35:
            return self.literal()
        return r.choice([self.iri, self.iri, self.bnode])()

    def triple(self, prev=None):
        r = self.r
        s, p, o = self.term("s"), self.term("p"), self.term("o")
        if prev is not None:
            if r.random() < 0.4:
                s = prev[0]
            if r.random() < 0.5:
                p = prev[1]
            if r.random() < 0.15:
                o = prev[2]
                if isinstance(o, Literal) and lit_lang(o) and len(self.langs) > len(LANGS) and r.random() < 0.5:
                    o = Literal(lit_lex(o), langtag=lit_lang(o).swapcase())
        return Triple(s, p, o)

    def quad(self, prev=None):
        r = self.r
        t = self.triple(prev)
        g = self.term("g")
        if prev is not None and len(prev) > 3 and r.random() < 0.6:
            g = prev[3]
        return Quad(t.s, t.p, t.o, g)

    def statements(self, n: int, quads: bool):
        out, prev = [], None
        for _ in range(n):
            st = self.quad(prev) if quads else self.triple(prev)
            if prev is not None and self.r.random() < 0.07:
                st = prev  # exact duplicate
            out.append(st)
            prev = st
        return out


PRESETS = [(8, 0, 0), (8, 1, 1), (8, 2, 2), (8, 3, 3), (9, 3, 1), (16, 8, 8), (8, 8, 0), (8, 0, 8),
           (4000, 150, 32), (4096, 4096, 4096), (128, 32, 32)]
FRAME_SIZES = [1, 2, 3, 7, 250]
LOGICAL = [0, 1, 2, 3, 4, 13, 14, 114]
STREAM_NAMES = ["", "s", "stream-ü", "x" * 3, "x" * 120]


def distinct_needs(st) -> tuple[int, int, int]:
    """How many distinct prefix / name / datatype entries one statement touches (prefix table on)."""
    from pyjelly.serialize.encode import split_iri

    pf, nm, dt = set(), set(), set()

    def walk(t):
        if isinstance(t, IRI):
            p, n = split_iri(iri_s(t))
            pf.add(p)
            nm.add(n)
        elif isinstance(t, Literal):
            if lit_dt(t) and lit_dt(t) != XSD + "string":
                dt.add(lit_dt(t))
        elif isinstance(t, Triple):
            for x in t:
                walk(x)

    for t in st:
        walk(t)
    return len(pf), len(nm), len(dt)


def full_iri_needs(st) -> int:
    """Distinct full IRIs of a statement (the name entries needed when the prefix table is off)."""
    names = set()

    def walk(t):
        if isinstance(t, IRI):
            names.add(iri_s(t))
        elif isinstance(t, Triple):
            for x in t:
                walk(x)

    for t in st:
        walk(t)
    return len(names)


def fits(stmts, pn: int, pp: int, pd: int) -> bool:
    """C01's sizing hypothesis: each enabled table can hold the entries one statement needs."""
    for st in stmts:
        a, b, c = distinct_needs(st)
        if pp == 0:
            if full_iri_needs(st) > pn:
                return False
        else:
            if a > pp or b > pn:
                return False
        if c > pd:
            return False  # also: a typed literal cannot be written at all with a disabled datatype table
    return True


def has_typed(stmts) -> bool:
    return any(distinct_needs(st)[2] > 0 for st in stmts)


def wf_term(t) -> bool:
    """Term.WF of DESIGN §6: language tag non-empty if present, not both language and datatype,
    datatype non-empty if present."""
    if isinstance(t, Literal):
        if lit_lang(t) is not None and (lit_lang(t) == "" or lit_dt(t) is not None):
            return False
        if lit_dt(t) is not None and lit_dt(t) == "":
            return False
    if isinstance(t, Triple):
        return all(wf_term(x) for x in t)
    return True


def normalize_term(t):
    """xsd:string typed literal == plain literal."""
    if isinstance(t, Literal) and lit_dt(t) == XSD + "string":
        return Literal(lit_lex(t), lit_lang(t), None)
    if isinstance(t, Triple):
        return Triple(*(normalize_term(x) for x in t))
    return t


def normalize_stmt(st):
    return type(st)(*(normalize_term(t) for t in st))


__all__ = ["G", "PRESETS", "FRAME_SIZES", "LOGICAL", "STREAM_NAMES", "Opts", "UNSUPPORTED"]

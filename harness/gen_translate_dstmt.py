"""Translator, part 7: the statement level of the reader -> lean/JellyGenerated/DStmtGen.lean.

    pyjelly/parse/decode.py : Decoder.decode_statement, Decoder.decode_triple, Decoder.decode_quad

The reader-side counterpart of `encode_spo` / `encode_triple` / `encode_quad`: a slot that is set in the message is decoded and
remembered, a slot that is not set is taken from the repeated terms (KeyError when there is none yet). Pattern-directed, names
free; anything else in these methods is outside the fragment (exit 3).

* the statement message is the record `PStmt`; `statement.WhichOneof(k)` followed by `getattr(statement, field)` is the optional
  wire term of slot `k` (`pstmtGet`);
* `self.repeated_terms` (a dict keyed by the slot name) is the model's `rep`; reading a missing key raises KeyError (`repGet`);
  the `is None` test after the read is dead code (only decoded terms are ever stored) and is not translated;
* `for oneof in oneofs` is a Lean `for` over the list of slot names the caller passes;
* `self.decode_term(t)` — the dispatch over the term kinds, not translated — is the PARAMETER `dec`; the theorems hold for every
  `dec` that behaves like the model's `DecState.decodeTerm`;
* the adapter call that ends `decode_triple` / `decode_quad` is the result: the list of terms is returned.
"""
from __future__ import annotations

import ast
import sys
from pathlib import Path

import common  # noqa: F401
from gen_translate import Unsupported, fail

REPO = Path(common.REPO)
OUT = Path(__file__).resolve().parent.parent / "lean" / "JellyGenerated" / "DStmtGen.lean"
SRC = "pyjelly/parse/decode.py"
SLOTS = {"subject": "SlotName.subject", "predicate": "SlotName.predicate", "object": "SlotName.object", "graph": "SlotName.graph"}


class DecodeStatement:
    def __init__(self, fn: ast.FunctionDef):
        self.fn = fn
        a = fn.args
        if len(a.args) != 3 or a.vararg or a.kwarg or a.kwonlyargs or a.defaults:
            fail(fn, "parameter list")
        self.stmt_p, self.oneofs_p = a.args[1].arg, a.args[2].arg
        self.lines: list[str] = []

    def emit(self, ind: int, s: str) -> None:
        self.lines.append("  " * ind + s)

    def is_rep(self, e, key: str) -> bool:
        return isinstance(e, ast.Subscript) and ast.unparse(e.value) == "self.repeated_terms" and getattr(e.slice, "id", None) == key

    def body(self, ind: int, stmts: list[ast.stmt]) -> None:  # noqa: C901, PLR0912
        for s in stmts:
            if isinstance(s, ast.Expr) and isinstance(s.value, ast.Constant) and isinstance(s.value.value, str):
                continue
            if isinstance(s, ast.Assign) and len(s.targets) == 1 and isinstance(s.targets[0], ast.Name):
                tg, v = s.targets[0].id, s.value
                if isinstance(v, ast.List) and not v.elts:
                    self.lists.add(tg)
                    self.emit(ind, f"{tg} := ([] : List Term)")
                    continue
                # field = statement.WhichOneof(oneof)
                if isinstance(v, ast.Call) and isinstance(v.func, ast.Attribute) and v.func.attr == "WhichOneof" and getattr(v.func.value, "id", None) == self.stmt_p \
                        and len(v.args) == 1 and getattr(v.args[0], "id", None) == self.loopvar:
                    self.fields.add(tg)
                    self.emit(ind, f"{tg} := pstmtGet {self.stmt_p} {self.loopvar}")
                    continue
                # jelly_term = getattr(statement, field)
                if isinstance(v, ast.Call) and getattr(v.func, "id", None) == "getattr" and len(v.args) == 2 and getattr(v.args[0], "id", None) == self.stmt_p \
                        and getattr(v.args[1], "id", None) in self.fields:
                    self.wterms.add(tg)
                    self.emit(ind, f"{tg} := (← liftE (optGet {v.args[1].id}))")
                    continue
                # decoded_term = self.decode_term(jelly_term)
                if isinstance(v, ast.Call) and ast.unparse(v.func) == "self.decode_term" and len(v.args) == 1 and getattr(v.args[0], "id", None) in self.wterms:
                    self.terms.add(tg)
                    self.emit(ind, f"{tg} := (← dec {v.args[0].id})")
                    continue
                # decoded_term = self.repeated_terms[oneof]
                if self.is_rep(v, self.loopvar):
                    self.terms.add(tg)
                    self.emit(ind, f"{tg} := (← liftE (repGet (← get).rep {self.loopvar}))")
                    continue
                fail(s, "assignment")
            # self.repeated_terms[oneof] = decoded_term
            if isinstance(s, ast.Assign) and len(s.targets) == 1 and self.is_rep(s.targets[0], self.loopvar) and getattr(s.value, "id", None) in self.terms:
                self.emit(ind, f"modify fun d => {{ d with rep := repSet d.rep {self.loopvar} {s.value.id} }}")
                continue
            # if field: ... else: ...
            if isinstance(s, ast.If) and getattr(s.test, "id", None) in self.fields:
                self.emit(ind, f"if ({s.test.id}).isSome then")
                self.body(ind + 1, s.body)
                if s.orelse:
                    self.emit(ind, "else")
                    self.body(ind + 1, s.orelse)
                continue
            # if decoded_term is None: raise ...   (dead: only decoded terms are stored)
            if isinstance(s, ast.If) and not s.orelse and isinstance(s.test, ast.Compare) and len(s.test.ops) == 1 and isinstance(s.test.ops[0], ast.Is) \
                    and getattr(s.test.left, "id", None) in self.terms and isinstance(s.test.comparators[0], ast.Constant) and s.test.comparators[0].value is None \
                    and isinstance(s.body[-1], ast.Raise):
                continue
            # terms.append(decoded_term)
            if isinstance(s, ast.Expr) and isinstance(s.value, ast.Call) and isinstance(s.value.func, ast.Attribute) and s.value.func.attr == "append" \
                    and getattr(s.value.func.value, "id", None) in self.lists and len(s.value.args) == 1 and getattr(s.value.args[0], "id", None) in self.terms:
                lst = s.value.func.value.id
                self.emit(ind, f"{lst} := {lst} ++ [{s.value.args[0].id}]")
                continue
            if isinstance(s, ast.For) and not s.orelse and isinstance(s.target, ast.Name) and getattr(s.iter, "id", None) == self.oneofs_p and self.loopvar is None:
                self.loopvar = s.target.id
                self.emit(ind, f"for {self.loopvar} in {self.oneofs_p} do")
                # locals of the loop body
                names = []
                for node in ast.walk(s):
                    if isinstance(node, ast.Assign) and len(node.targets) == 1 and isinstance(node.targets[0], ast.Name) and node.targets[0].id not in names \
                            and not isinstance(node.value, (ast.JoinedStr, ast.Constant)):   # (the text of an error message is not a local of the model)
                        names.append(node.targets[0].id)
                kinds = self.local_kinds(s)
                for n in names:
                    self.emit(ind + 1, f"let mut {n} : {kinds[n]} := default")
                self.body(ind + 1, s.body)
                self.loopvar = None
                continue
            if isinstance(s, ast.Return) and getattr(s.value, "id", None) in self.lists:
                self.emit(ind, f"return {s.value.id}")
                continue
            fail(s, "statement")

    @staticmethod
    def local_kinds(loop: ast.For) -> dict[str, str]:
        kinds = {}
        for node in ast.walk(loop):
            if isinstance(node, ast.Assign) and len(node.targets) == 1 and isinstance(node.targets[0], ast.Name):
                v = node.value
                k = "Term"
                if isinstance(v, ast.Call) and isinstance(v.func, ast.Attribute) and v.func.attr == "WhichOneof":
                    k = "Option WTerm"
                elif isinstance(v, ast.Call) and getattr(v.func, "id", None) == "getattr":
                    k = "WTerm"
                kinds.setdefault(node.targets[0].id, k)
        return kinds

    def render(self) -> str:
        self.lists, self.fields, self.wterms, self.terms = set(), set(), set(), set()
        self.loopvar = None
        self.lines = [f"def Decoder.decode_statement (dec : WTerm → M DecState Term) ({self.stmt_p} : PStmt) ({self.oneofs_p} : List SlotName) : M DecState (List Term) := do"]
        top = [s.targets[0].id for s in self.fn.body if isinstance(s, ast.Assign) and len(s.targets) == 1 and isinstance(s.targets[0], ast.Name)]
        for n in top:
            self.emit(1, f"let mut {n} : List Term := []")
        self.body(1, self.fn.body)
        return "\n".join(self.lines)


def render_caller(fn: ast.FunctionDef) -> str:
    """terms = self.decode_statement(<msg>, (<slot names>)); return self.adapter.<triple|quad>(terms)"""
    body = [s for s in fn.body if not (isinstance(s, ast.Expr) and isinstance(s.value, ast.Constant))]
    a = fn.args
    if len(a.args) != 2 or len(body) != 2:
        fail(fn, "shape")
    msg = a.args[1].arg
    s0, s1 = body
    if not (isinstance(s0, ast.Assign) and len(s0.targets) == 1 and isinstance(s0.targets[0], ast.Name) and isinstance(s0.value, ast.Call)
            and ast.unparse(s0.value.func) == "self.decode_statement" and len(s0.value.args) == 2 and not s0.value.keywords
            and getattr(s0.value.args[0], "id", None) == msg and isinstance(s0.value.args[1], ast.Tuple)
            and all(isinstance(e, ast.Constant) and e.value in SLOTS for e in s0.value.args[1].elts)):
        fail(s0, "call of decode_statement")
    local = s0.targets[0].id
    if not (isinstance(s1, ast.Return) and isinstance(s1.value, ast.Call) and ast.unparse(s1.value.func) in ("self.adapter.triple", "self.adapter.quad")
            and len(s1.value.args) == 1 and getattr(s1.value.args[0], "id", None) == local and not s1.value.keywords):
        fail(s1, "adapter call")
    slots = ", ".join(SLOTS[e.value] for e in s0.value.args[1].elts)
    return "\n".join([
        f"def Decoder.{fn.name} (dec : WTerm → M DecState Term) ({msg} : PStmt) : M DecState (List Term) := do",
        f"  let {local} ← Decoder.decode_statement dec {msg} [{slots}]",
        f"  return {local}"])


def translate() -> str:
    tree = ast.parse((REPO / SRC).read_text())
    cd = next((n for n in tree.body if isinstance(n, ast.ClassDef) and n.name == "Decoder"), None)
    if cd is None:
        raise Unsupported(f"{SRC}: class Decoder not found")

    def get(name):
        fn = next((f for f in cd.body if isinstance(f, ast.FunctionDef) and f.name == name), None)
        if fn is None:
            raise Unsupported(f"{SRC}: Decoder.{name} not found")
        return fn

    # the repeated terms start empty
    init = get("__init__")
    if not any(isinstance(n, ast.AnnAssign) and ast.unparse(n.target) == "self.repeated_terms" and isinstance(n.value, ast.Dict) and not n.value.keys
               for n in ast.walk(init)) and not any(isinstance(n, ast.Assign) and ast.unparse(n.targets[0]) == "self.repeated_terms" and isinstance(n.value, ast.Dict)
                                                    and not n.value.keys for n in ast.walk(init)):
        raise Unsupported(f"{SRC}: Decoder.__init__ does not start with empty repeated terms")
    out = ["import JellyModel.PyPreludeDStmt", "/-!",
           "# GENERATED — do not edit. Translated from pyjelly/parse/decode.py (Decoder.decode_statement / decode_triple / decode_quad) by",
           "harness/gen_translate_dstmt.py on every check run; `JellyProofs/TranslatedDStmt.lean` proves them equal to the model's",
           "`DecState.decodeSpo` (and the graph slot of a quad).", "-/", "set_option linter.unusedVariables false", "namespace Jelly.Gen", "open Jelly Jelly.Py", ""]
    fn = get("decode_statement")
    out += [f"/-- `Decoder.decode_statement` ({SRC}:{fn.lineno}) -/", DecodeStatement(fn).render(), ""]
    for name in ("decode_triple", "decode_quad"):
        fn = get(name)
        out += [f"/-- `Decoder.{name}` ({SRC}:{fn.lineno}) -/", render_caller(fn), ""]
    out.append("end Jelly.Gen")
    return "\n".join(out) + "\n"


def main() -> int:
    try:
        text = translate()
    except Unsupported as e:
        print(f"gen_translate_dstmt: source outside the translated fragment: {e}", file=sys.stderr)
        return 3
    except Exception as e:  # noqa: BLE001
        print(f"gen_translate_dstmt: source outside the translated fragment (translator error {type(e).__name__}: {e})", file=sys.stderr)
        return 3
    if OUT.exists() and OUT.read_text() == text:
        print("gen_translate_dstmt: unchanged")
    else:
        OUT.write_text(text)
        print("gen_translate_dstmt: written", OUT)
    return 0


if __name__ == "__main__":
    sys.exit(main())
